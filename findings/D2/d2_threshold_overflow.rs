//! D2 demonstration (drop into sqlite/tests/): `target * 3 / 2` overflows for large configured targets.
//!  * debug build (overflow checks on): an accepted AddVersion panics *after* the version was committed,
//!    so the client never gets its acknowledgement.
//!  * release build (`cargo test --release`): the multiplication wraps, the "high" threshold drops below the
//!    "low" one, and High urgency is reported for a brand-new snapshot although neither measure reached its target.
use taskchampion_sync_server_core::{AddVersionResult, Server, ServerConfig, SnapshotUrgency, NIL_VERSION_ID};
use taskchampion_sync_server_storage_sqlite::SqliteStorage;
use tempfile::TempDir;
use uuid::Uuid;

fn urgency_after_fresh_snapshot(config: ServerConfig) -> SnapshotUrgency {
    let tmp = TempDir::new().unwrap();
    let server = Server::new(config, SqliteStorage::new(tmp.path()).unwrap());
    let c = Uuid::new_v4();
    {
        let mut txn = server.txn(c).unwrap();
        txn.new_client(NIL_VERSION_ID).unwrap();
        txn.commit().unwrap();
    }
    let v1 = match server.add_version(c, NIL_VERSION_ID, b"one".to_vec()).unwrap().0 {
        AddVersionResult::Ok(v) => v,
        _ => unreachable!(),
    };
    server.add_snapshot(c, v1, b"snap".to_vec()).unwrap();
    // snapshot is zero days old and zero versions behind
    server.add_version(c, v1, b"two".to_vec()).unwrap().1
}

#[test]
fn extreme_snapshot_versions_target() {
    let u = urgency_after_fresh_snapshot(ServerConfig { snapshot_days: 14, snapshot_versions: u32::MAX });
    assert_eq!(u, SnapshotUrgency::None);
}

#[test]
fn extreme_snapshot_days_target() {
    let u = urgency_after_fresh_snapshot(ServerConfig { snapshot_days: i64::MAX / 2 + 1, snapshot_versions: 100 });
    assert_eq!(u, SnapshotUrgency::None);
}
