//! D1 demonstration (drop into sqlite/tests/): two overlapping first AddVersion requests for a new
//! client, replayed at the granularity of the storage transactions the HTTP handler
//! (server/src/api/add_version.rs) performs for each request:
//!   T1 Server::add_version -> NoSuchClient ; T2 txn.new_client(NIL)+commit ; T3 Server::add_version (retry)
//! Interleaving: R1.T1 R2.T1 R1.T2 R1.T3 R2.T2 R2.T3.
//! Expected by C01/C03/C07: at most one of the two is accepted on parent NIL.
//! On the unrepaired tree both are accepted: two versions share a parent and v1 is orphaned.
use taskchampion_sync_server_core::{
    AddVersionResult, GetVersionResult, Server, ServerConfig, ServerError, NIL_VERSION_ID,
};
use taskchampion_sync_server_storage_sqlite::SqliteStorage;
use tempfile::TempDir;
use uuid::Uuid;

/// What the handler's `Err(ServerError::NoSuchClient)` arm does (copied from add_version.rs).
fn handler_creation_block(server: &Server, client_id: Uuid, fixed: bool) {
    let mut txn = server.txn(client_id).unwrap();
    if !fixed || txn.get_client().unwrap().is_none() {
        txn.new_client(NIL_VERSION_ID).unwrap();
        txn.commit().unwrap();
    }
}

fn run(fixed: bool) -> (bool, bool, Uuid, Uuid) {
    let tmp = TempDir::new().unwrap();
    let server = Server::new(ServerConfig::default(), SqliteStorage::new(tmp.path()).unwrap());
    let c = Uuid::new_v4();
    // R1.T1, R2.T1
    assert!(matches!(server.add_version(c, NIL_VERSION_ID, b"one".to_vec()), Err(ServerError::NoSuchClient)));
    assert!(matches!(server.add_version(c, NIL_VERSION_ID, b"two".to_vec()), Err(ServerError::NoSuchClient)));
    // R1.T2, R1.T3
    handler_creation_block(&server, c, fixed);
    let r1 = server.add_version(c, NIL_VERSION_ID, b"one".to_vec()).unwrap().0;
    // R2.T2, R2.T3
    handler_creation_block(&server, c, fixed);
    let r2 = server.add_version(c, NIL_VERSION_ID, b"two".to_vec()).unwrap().0;
    let v1 = match r1 { AddVersionResult::Ok(v) => v, _ => panic!("first request must be accepted") };
    let (acc2, v2) = match r2 { AddVersionResult::Ok(v) => (true, v), AddVersionResult::ExpectedParentVersion(v) => (false, v) };
    // walk from NIL
    let child = match server.get_child_version(c, NIL_VERSION_ID).unwrap() {
        GetVersionResult::Success { version_id, .. } => version_id,
        other => panic!("{other:?}"),
    };
    (true, acc2, v1, if acc2 { v2 } else { child })
}

#[test]
fn overlapping_first_requests_are_not_both_accepted_on_nil() {
    // `fixed = false` replays the handler as it is on the pinned tree
    let (_a1, a2, _v1, _v2) = run(false);
    assert!(!a2, "both overlapping AddVersion(parent = NIL) requests were accepted: the chain forks (D1)");
}

#[test]
fn with_absence_recheck_only_one_is_accepted() {
    let (_a1, a2, v1, latest) = run(true);
    assert!(!a2);
    assert_eq!(v1, latest);
}
