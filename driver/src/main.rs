//! tcss-facts: a rustc_private driver that dumps, for every body of the crate being compiled,
//! a JSON description of its `mir_built` MIR (pre-borrowck, pre-coroutine-transform) with callees,
//! field names, constants and spans resolved.  It knows nothing about the analysed repository.
//!
//! Used as RUSTC_WORKSPACE_WRAPPER: argv[1] is the real rustc path and is dropped.
//! Output: $TCSS_FACTS_DIR/<crate_name>-<crate_type>.json, written in one write per process.
#![feature(rustc_private)]
#![allow(clippy::all)]

extern crate rustc_abi;
extern crate rustc_driver;
extern crate rustc_hir;
extern crate rustc_interface;
extern crate rustc_middle;
extern crate rustc_session;
extern crate rustc_span;

mod json;

use json::J;
use rustc_driver::{Callbacks, Compilation};
use rustc_hir::def::DefKind;
use rustc_hir::def_id::{DefId, LocalDefId};
use rustc_interface::interface::Compiler;
use rustc_middle::mir::{
    self, AggregateKind, BasicBlock, Body, BorrowKind, CastKind, Const, ConstValue, Operand, Place,
    PlaceElem, Rvalue, StatementKind, TerminatorKind, UnwindAction,
};
use rustc_middle::ty::print::{with_crate_prefix, with_no_trimmed_paths, with_no_visible_paths};
use rustc_middle::ty::{self, Ty, TyCtxt, TypeVisitableExt};
use rustc_span::Span;
use std::collections::BTreeMap;

struct Cb;

impl Callbacks for Cb {
    fn after_expansion<'tcx>(&mut self, _c: &Compiler, tcx: TyCtxt<'tcx>) -> Compilation {
        if let Ok(dir) = std::env::var("TCSS_FACTS_DIR") {
            extract(tcx, &dir);
        }
        Compilation::Continue
    }
}

fn main() {
    let mut args: Vec<String> = std::env::args().collect();
    // RUSTC_WORKSPACE_WRAPPER convention: argv[1] is the path of the real rustc.
    if args.len() > 1 && (args[1].ends_with("rustc") || args[1].contains("/rustc")) {
        args.remove(1);
    }
    rustc_driver::install_ice_hook("tcss-facts (verification driver)", |_| ());
    let code = rustc_driver::catch_with_exit_code(|| {
        rustc_driver::run_compiler(&args, &mut Cb);
    });
    std::process::exit(if code == std::process::ExitCode::SUCCESS { 0 } else { 1 });
}

thread_local! {
    static CRATE_NAME: std::cell::RefCell<String> = std::cell::RefCell::new(String::new());
}

/// Replace the `crate::` prefix printed for local items by the crate's name so that a path reads
/// the same from inside and from outside the defining crate.
fn canon(s: String) -> String {
    if !s.contains("crate::") {
        return s;
    }
    let name = CRATE_NAME.with(|c| c.borrow().clone());
    let b = s.as_bytes();
    let mut out = String::with_capacity(s.len() + 32);
    let mut i = 0;
    while i < b.len() {
        if s[i..].starts_with("crate::")
            && (i == 0 || !(b[i - 1].is_ascii_alphanumeric() || b[i - 1] == b'_' || b[i - 1] == b'$'))
        {
            out.push_str(&name);
            out.push_str("::");
            i += 7;
        } else {
            let ch = s[i..].chars().next().unwrap();
            out.push(ch);
            i += ch.len_utf8();
        }
    }
    out
}

fn tystr<'tcx>(t: Ty<'tcx>) -> String {
    canon(with_no_trimmed_paths!(with_no_visible_paths!(with_crate_prefix!(t.to_string()))))
}

fn defstr(tcx: TyCtxt<'_>, d: DefId) -> String {
    canon(with_no_trimmed_paths!(with_no_visible_paths!(with_crate_prefix!(tcx.def_path_str(d)))))
}

fn defstr_args<'tcx>(tcx: TyCtxt<'tcx>, d: DefId, args: ty::GenericArgsRef<'tcx>) -> String {
    canon(with_no_trimmed_paths!(with_no_visible_paths!(with_crate_prefix!(
        tcx.def_path_str_with_args(d, args)
    ))))
}

struct Cx<'tcx> {
    tcx: TyCtxt<'tcx>,
    consts_to_eval: BTreeMap<String, DefId>,
}

fn span_json(tcx: TyCtxt<'_>, sp: Span) -> J {
    let sm = tcx.sess.source_map();
    let mut o = J::obj();
    let cs = sp.source_callsite();
    let lo = sm.lookup_char_pos(cs.lo());
    let hi = sm.lookup_char_pos(cs.hi());
    o.set("file", J::s(&format!("{}", lo.file.name.prefer_local_unconditionally())));
    o.set("line", J::i(lo.line as i128));
    o.set("col", J::i(lo.col.0 as i128 + 1));
    o.set("eline", J::i(hi.line as i128));
    if sp.from_expansion() {
        // innermost and outermost expansion descriptors
        let mut chain: Vec<J> = Vec::new();
        let mut cur = sp;
        let mut guard = 0;
        while cur.from_expansion() && guard < 32 {
            let ed = cur.ctxt().outer_expn_data();
            let d = match ed.kind {
                rustc_span::ExpnKind::Macro(_, name) => {
                    let path = ed.macro_def_id.map(|d| defstr(tcx, d)).unwrap_or_default();
                    format!("macro:{}:{}", name, path)
                }
                rustc_span::ExpnKind::Desugaring(k) => format!("desugar:{:?}", k),
                rustc_span::ExpnKind::AstPass(k) => format!("astpass:{:?}", k),
                rustc_span::ExpnKind::Root => "root".to_string(),
            };
            chain.push(J::s(&d));
            cur = ed.call_site;
            guard += 1;
        }
        o.set("exp", J::Arr(chain));
    }
    o
}

impl<'tcx> Cx<'tcx> {
    fn place_json(&self, body: &Body<'tcx>, p: &Place<'tcx>) -> J {
        let tcx = self.tcx;
        let mut o = J::obj();
        o.set("l", J::i(p.local.as_usize() as i128));
        let mut proj: Vec<J> = Vec::new();
        let mut pty = mir::PlaceTy::from_ty(body.local_decls[p.local].ty);
        for elem in p.projection.iter() {
            let mut e = J::obj();
            match elem {
                PlaceElem::Deref => {
                    e.set("k", J::s("deref"));
                }
                PlaceElem::Field(f, fty) => {
                    e.set("k", J::s("field"));
                    e.set("i", J::i(f.as_usize() as i128));
                    e.set("ty", J::s(&tystr(fty)));
                    let mut name = format!("{}", f.as_usize());
                    if let ty::Adt(adt, _) = pty.ty.kind() {
                        let vi = pty.variant_index.unwrap_or(rustc_abi::FIRST_VARIANT);
                        if vi.as_usize() < adt.variants().len() {
                            let v = adt.variant(vi);
                            if f.as_usize() < v.fields.len() {
                                name = v.fields[f].name.to_string();
                            }
                        }
                        e.set("adt", J::s(&defstr(tcx, adt.did())));
                    } else if let ty::Closure(..) | ty::Coroutine(..) | ty::CoroutineClosure(..) =
                        pty.ty.kind()
                    {
                        e.set("upvar", J::Bool(true));
                    }
                    e.set("name", J::s(&name));
                }
                PlaceElem::Downcast(sym, vi) => {
                    e.set("k", J::s("downcast"));
                    e.set("i", J::i(vi.as_usize() as i128));
                    let mut name = sym.map(|s| s.to_string()).unwrap_or_default();
                    if let ty::Adt(adt, _) = pty.ty.kind() {
                        if vi.as_usize() < adt.variants().len() {
                            name = adt.variant(vi).name.to_string();
                        }
                        e.set("adt", J::s(&defstr(tcx, adt.did())));
                    }
                    e.set("name", J::s(&name));
                }
                PlaceElem::Index(l) => {
                    e.set("k", J::s("index"));
                    e.set("l", J::i(l.as_usize() as i128));
                }
                PlaceElem::ConstantIndex { offset, min_length, from_end } => {
                    e.set("k", J::s("constindex"));
                    e.set("offset", J::i(offset as i128));
                    e.set("min_length", J::i(min_length as i128));
                    e.set("from_end", J::Bool(from_end));
                }
                PlaceElem::Subslice { from, to, from_end } => {
                    e.set("k", J::s("subslice"));
                    e.set("from", J::i(from as i128));
                    e.set("to", J::i(to as i128));
                    e.set("from_end", J::Bool(from_end));
                }
                PlaceElem::OpaqueCast(t) => {
                    e.set("k", J::s("opaquecast"));
                    e.set("ty", J::s(&tystr(t)));
                }
                PlaceElem::UnwrapUnsafeBinder(t) => {
                    e.set("k", J::s("unwrapbinder"));
                    e.set("ty", J::s(&tystr(t)));
                }
            }
            proj.push(e);
            pty = pty.projection_ty(tcx, elem);
        }
        o.set("proj", J::Arr(proj));
        o.set("ty", J::s(&tystr(pty.ty)));
        o
    }

    fn const_json(&mut self, body: &Body<'tcx>, c: &mir::ConstOperand<'tcx>) -> J {
        let tcx = self.tcx;
        let mut o = J::obj();
        o.set("k", J::s("const"));
        let cty = c.const_.ty();
        o.set("ty", J::s(&tystr(cty)));
        let _ = body;
        match c.const_ {
            Const::Unevaluated(uv, _) => {
                let p = defstr(tcx, uv.def);
                o.set("def", J::s(&p));
                if let Some(pr) = uv.promoted {
                    o.set("promoted", J::i(pr.as_usize() as i128));
                } else {
                    let dk = tcx.def_kind(uv.def);
                    if matches!(dk, DefKind::Const { .. } | DefKind::AssocConst { .. })
                        && uv.args.is_empty()
                    {
                        self.consts_to_eval.insert(p, uv.def);
                    }
                }
            }
            Const::Val(v, ty) => {
                self.value_json(&mut o, v, ty);
            }
            Const::Ty(_, ct) => {
                o.set("tyconst", J::s(&with_no_trimmed_paths!(format!("{:?}", ct))));
            }
        }
        if let ty::FnDef(did, args) = cty.kind() {
            o.set("fn", J::s(&defstr(tcx, *did)));
            o.set("fn_args", J::s(&defstr_args(tcx, *did, args)));
        }
        if let ty::Closure(did, _) = cty.kind() {
            o.set("closure", J::s(&defstr(tcx, *did)));
        }
        o
    }

    fn value_json(&self, o: &mut J, v: ConstValue, ty: Ty<'tcx>) {
        let tcx = self.tcx;
        match v {
            ConstValue::Scalar(mir::interpret::Scalar::Int(i)) => {
                let size = i.size();
                let bits = i.to_bits(size);
                match ty.kind() {
                    ty::Bool => o.set("val", J::Bool(bits != 0)),
                    ty::Int(_) => {
                        let sb = size.bits() as u32;
                        let sv = if sb == 0 {
                            0
                        } else if sb >= 128 {
                            bits as i128
                        } else {
                            let shift = 128 - sb;
                            ((bits << shift) as i128) >> shift
                        };
                        o.set("val", J::i(sv));
                    }
                    ty::Uint(_) => {
                        if bits <= i128::MAX as u128 {
                            o.set("val", J::i(bits as i128));
                        } else {
                            o.set("val", J::s(&bits.to_string()));
                        }
                    }
                    ty::Char => {
                        let ch = char::from_u32(bits as u32).unwrap_or('\u{fffd}');
                        o.set("val", J::s(&ch.to_string()));
                    }
                    _ => {
                        if bits <= i128::MAX as u128 {
                            o.set("bits", J::i(bits as i128));
                        }
                    }
                }
            }
            ConstValue::Scalar(mir::interpret::Scalar::Ptr(ptr, _)) => {
                o.set("valkind", J::s("ptr"));
                // `&[u8; N]` constants (the byte-encoded template of format_args!): emit the bytes
                if let ty::Ref(_, inner, _) = ty.kind() {
                    if let ty::Array(et, _) = inner.kind() {
                        if *et == tcx.types.u8 {
                            let (prov, offset) = ptr.prov_and_relative_offset();
                            if let mir::interpret::GlobalAlloc::Memory(a) = tcx.global_alloc(prov.alloc_id()) {
                                let alloc = a.inner();
                                let start = offset.bytes() as usize;
                                let all = alloc.inspect_with_uninit_and_ptr_outside_interpreter(0..alloc.len());
                                if start <= all.len() {
                                    o.set(
                                        "bytes",
                                        J::Arr(all[start..].iter().map(|b| J::i(*b as i128)).collect()),
                                    );
                                }
                            }
                        }
                    }
                }
            }
            ConstValue::ZeroSized => {
                o.set("valkind", J::s("zst"));
            }
            ConstValue::Slice { .. } => {
                if let Some(bytes) = v.try_get_slice_bytes_for_diagnostics(tcx) {
                    let is_str = matches!(ty.kind(), ty::Ref(_, inner, _) if inner.is_str());
                    if is_str {
                        o.set("val", J::s(&String::from_utf8_lossy(bytes)));
                    } else {
                        o.set(
                            "bytes",
                            J::Arr(bytes.iter().map(|b| J::i(*b as i128)).collect()),
                        );
                    }
                } else {
                    o.set("valkind", J::s("slice"));
                }
            }
            ConstValue::Indirect { alloc_id, offset } => {
                o.set("valkind", J::s("indirect"));
                // a `&str` stored in memory (a field of a tuple constant): fat pointer = (ptr, len)
                if matches!(ty.kind(), ty::Ref(_, inner, _) if inner.is_str()) {
                    if let mir::interpret::GlobalAlloc::Memory(a) = tcx.global_alloc(alloc_id) {
                        let alloc = a.inner();
                        let ps = tcx.data_layout.pointer_size().bytes() as usize;
                        let off = offset.bytes() as usize;
                        let raw = alloc.inspect_with_uninit_and_ptr_outside_interpreter(0..alloc.len());
                        if off + 2 * ps <= raw.len() && ps == 8 {
                            let mut b8 = [0u8; 8];
                            b8.copy_from_slice(&raw[off..off + 8]);
                            let poff = u64::from_le_bytes(b8) as usize;
                            b8.copy_from_slice(&raw[off + 8..off + 16]);
                            let len = u64::from_le_bytes(b8) as usize;
                            if let Some(prov) = alloc.provenance().ptrs().get(&offset) {
                                if let mir::interpret::GlobalAlloc::Memory(t) = tcx.global_alloc(prov.alloc_id()) {
                                    let ta = t.inner();
                                    let tb = ta.inspect_with_uninit_and_ptr_outside_interpreter(0..ta.len());
                                    if poff + len <= tb.len() {
                                        o.set("val", J::s(&String::from_utf8_lossy(&tb[poff..poff + len])));
                                    }
                                }
                            }
                        }
                    }
                }
                // a tuple constant (e.g. a (&str, &str) header pair): emit its fields
                if let ty::Tuple(_) = ty.kind() {
                    if let Some(d) = tcx.try_destructure_mir_constant_for_user_output(v, ty) {
                        let mut arr = Vec::new();
                        for (fv, fty) in d.fields.iter() {
                            let mut fo = J::obj();
                            fo.set("ty", J::s(&tystr(*fty)));
                            self.value_json(&mut fo, *fv, *fty);
                            arr.push(fo);
                        }
                        o.set("fields", J::Arr(arr));
                    }
                }
            }
        }
    }

    fn operand_json(&mut self, body: &Body<'tcx>, op: &Operand<'tcx>) -> J {
        match op {
            Operand::Copy(p) => {
                let mut o = J::obj();
                o.set("k", J::s("copy"));
                o.set("p", self.place_json(body, p));
                o
            }
            Operand::Move(p) => {
                let mut o = J::obj();
                o.set("k", J::s("move"));
                o.set("p", self.place_json(body, p));
                o
            }
            Operand::Constant(c) => self.const_json(body, c),
            #[allow(unreachable_patterns)]
            _ => {
                let mut o = J::obj();
                o.set("k", J::s("other"));
                o.set("dbg", J::s(&format!("{:?}", op)));
                o
            }
        }
    }

    fn rvalue_json(&mut self, body: &Body<'tcx>, rv: &Rvalue<'tcx>) -> J {
        let tcx = self.tcx;
        let mut o = J::obj();
        match rv {
            Rvalue::Use(op, ..) => {
                o.set("k", J::s("use"));
                o.set("op", self.operand_json(body, op));
            }
            Rvalue::Repeat(op, n) => {
                o.set("k", J::s("repeat"));
                o.set("op", self.operand_json(body, op));
                o.set("n", J::s(&format!("{:?}", n)));
            }
            Rvalue::Ref(_, bk, p) => {
                o.set("k", J::s("ref"));
                let m = match bk {
                    BorrowKind::Shared => "shared",
                    BorrowKind::Fake(_) => "fake",
                    BorrowKind::Mut { .. } => "mut",
                };
                o.set("bk", J::s(m));
                o.set("p", self.place_json(body, p));
            }
            Rvalue::ThreadLocalRef(d) => {
                o.set("k", J::s("threadlocal"));
                o.set("def", J::s(&defstr(tcx, *d)));
            }
            Rvalue::RawPtr(_, p) => {
                o.set("k", J::s("rawptr"));
                o.set("p", self.place_json(body, p));
            }
            Rvalue::Cast(kind, op, ty) => {
                o.set("k", J::s("cast"));
                let ck = match kind {
                    CastKind::PointerCoercion(pc, _) => format!("ptr:{:?}", pc),
                    other => format!("{:?}", other),
                };
                o.set("ck", J::s(&ck));
                o.set("op", self.operand_json(body, op));
                o.set("ty", J::s(&tystr(*ty)));
            }
            Rvalue::BinaryOp(bop, ab) => {
                o.set("k", J::s("binop"));
                o.set("op", J::s(&format!("{:?}", bop)));
                o.set("a", self.operand_json(body, &ab.0));
                o.set("b", self.operand_json(body, &ab.1));
            }
            Rvalue::UnaryOp(uop, a) => {
                o.set("k", J::s("unop"));
                o.set("op", J::s(&format!("{:?}", uop)));
                o.set("a", self.operand_json(body, a));
            }
            Rvalue::Discriminant(p) => {
                o.set("k", J::s("discriminant"));
                o.set("p", self.place_json(body, p));
                // variant table of the ADT for switch decoding
                let pty = p.ty(&body.local_decls, tcx).ty;
                if let ty::Adt(adt, _) = pty.kind() {
                    if adt.is_enum() {
                        let mut vs = Vec::new();
                        for (vi, d) in adt.discriminants(tcx) {
                            let mut v = J::obj();
                            v.set("name", J::s(&adt.variant(vi).name.to_string()));
                            v.set("idx", J::i(vi.as_usize() as i128));
                            v.set("discr", J::s(&d.val.to_string()));
                            vs.push(v);
                        }
                        o.set("variants", J::Arr(vs));
                        o.set("adt", J::s(&defstr(tcx, adt.did())));
                    }
                }
            }
            Rvalue::Aggregate(ak, ops) => {
                o.set("k", J::s("aggregate"));
                match &**ak {
                    AggregateKind::Array(t) => {
                        o.set("ak", J::s("array"));
                        o.set("ty", J::s(&tystr(*t)));
                    }
                    AggregateKind::Tuple => {
                        o.set("ak", J::s("tuple"));
                    }
                    AggregateKind::Adt(did, vi, _args, _, active) => {
                        o.set("ak", J::s("adt"));
                        o.set("adt", J::s(&defstr(tcx, *did)));
                        let adt = tcx.adt_def(*did);
                        let v = adt.variant(*vi);
                        o.set("variant", J::s(&v.name.to_string()));
                        o.set("vi", J::i(vi.as_usize() as i128));
                        let names: Vec<J> = match active {
                            Some(f) => vec![J::s(&v.fields[*f].name.to_string())],
                            None => v.fields.iter().map(|f| J::s(&f.name.to_string())).collect(),
                        };
                        o.set("fields", J::Arr(names));
                    }
                    AggregateKind::Closure(did, _) => {
                        o.set("ak", J::s("closure"));
                        o.set("def", J::s(&defstr(tcx, *did)));
                    }
                    AggregateKind::Coroutine(did, _) => {
                        o.set("ak", J::s("coroutine"));
                        o.set("def", J::s(&defstr(tcx, *did)));
                    }
                    AggregateKind::CoroutineClosure(did, _) => {
                        o.set("ak", J::s("coroutineclosure"));
                        o.set("def", J::s(&defstr(tcx, *did)));
                    }
                    AggregateKind::RawPtr(t, _) => {
                        o.set("ak", J::s("rawptr"));
                        o.set("ty", J::s(&tystr(*t)));
                    }
                }
                let mut v = Vec::new();
                for op in ops.iter() {
                    v.push(self.operand_json(body, op));
                }
                o.set("ops", J::Arr(v));
            }
            Rvalue::CopyForDeref(p) => {
                o.set("k", J::s("use"));
                let mut oo = J::obj();
                oo.set("k", J::s("copy"));
                oo.set("p", self.place_json(body, p));
                o.set("op", oo);
                o.set("copyforderef", J::Bool(true));
            }
            Rvalue::WrapUnsafeBinder(op, t) => {
                o.set("k", J::s("wrapbinder"));
                o.set("op", self.operand_json(body, op));
                o.set("ty", J::s(&tystr(*t)));
            }
            #[allow(unreachable_patterns)]
            _ => {
                o.set("k", J::s("other"));
                o.set("dbg", J::s(&format!("{:?}", rv)));
            }
        }
        o
    }

    fn callee_json(&mut self, body: &Body<'tcx>, owner: LocalDefId, func: &Operand<'tcx>) -> J {
        let tcx = self.tcx;
        let mut o = J::obj();
        let fty = func.ty(&body.local_decls, tcx);
        o.set("ty", J::s(&tystr(fty)));
        match fty.kind() {
            ty::FnDef(did, args) => {
                o.set("def", J::s(&defstr(tcx, *did)));
                o.set(
                    "def_args",
                    J::s(&defstr_args(tcx, *did, args)),
                );
                o.set("krate", J::s(&tcx.crate_name(did.krate).to_string()));
                o.set("name", J::s(&tcx.item_name(*did).to_string()));
                let targs: Vec<J> = args
                    .iter()
                    .filter_map(|a| a.as_type().map(|t| J::s(&tystr(t))))
                    .collect();
                o.set("targs", J::Arr(targs));
                if let Some(tr) = tcx.trait_of_assoc(*did) {
                    o.set("trait", J::s(&defstr(tcx, tr)));
                    if let Some(st) = args.types().next() {
                        o.set("self_ty", J::s(&tystr(st)));
                        if let ty::Dynamic(..) = st.kind() {
                            o.set("dyn", J::Bool(true));
                        }
                    }
                } else if let Some(imp) = tcx.impl_of_assoc(*did) {
                    let st = tcx.type_of(imp).instantiate_identity().skip_norm_wip();
                    o.set("impl_self", J::s(&tystr(st)));
                }
                // Resolution to a concrete instance where possible.
                let tenv = ty::TypingEnv::post_analysis(tcx, owner.to_def_id());
                let args2 = tcx.erase_and_anonymize_regions(*args);
                if !args2.has_non_region_infer() {
                    if let Ok(nargs) = tcx.try_normalize_erasing_regions(tenv, ty::Unnormalized::new_wip(args2)) {
                        if let Ok(Some(inst)) = ty::Instance::try_resolve(tcx, tenv, *did, nargs) {
                            let rd = inst.def_id();
                            o.set("resolved", J::s(&defstr(tcx, rd)));
                            o.set("resolved_krate", J::s(&tcx.crate_name(rd.krate).to_string()));
                            let ik = match inst.def {
                                ty::InstanceKind::Item(_) => "item",
                                ty::InstanceKind::Virtual(..) => "virtual",
                                ty::InstanceKind::Intrinsic(_) => "intrinsic",
                                ty::InstanceKind::ClosureOnceShim { .. } => "closure_once_shim",
                                ty::InstanceKind::FnPtrShim(..) => "fnptr_shim",
                                ty::InstanceKind::DropGlue(..) => "drop_glue",
                                ty::InstanceKind::CloneShim(..) => "clone_shim",
                                ty::InstanceKind::ReifyShim(..) => "reify_shim",
                                _ => "other",
                            };
                            o.set("ikind", J::s(ik));
                            if let Some(imp) = tcx.impl_of_assoc(rd) {
                                let st = tcx.type_of(imp).instantiate_identity().skip_norm_wip();
                                o.set("resolved_impl_self", J::s(&tystr(st)));
                            }
                        }
                    }
                }
            }
            ty::FnPtr(..) => {
                o.set("indirect", J::s("fnptr"));
                o.set("op", self.operand_json(body, func));
            }
            _ => {
                o.set("indirect", J::s("other"));
                o.set("op", self.operand_json(body, func));
            }
        }
        o
    }

    fn body_json(&mut self, owner: LocalDefId, body: &Body<'tcx>) -> J {
        let tcx = self.tcx;
        let mut o = J::obj();
        let did = owner.to_def_id();
        o.set("def", J::s(&defstr(tcx, did)));
        o.set("kind", J::s(&format!("{:?}", tcx.def_kind(did))));
        if let Some(p) = tcx.opt_parent(did) {
            o.set("parent", J::s(&defstr(tcx, p)));
            if matches!(tcx.def_kind(did), DefKind::AssocFn | DefKind::AssocConst { .. }) {
                if let DefKind::Impl { of_trait } = tcx.def_kind(p) {
                    let st = tcx.type_of(p).instantiate_identity().skip_norm_wip();
                    o.set("impl_self", J::s(&tystr(st)));
                    if of_trait {
                        let tr = tcx.impl_trait_ref(p).instantiate_identity().skip_norm_wip();
                        o.set("impl_trait", J::s(&defstr(tcx, tr.def_id)));
                        o.set("impl_trait_ref", J::s(&canon(with_no_trimmed_paths!(with_no_visible_paths!(with_crate_prefix!(format!("{}", tr)))))));
                    }
                }
            }
        }
        if matches!(tcx.def_kind(did), DefKind::Fn | DefKind::AssocFn) {
            // nominal `pub` inside a private module is not reachable from outside the crate: report the
            // effective visibility so that `pub(crate)` -> `pub` in a private module is not a change of shape
            // (the effective-visibility query type-checks opaque types and would steal MIR: it is asked only after
            // every body has been read, and reported in the unit's `pub_unreachable` list)
            o.set("vis", J::s(&format!("{:?}", tcx.visibility(did))));
        }
        {
            // names of the type parameters in scope, in substitution order (pairs with a call's "targs")
            let g = tcx.generics_of(did);
            let mut names = Vec::new();
            for i in 0..g.count() {
                let p = g.param_at(i, tcx);
                if let ty::GenericParamDefKind::Type { .. } = p.kind {
                    names.push(J::s(&p.name.to_string()));
                }
            }
            o.set("generics", J::Arr(names));
        }
        o.set("span", span_json(tcx, body.span));
        o.set("arg_count", J::i(body.arg_count as i128));
        if let Some(ck) = body.coroutine_kind() {
            o.set("coroutine", J::s(&format!("{:?}", ck)));
        }
        // locals
        let mut locals = Vec::new();
        for (l, d) in body.local_decls.iter_enumerated() {
            let mut lo = J::obj();
            lo.set("i", J::i(l.as_usize() as i128));
            lo.set("ty", J::s(&tystr(d.ty)));
            lo.set("mut", J::Bool(d.mutability.is_mut()));
            lo.set("user", J::Bool(d.is_user_variable()));
            lo.set("line", J::i(
                tcx.sess.source_map().lookup_char_pos(d.source_info.span.source_callsite().lo()).line as i128,
            ));
            locals.push(lo);
        }
        o.set("locals", J::Arr(locals));
        // debug info
        let mut dbg = Vec::new();
        for v in body.var_debug_info.iter() {
            let mut d = J::obj();
            d.set("name", J::s(&v.name.to_string()));
            match &v.value {
                mir::VarDebugInfoContents::Place(p) => {
                    d.set("p", self.place_json(body, p));
                }
                mir::VarDebugInfoContents::Const(c) => {
                    d.set("c", self.const_json(body, c));
                }
            }
            if let Some(a) = v.argument_index {
                d.set("arg", J::i(a as i128));
            }
            dbg.push(d);
        }
        o.set("debug", J::Arr(dbg));
        // blocks
        let mut blocks = Vec::new();
        for (bb, data) in body.basic_blocks.iter_enumerated() {
            let mut b = J::obj();
            b.set("i", J::i(bb.as_usize() as i128));
            b.set("cleanup", J::Bool(data.is_cleanup));
            let mut stmts = Vec::new();
            for st in data.statements.iter() {
                let mut s = J::obj();
                match &st.kind {
                    StatementKind::Assign(bx) => {
                        let (p, rv) = &**bx;
                        s.set("k", J::s("assign"));
                        s.set("p", self.place_json(body, p));
                        s.set("rv", self.rvalue_json(body, rv));
                    }
                    StatementKind::SetDiscriminant { place, variant_index } => {
                        s.set("k", J::s("setdiscr"));
                        s.set("p", self.place_json(body, place));
                        s.set("vi", J::i(variant_index.as_usize() as i128));
                    }
                    StatementKind::StorageLive(_)
                    | StatementKind::StorageDead(_)
                    | StatementKind::Nop
                    | StatementKind::FakeRead(..)
                    | StatementKind::AscribeUserType(..)
                    | StatementKind::PlaceMention(..)
                    | StatementKind::Coverage(..)
                    | StatementKind::ConstEvalCounter
                    | StatementKind::BackwardIncompatibleDropHint { .. } => continue,
                    StatementKind::Intrinsic(i) => {
                        s.set("k", J::s("intrinsic"));
                        s.set("dbg", J::s(&format!("{:?}", i)));
                    }
                    #[allow(unreachable_patterns)]
                    other => {
                        s.set("k", J::s("other"));
                        s.set("dbg", J::s(&format!("{:?}", other)));
                    }
                }
                s.set("span", span_json(tcx, st.source_info.span));
                stmts.push(s);
            }
            b.set("stmts", J::Arr(stmts));
            let term = data.terminator();
            let mut t = J::obj();
            let bbj = |b: BasicBlock| J::i(b.as_usize() as i128);
            let unw = |u: &UnwindAction| match u {
                UnwindAction::Cleanup(b) => J::i(b.as_usize() as i128),
                _ => J::Null,
            };
            match &term.kind {
                TerminatorKind::Goto { target } => {
                    t.set("k", J::s("goto"));
                    t.set("target", bbj(*target));
                }
                TerminatorKind::SwitchInt { discr, targets } => {
                    t.set("k", J::s("switch"));
                    t.set("discr", self.operand_json(body, discr));
                    let mut arms = Vec::new();
                    for (v, tb) in targets.iter() {
                        let mut a = J::obj();
                        a.set("v", J::s(&v.to_string()));
                        a.set("t", bbj(tb));
                        arms.push(a);
                    }
                    t.set("arms", J::Arr(arms));
                    t.set("otherwise", bbj(targets.otherwise()));
                }
                TerminatorKind::UnwindResume => {
                    t.set("k", J::s("resume"));
                }
                TerminatorKind::UnwindTerminate(_) => {
                    t.set("k", J::s("terminate"));
                }
                TerminatorKind::Return => {
                    t.set("k", J::s("return"));
                }
                TerminatorKind::Unreachable => {
                    t.set("k", J::s("unreachable"));
                }
                TerminatorKind::Drop { place, target, unwind, .. } => {
                    t.set("k", J::s("drop"));
                    t.set("p", self.place_json(body, place));
                    t.set("target", bbj(*target));
                    t.set("unwind", unw(unwind));
                }
                TerminatorKind::Call { func, args, destination, target, unwind, fn_span, .. } => {
                    t.set("k", J::s("call"));
                    t.set("callee", self.callee_json(body, owner, func));
                    let mut av = Vec::new();
                    for a in args.iter() {
                        av.push(self.operand_json(body, &a.node));
                    }
                    t.set("args", J::Arr(av));
                    t.set("dest", self.place_json(body, destination));
                    t.set("target", target.map(bbj).unwrap_or(J::Null));
                    t.set("unwind", unw(unwind));
                    t.set("fn_span", span_json(tcx, *fn_span));
                }
                TerminatorKind::TailCall { func, args, .. } => {
                    t.set("k", J::s("tailcall"));
                    t.set("callee", self.callee_json(body, owner, func));
                    let mut av = Vec::new();
                    for a in args.iter() {
                        av.push(self.operand_json(body, &a.node));
                    }
                    t.set("args", J::Arr(av));
                }
                TerminatorKind::Assert { cond, expected, msg, target, unwind } => {
                    t.set("k", J::s("assert"));
                    t.set("cond", self.operand_json(body, cond));
                    t.set("expected", J::Bool(*expected));
                    let mk = match &**msg {
                        mir::AssertKind::BoundsCheck { .. } => "BoundsCheck".to_string(),
                        mir::AssertKind::Overflow(op, ..) => format!("Overflow:{:?}", op),
                        mir::AssertKind::OverflowNeg(_) => "OverflowNeg".to_string(),
                        mir::AssertKind::DivisionByZero(_) => "DivisionByZero".to_string(),
                        mir::AssertKind::RemainderByZero(_) => "RemainderByZero".to_string(),
                        mir::AssertKind::ResumedAfterReturn(_) => "ResumedAfterReturn".to_string(),
                        mir::AssertKind::ResumedAfterPanic(_) => "ResumedAfterPanic".to_string(),
                        other => format!("{:?}", std::mem::discriminant(other)),
                    };
                    t.set("msg", J::s(&mk));
                    t.set("target", bbj(*target));
                    t.set("unwind", unw(unwind));
                }
                TerminatorKind::Yield { value, resume, resume_arg, drop } => {
                    t.set("k", J::s("yield"));
                    t.set("value", self.operand_json(body, value));
                    t.set("target", bbj(*resume));
                    t.set("resume_arg", self.place_json(body, resume_arg));
                    t.set("drop", drop.map(bbj).unwrap_or(J::Null));
                }
                TerminatorKind::CoroutineDrop => {
                    t.set("k", J::s("coroutinedrop"));
                }
                TerminatorKind::FalseEdge { real_target, imaginary_target } => {
                    t.set("k", J::s("goto"));
                    t.set("target", bbj(*real_target));
                    t.set("false_edge", bbj(*imaginary_target));
                }
                TerminatorKind::FalseUnwind { real_target, .. } => {
                    t.set("k", J::s("goto"));
                    t.set("target", bbj(*real_target));
                    t.set("false_unwind", J::Bool(true));
                }
                TerminatorKind::InlineAsm { .. } => {
                    t.set("k", J::s("inlineasm"));
                }
            }
            t.set("span", span_json(tcx, term.source_info.span));
            b.set("term", t);
            blocks.push(b);
        }
        o.set("blocks", J::Arr(blocks));
        o
    }
}

struct RefCollector {
    refs: Vec<DefId>,
    methods: Vec<rustc_span::Symbol>,
}

impl<'v> rustc_hir::intravisit::Visitor<'v> for RefCollector {
    fn visit_expr(&mut self, e: &'v rustc_hir::Expr<'v>) {
        if let rustc_hir::ExprKind::Path(rustc_hir::QPath::Resolved(_, path)) = &e.kind {
            if let rustc_hir::def::Res::Def(DefKind::Fn | DefKind::AssocFn, did) = path.res {
                self.refs.push(did);
            }
        }
        // `recv.method(..)` is resolved by type checking, which is exactly what must not run yet: every local associated
        // function of that name is treated as a possible callee (ordering only)
        if let rustc_hir::ExprKind::MethodCall(seg, ..) = &e.kind {
            self.methods.push(seg.ident.name);
        }
        rustc_hir::intravisit::walk_expr(self, e);
    }
}

/// Body owners ordered so that a type-check root is visited after every local function its bodies refer to by
/// path; nested closures / coroutines follow their root.
fn visit_order<'tcx>(tcx: TyCtxt<'tcx>, owners: &[LocalDefId]) -> Vec<LocalDefId> {
    use std::collections::{HashMap as BTreeMap, HashSet as BTreeSet};
    let mut by_root: BTreeMap<LocalDefId, Vec<LocalDefId>> = BTreeMap::new();
    let mut root_order: Vec<LocalDefId> = Vec::new();
    for &o in owners {
        let r = tcx.typeck_root_def_id_local(o);
        if !by_root.contains_key(&r) {
            root_order.push(r);
        }
        by_root.entry(r).or_default().push(o);
    }
    let mut by_name: BTreeMap<rustc_span::Symbol, Vec<LocalDefId>> = BTreeMap::new();
    for &r in &root_order {
        if matches!(tcx.def_kind(r.to_def_id()), DefKind::AssocFn) {
            by_name.entry(tcx.item_name(r.to_def_id())).or_default().push(r);
        }
    }
    let mut deps: BTreeMap<LocalDefId, Vec<LocalDefId>> = BTreeMap::new();
    for (&r, members) in by_root.iter() {
        let mut c = RefCollector { refs: Vec::new(), methods: Vec::new() };
        for &mbr in members {
            if let Some(body) = tcx.hir_maybe_body_owned_by(mbr) {
                rustc_hir::intravisit::Visitor::visit_body(&mut c, body);
            }
        }
        let mut ds = Vec::new();
        for d in c.refs {
            if let Some(ld) = d.as_local() {
                let lr = tcx.typeck_root_def_id_local(ld);
                if lr != r && by_root.contains_key(&lr) && !ds.contains(&lr) {
                    ds.push(lr);
                }
            }
        }
        for mname in c.methods {
            if let Some(cands) = by_name.get(&mname) {
                for &lr in cands {
                    if lr != r && !ds.contains(&lr) {
                        ds.push(lr);
                    }
                }
            }
        }
        deps.insert(r, ds);
    }
    // roots whose signature hides a type (async fn, -> impl Trait) first
    let mut starts: Vec<LocalDefId> = Vec::new();
    for &r in &root_order {
        let did = r.to_def_id();
        if matches!(tcx.def_kind(did), DefKind::Fn | DefKind::AssocFn) && tcx.asyncness(did).is_async() {
            starts.push(r);
        }
    }
    for &r in &root_order {
        if !starts.contains(&r) {
            starts.push(r);
        }
    }
    let mut done: BTreeSet<LocalDefId> = BTreeSet::new();
    let mut out: Vec<LocalDefId> = Vec::new();
    for s in starts {
        // iterative DFS post-order
        let mut stack: Vec<(LocalDefId, usize)> = vec![(s, 0)];
        let mut onstack: BTreeSet<LocalDefId> = BTreeSet::new();
        while let Some((n, i)) = stack.pop() {
            if done.contains(&n) {
                continue;
            }
            onstack.insert(n);
            let ds = deps.get(&n).cloned().unwrap_or_default();
            if i < ds.len() {
                stack.push((n, i + 1));
                let d = ds[i];
                if !done.contains(&d) && !onstack.contains(&d) {
                    stack.push((d, 0));
                }
            } else {
                done.insert(n);
                onstack.remove(&n);
                if let Some(ms) = by_root.get(&n) {
                    // nested bodies first (they are what a caller's type check would steal), then the root
                    for &mbr in ms.iter().rev() {
                        out.push(mbr);
                    }
                }
            }
        }
    }
    out
}

fn extract(tcx: TyCtxt<'_>, dir: &str) {
    let crate_name = tcx.crate_name(rustc_hir::def_id::LOCAL_CRATE).to_string();
    CRATE_NAME.with(|c| *c.borrow_mut() = crate_name.clone());
    let ctypes: Vec<String> = tcx.crate_types().iter().map(|c| format!("{:?}", c)).collect();
    let ctype = if ctypes.iter().any(|c| c == "Executable") { "bin" } else { "lib" };
    let mut cx = Cx { tcx, consts_to_eval: BTreeMap::new() };
    let mut root = J::obj();
    root.set("crate", J::s(&crate_name));
    root.set("crate_type", J::s(ctype));
    root.set("is_test", J::Bool(tcx.sess.is_test_crate()));
    root.set(
        "overflow_checks",
        J::Bool(tcx.sess.overflow_checks()),
    );

    // bodies.  Order matters: building the MIR of X type-checks X, and type-checking a caller of a local
    // `async fn` / `-> impl Trait` function Y needs Y's hidden return type, which is computed by borrow-checking
    // Y -- and that *steals* Y's `mir_built`.  So bodies are visited callees-first (DFS post-order over the
    // path-resolved references between type-check roots); whatever is stolen nevertheless is reported in `stolen`
    // and makes every check fail closed.
    let mut bodies = Vec::new();
    let mut stolen = Vec::new();
    let owners: Vec<LocalDefId> = tcx.hir_body_owners().collect();
    for owner in visit_order(tcx, &owners) {
        let did = owner.to_def_id();
        let dk = tcx.def_kind(did);
        // Anonymous/inline consts are evaluated by type checking of their parents; skip.
        if matches!(dk, DefKind::AnonConst | DefKind::InlineConst) {
            continue;
        }
        let steal = tcx.mir_built(owner);
        if steal.is_stolen() {
            stolen.push(J::s(&defstr(tcx, did)));
            continue;
        }
        let body = steal.borrow();
        bodies.push(cx.body_json(owner, &body));
    }
    root.set("bodies", J::Arr(bodies));
    root.set("stolen", J::Arr(stolen));
    {
        let ev = tcx.effective_visibilities(());
        let mut unreach = Vec::new();
        for owner in owners.iter() {
            let did = owner.to_def_id();
            if matches!(tcx.def_kind(did), DefKind::Fn | DefKind::AssocFn)
                && tcx.visibility(did).is_public()
                && !ev.is_reachable(*owner)
            {
                unreach.push(J::s(&defstr(tcx, did)));
            }
        }
        root.set("pub_unreachable", J::Arr(unreach));
    }

    // items: ADTs, impls, statics, traits
    let mut adts = Vec::new();
    let mut impls = Vec::new();
    let mut statics = Vec::new();
    let mut consts = Vec::new();
    let mut traits = Vec::new();
    for ld in tcx.hir_crate_items(()).definitions() {
        let did = ld.to_def_id();
        match tcx.def_kind(did) {
            DefKind::Struct | DefKind::Enum | DefKind::Union => {
                let adt = tcx.adt_def(did);
                let mut a = J::obj();
                a.set("def", J::s(&defstr(tcx, did)));
                a.set("kind", J::s(&format!("{:?}", tcx.def_kind(did))));
                a.set("vis", J::s(&format!("{:?}", tcx.visibility(did))));
                a.set("span", span_json(tcx, tcx.def_span(did)));
                let mut vs = Vec::new();
                for v in adt.variants().iter() {
                    let mut vj = J::obj();
                    vj.set("name", J::s(&v.name.to_string()));
                    let mut fs = Vec::new();
                    for f in v.fields.iter() {
                        let mut fj = J::obj();
                        fj.set("name", J::s(&f.name.to_string()));
                        let fty = tcx.type_of(f.did).instantiate_identity().skip_norm_wip();
                        fj.set("ty", J::s(&tystr(fty)));
                        fj.set("vis", J::s(&format!("{:?}", f.vis)));
                        fs.push(fj);
                    }
                    vj.set("fields", J::Arr(fs));
                    vs.push(vj);
                }
                a.set("variants", J::Arr(vs));
                adts.push(a);
            }
            DefKind::Impl { of_trait } => {
                let mut i = J::obj();
                i.set("def", J::s(&defstr(tcx, did)));
                let st = tcx.type_of(did).instantiate_identity().skip_norm_wip();
                i.set("self_ty", J::s(&tystr(st)));
                if of_trait {
                    let tr = tcx.impl_trait_ref(did).instantiate_identity().skip_norm_wip();
                    i.set("trait", J::s(&defstr(tcx, tr.def_id)));
                    i.set("trait_ref", J::s(&canon(with_no_trimmed_paths!(with_no_visible_paths!(with_crate_prefix!(format!("{}", tr)))))));
                }
                let mut items = Vec::new();
                for it in tcx.associated_items(did).in_definition_order() {
                    let mut ij = J::obj();
                    ij.set("name", J::s(&it.name().to_string()));
                    ij.set("def", J::s(&defstr(tcx, it.def_id)));
                    ij.set("kind", J::s(&format!("{:?}", tcx.def_kind(it.def_id))));
                    if let Some(tid) = it.trait_item_def_id() {
                        ij.set("trait_item", J::s(&defstr(tcx, tid)));
                    }
                    items.push(ij);
                }
                i.set("items", J::Arr(items));
                i.set("span", span_json(tcx, tcx.def_span(did)));
                impls.push(i);
            }
            DefKind::Static { .. } => {
                let mut s = J::obj();
                s.set("def", J::s(&defstr(tcx, did)));
                let st = tcx.type_of(did).instantiate_identity().skip_norm_wip();
                s.set("ty", J::s(&tystr(st)));
                s.set("mutable", J::Bool(tcx.is_mutable_static(did)));
                s.set("span", span_json(tcx, tcx.def_span(did)));
                statics.push(s);
            }
            DefKind::Const { .. } => {
                let p = defstr(tcx, did);
                cx.consts_to_eval.insert(p, did);
            }
            DefKind::Trait => {
                let mut t = J::obj();
                t.set("def", J::s(&defstr(tcx, did)));
                let mut items = Vec::new();
                for it in tcx.associated_items(did).in_definition_order() {
                    let mut ij = J::obj();
                    ij.set("name", J::s(&it.name().to_string()));
                    ij.set("def", J::s(&defstr(tcx, it.def_id)));
                    ij.set("has_default", J::Bool(it.defaultness(tcx).has_value()));
                    items.push(ij);
                }
                t.set("items", J::Arr(items));
                traits.push(t);
            }
            _ => {}
        }
    }
    root.set("adts", J::Arr(adts));
    root.set("impls", J::Arr(impls));
    root.set("statics", J::Arr(statics));
    root.set("traits", J::Arr(traits));

    // pass 2: evaluate named constants (after every body was read: evaluation may steal MIR)
    let todo: Vec<(String, DefId)> = cx.consts_to_eval.iter().map(|(k, v)| (k.clone(), *v)).collect();
    for (p, did) in todo {
        let mut c = J::obj();
        c.set("def", J::s(&p));
        let ty = tcx.type_of(did).instantiate_identity().skip_norm_wip();
        c.set("ty", J::s(&tystr(ty)));
        c.set("krate", J::s(&tcx.crate_name(did.krate).to_string()));
        if !tcx.generics_of(did).requires_monomorphization(tcx) {
            if let Ok(v) = tcx.const_eval_poly(did) {
                cx.value_json(&mut c, v, ty);
            }
        }
        consts.push(c);
    }
    root.set("consts", J::Arr(consts));

    let path = format!("{}/{}-{}.json", dir, crate_name, ctype);
    let mut out = String::with_capacity(1 << 22);
    root.write(&mut out);
    out.push('\n');
    let tmp = format!("{}.tmp.{}", path, std::process::id());
    std::fs::write(&tmp, out).expect("tcss-facts: cannot write fact file");
    std::fs::rename(&tmp, &path).expect("tcss-facts: cannot rename fact file");
}
