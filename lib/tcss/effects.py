"""A8: effect summaries of the storage back ends in a common vocabulary of logical state.

Logical fields:  client.exists  client.latest  snapshot.version_id  snapshot.timestamp
                 snapshot.versions_since  snapshot.data  version[id]  child[parent]
"""
from . import prov as P
from . import sqlmodel as SM
from . import world as WD

HM = "std::collections::hash::map::HashMap::<K, V, S, A>::"
MAP_READ = {"get", "contains_key", "len", "is_empty", "iter", "keys", "values", "get_key_value"}
MAP_WRITE = {"insert", "remove", "clear", "retain", "drain", "get_mut", "entry", "values_mut", "iter_mut",
             "remove_entry", "extend", "try_insert", "get_many_mut", "get_disjoint_mut", "shrink_to_fit", "reserve"}

# map identification by key/value type (not by field name)
MAP_TYPES = {
    "clients": ("uuid::Uuid", "storage::Client"),
    "snapshots": ("uuid::Uuid", "alloc::vec::Vec<u8>"),
    "versions": ("(uuid::Uuid, uuid::Uuid)", "storage::Version"),
    "children": ("(uuid::Uuid, uuid::Uuid)", "uuid::Uuid"),
}


def logical_map_of_type(ty):
    """HashMap<K, V> type string -> logical map name, by key/value type."""
    if not ty.startswith("std::collections::hash::map::HashMap<"):
        return None
    for name, (k, v) in MAP_TYPES.items():
        if ty.startswith("std::collections::hash::map::HashMap<%s, " % k) and (", " + WD.CORE + "::" + v in ty or ", " + v in ty):
            # value type must follow the key type directly
            rest = ty[len("std::collections::hash::map::HashMap<%s, " % k):]
            if rest.startswith(v) or rest.startswith(WD.CORE + "::" + v):
                return name
    return None


class MapOp:
    def __init__(self, body, bb, method, logical, field, key, value, term):
        self.body, self.bb, self.method, self.logical, self.field = body, bb, method, logical, field
        self.key, self.value, self.term = key, value, term
        self.write = method in MAP_WRITE
        self.known = method in MAP_WRITE or method in MAP_READ


class Store:
    def __init__(self, body, site, target, value, line):
        self.body, self.site, self.target, self.value, self.line = body, site, target, value, line


def inner_fields(W):
    """{field name: (type, logical map)} of the in-memory `Inner` struct."""
    adt = W.prog.adt("inmemory::Inner")
    if adt is None:
        raise WD.Anchor("struct inmemory::Inner not found")
    out = {}
    for f in adt["variants"][0]["fields"]:
        out[f["name"]] = (f["ty"], logical_map_of_type(f["ty"]))
    return out


def inmem_summary(W, body):
    """(map ops, stores) of one InnerTxn method body."""
    pv = W.prov(body)
    fields = inner_fields(W)
    ops = []
    for bb, t in body.calls():
        d = t["callee"].get("def", "")
        if not d.startswith(HM):
            continue
        method = d[len(HM):]
        args = pv.arg_terms(bb)
        recv = args[0]
        fname = recv[2] if recv[0] == "field" else None
        logical = fields.get(fname, (None, None))[1] if fname else None
        ops.append(MapOp(body, bb, method, logical, fname, args[1] if len(args) > 1 else None,
                         args[2] if len(args) > 2 else None, pv.def_term((bb, "T"))))
    stores = []
    for site, place, node in pv.stores:
        base = pv.local_term(place["l"])
        target = pv.apply_proj(base, place["proj"])
        if node.get("k") == "assign":
            value = pv.rvalue_term(node["rv"])
            line = node["span"]["line"]
        else:
            value = ("unknown", "call result stored through pointer")
            line = node["span"]["line"]
        stores.append(Store(body, site, target, value, line))
    return ops, stores


def guard_root(t):
    """Strip field/ok/variant layers to the root a place term hangs off."""
    while True:
        if t[0] in ("field", "variant"):
            t = t[1]
        elif t[0] in ("ok", "err"):
            t = t[1]
        elif t[0] == "mut":
            t = t[3]
        else:
            return t


# ----------------------------------------------------------------------------- SQL side
COLUMN_LOGICAL = {
    ("clients", "client_id"): "client.exists",
    ("clients", "latest_version_id"): "client.latest",
    ("clients", "snapshot_version_id"): "snapshot.version_id",
    ("clients", "snapshot_timestamp"): "snapshot.timestamp",
    ("clients", "versions_since_snapshot"): "snapshot.versions_since",
    ("clients", "snapshot"): "snapshot.data",
    ("versions", "version_id"): "version.id",
    ("versions", "client_id"): "version.client",
    ("versions", "parent_version_id"): "version.parent",
    ("versions", "history_segment"): "version.payload",
}


class Instance:
    """One SQL statement as executed on behalf of one storage method (helper functions are expanded
    per caller so that parameters are expressed in the trait method's own parameters)."""

    def __init__(self, owner, site, stmt, params, rows, via=None):
        self.owner = owner      # body of the trait method / constructor the statement belongs to
        self.site = site
        self.stmt = stmt
        self.params = params    # terms in the owner's context (or None)
        self.rows = rows
        self.via = via

    def param(self, k):
        if self.params is None or k < 1 or k > len(self.params):
            return None
        return self.params[k - 1]

    def where(self):
        return self.site.where()


def subst_params(t, mapping):
    if not isinstance(t, tuple) or not t:
        return t
    h = t[0]
    if h == "param":
        return mapping.get(t[1], t)
    if h in ("ok", "err"):
        return (h, subst_params(t[1], mapping))
    if h in ("field", "variant"):
        inner = subst_params(t[1], mapping)
        if h == "field":
            return P.mk_field(inner, t[2])
        return P.mk_variant(inner, t[2], "core::option::Option" if len(t) == 4 else None)
    if h == "call":
        return (h, t[1], t[2], tuple(subst_params(a, mapping) for a in t[3]))
    if h == "agg":
        return (h, t[1], tuple((n, subst_params(v, mapping)) for n, v in t[2]))
    if h == "binop":
        return (h, t[1], subst_params(t[2], mapping), subst_params(t[3], mapping))
    if h == "unop":
        return (h, t[1], subst_params(t[2], mapping))
    if h == "cast":
        return (h, subst_params(t[1], mapping), t[2], t[3])
    if h == "mut":
        return (h, t[1], t[2], subst_params(t[3], mapping))
    return t


def sql_instances(W, sites):
    out = []
    for s in sites:
        b = s.body
        is_method = b.j.get("impl_trait") in (WD.STORAGE_TXN, WD.STORAGE) or b.deff.endswith("SqliteStorage::new")
        sql_is_param = s.sql_term[0] == "param"
        if is_method or not sql_is_param:
            for st in s.stmts:
                out.append(Instance(b, s, st, s.params, s.rows))
            continue
        # helper taking the SQL text as a parameter: one instance per caller
        pidx = s.sql_term[1] - 1
        for cb in W.prog.bodies.values():
            for bb, t in cb.calls():
                if b.key not in W.resolve_callee(cb, t):
                    continue
                args = W.prov(cb).arg_terms(bb)
                texts = SM.resolve_strs(W, cb, args[pidx]) if pidx < len(args) else None
                mapping = {i + 1: a for i, a in enumerate(args)}
                params = [subst_params(p, mapping) for p in s.params] if s.params is not None else None
                if texts is None:
                    out.append(Instance(cb, s, None, params, s.rows, via=b))
                    continue
                for txt in texts:
                    try:
                        st = SM.SQL.parse(txt)
                    except SM.SQL.SqlError:
                        st = None
                    out.append(Instance(cb, s, st, params, s.rows, via=b))
    return out
