"""Role-based canonicalisation of the extracted facts.

The rules name a handful of *private* items of the repository (helper functions, private structs and their
fields).  A rename of such an item changes no behaviour, so the rules must not depend on the spelling.  Before
analysis the facts are therefore rewritten: every private item is identified by its ROLE (the trait it implements,
the type of a field, who calls it with what) and renamed to the canonical spelling the rules use.  Items that
cannot be identified keep their names (the rules then fail closed on a lost anchor, as before).
"""
import json
import re

from . import facts as F
from . import world as WD

CORE, SQLITE, SERVER = WD.CORE, WD.SQLITE, WD.SERVER


def strip_generics(ty):
    return re.sub(r"<.*>$", "", ty)


def _impl(raw, trait, unit_prefix):
    out = []
    for fname, d in raw.items():
        if not (d["crate"] + "-" + d["crate_type"]).startswith(unit_prefix):
            continue
        for i in d["impls"]:
            if i.get("trait") == trait:
                out.append(i)
    return out


def _adt(raw, path):
    for d in raw.values():
        for a in d["adts"]:
            if a["def"] == path:
                return a
    return None


def discover(raw):
    """Return (type_renames {actual path: canonical path}, field_renames {(adt canonical path, actual): canonical},
    fn_renames {actual def: canonical def}, notes)."""
    types, fields, fns, notes = {}, {}, {}, []

    def want_type(actual, canonical, why):
        if actual and actual != canonical:
            types[actual] = canonical
            notes.append("type %s is %s (%s)" % (actual, canonical, why))

    # 1. storage transaction types (by trait impl)
    si = _impl(raw, WD.STORAGE_TXN, SQLITE)
    sq_txn = strip_generics(si[0]["self_ty"]) if len(si) == 1 else None
    want_type(sq_txn, SQLITE + "::Txn", "the sqlite impl of StorageTxn")
    mi = _impl(raw, WD.STORAGE_TXN, CORE)
    mem_txn = strip_generics(mi[0]["self_ty"]) if len(mi) == 1 else None
    want_type(mem_txn, CORE + "::inmemory::InnerTxn", "the in-memory impl of StorageTxn")
    su = [i for i in _impl(raw, "rusqlite::types::to_sql::ToSql", SQLITE)]
    su_ty = strip_generics(su[0]["self_ty"]) if len(su) == 1 else None
    want_type(su_ty, SQLITE + "::StoredUuid", "the sqlite-side newtype implementing ToSql")
    # the state behind InMemoryStorage's mutex
    ims = _adt(raw, CORE + "::inmemory::InMemoryStorage")
    inner = None
    if ims and len(ims["variants"][0]["fields"]) == 1:
        mm = re.match(r"std::sync::poison::mutex::Mutex<(.*)>$", ims["variants"][0]["fields"][0]["ty"])
        if mm:
            inner = mm.group(1)
            want_type(inner, CORE + "::inmemory::Inner", "the state behind InMemoryStorage's mutex")

    # 2. private fields by type
    def field_roles(adt_path, canonical_adt, roles):
        a = _adt(raw, adt_path)
        if a is None:
            return
        fs = a["variants"][0]["fields"]
        for canon_name, pred in roles.items():
            hits = [f for f in fs if pred(f["ty"])]
            if len(hits) == 1 and hits[0]["name"] != canon_name:
                fields[(canonical_adt, hits[0]["name"])] = canon_name
                notes.append("field %s.%s is %s (by type %s)" % (adt_path, hits[0]["name"], canon_name, hits[0]["ty"]))

    if sq_txn:
        field_roles(sq_txn, SQLITE + "::Txn", {"con": lambda t: t == "rusqlite::Connection", "client_id": lambda t: t == "uuid::Uuid"})
    if mem_txn:
        field_roles(mem_txn, CORE + "::inmemory::InnerTxn", {"client_id": lambda t: t == "uuid::Uuid",
                                                           "guard": lambda t: t.startswith("std::sync::poison::mutex::MutexGuard<")})
    field_roles(SQLITE + "::SqliteStorage", SQLITE + "::SqliteStorage", {"db_file": lambda t: t == "std::path::PathBuf"})
    field_roles(CORE + "::server::Server", CORE + "::server::Server", {
        "config": lambda t: t.endswith("::ServerConfig"), "storage": lambda t: t.startswith("alloc::boxed::Box<") and "dyn " in t and "::Storage" in t})
    field_roles(SERVER + "::api::ServerState", SERVER + "::api::ServerState", {
        "server": lambda t: t.endswith("::server::Server"), "client_id_allowlist": lambda t: t.startswith("core::option::Option<std::collections::hash::set::HashSet<uuid::Uuid")})
    field_roles(SERVER + "::WebServer", SERVER + "::WebServer", {"server_state": lambda t: t.startswith("alloc::sync::Arc<") and "ServerState" in t})
    field_roles(SERVER + "::ServerArgs", SERVER + "::ServerArgs", {
        "data_dir": lambda t: t == "std::ffi::os_str::OsString", "snapshot_versions": lambda t: t == "u32", "snapshot_days": lambda t: t == "i64",
        "client_id_allowlist": lambda t: t.startswith("core::option::Option<std::collections::hash::set::HashSet<uuid::Uuid"),
        "listen_addresses": lambda t: t.startswith("alloc::vec::Vec<alloc::string::String")})
    if inner:
        from . import effects as E
        a = _adt(raw, inner)
        if a:
            for f in a["variants"][0]["fields"]:
                lg = E.logical_map_of_type(f["ty"])
                if lg and f["name"] != lg:
                    fields[(CORE + "::inmemory::Inner", f["name"])] = lg
                    notes.append("field %s.%s is the %s map (by key/value type)" % (inner, f["name"], lg))

    # 3. private functions by role (signature / caller)
    def bodies():
        for d in raw.values():
            unit = d["crate"] + "-" + d["crate_type"]
            for b in d["bodies"]:
                yield unit, b

    def sig(b):
        args = [b["locals"][i]["ty"] for i in range(1, b["arg_count"] + 1)]
        return args, b["locals"][0]["ty"]

    mappers, failures, conns, scopes = [], [], [], []
    for unit, b in bodies():
        if b["kind"] not in ("Fn", "AssocFn"):
            continue
        args, ret = sig(b)
        if unit == SERVER + "-lib" and ret == "actix_web::error::error::Error" and len(args) == 1:
            if args[0].endswith("::ServerError"):
                mappers.append(b["def"])
            elif args[0] == "anyhow::Error":
                failures.append(b["def"])
        if unit == SQLITE + "-lib" and ret.startswith("core::result::Result<rusqlite::Connection") and len(args) == 1:
            conns.append(b["def"])
        if unit == SERVER + "-lib" and ret.startswith("actix_web::scope::Scope") and not args:
            scopes.append(b["def"])

    def want_fn(cands, canonical, why):
        if len(cands) == 1 and cands[0] != canonical:
            fns[cands[0]] = canonical
            notes.append("fn %s is %s (%s)" % (cands[0], canonical, why))

    want_fn(mappers, SERVER + "::api::server_error_to_actix", "the only fn ServerError -> actix Error")
    want_fn(failures, SERVER + "::api::failure_to_ise", "the only fn anyhow::Error -> actix Error")
    want_fn(conns, SQLITE + "::SqliteStorage::new_connection", "the only fn returning Result<rusqlite::Connection>")
    want_fn(scopes, SERVER + "::api::api_scope", "the only fn returning an actix Scope")
    # the error-handler middleware callback of the binary: the only fn returning an ErrorHandlerResponse
    eh = []
    for unit, b in bodies():
        if unit == SERVER + "-bin" and b["kind"] == "Fn":
            args, ret = sig(b)
            if "ErrorHandlerResponse<" in ret and len(args) == 1:
                eh.append(b["def"])
    want_fn(eh, SERVER + "::print_error", "the only fn (ServiceResponse) -> Result<ErrorHandlerResponse>")
    # the two urgency classifiers: the core fns (config, measure) -> SnapshotUrgency, told apart by the measure's type
    fd, fv = [], []
    for unit, b in bodies():
        if unit != CORE + "-lib" or b["kind"] != "AssocFn" or "impl_trait" in b:
            continue
        args, ret = sig(b)
        # (the target is read from &ServerConfig, or passed as a scalar of the measure's own type)
        if ret.endswith("::SnapshotUrgency") and len(args) == 2 and (args[0].endswith("ServerConfig") or args[0] == args[1]):
            if args[1] == "i64":
                fd.append(b["def"])
            elif args[1] == "u32":
                fv.append(b["def"])
    want_fn(fd, CORE + "::server::SnapshotUrgency::for_days", "the only fn (&ServerConfig | i64, i64) -> SnapshotUrgency")
    want_fn(fv, CORE + "::server::SnapshotUrgency::for_versions_since", "the only fn (&ServerConfig | u32, u32) -> SnapshotUrgency")
    # the client-id helper: the workspace fn every handler calls with (state, &req) and whose Ok value is a Uuid
    cid = []
    for unit, b in bodies():
        if unit != SERVER + "-lib" or b["kind"] not in ("Fn", "AssocFn"):
            continue
        args, ret = sig(b)
        if ret.startswith("core::result::Result<uuid::Uuid, actix_web::error::error::Error") and any("HttpRequest" in a or "HeaderMap" in a for a in args):
            cid.append(b["def"])
    want_fn(cid, WD.CLIENT_ID_HEADER_FN, "the only fn (.., &HttpRequest | &HeaderMap) -> Result<Uuid, actix Error>")
    # the query helper of the sqlite transaction: inherent method on the txn type taking the SQL text
    qh = []
    for unit, b in bodies():
        if unit == SQLITE + "-lib" and b["kind"] == "AssocFn" and "impl_trait" not in b:
            args, ret = sig(b)
            if any(a == "&'static str" or a == "&str" for a in args) and "Version" in ret:
                qh.append(b["def"])
    want_fn(qh, SQLITE + "::Txn::get_version_impl", "the inherent sqlite helper taking the SQL text and returning a Version")
    # route handlers registered from a table (`web::resource(path).guard(..).to(service)`) instead of by the #[get]/#[post]
    # attribute macros: the handler is the plain `async fn api::<module>::service`; it is given the name the macro's expansion
    # gives it (the macro wraps the very same function), so that the per-handler rules find it
    have = set(b["def"] for _u, b in bodies())
    for mod_ in WD.HANDLER_MODULES:
        plain = "%s::api::%s::service" % (SERVER, mod_)
        macro = "<%s as actix_web::service::HttpServiceFactory>::register::service" % plain
        if macro not in have and plain in have and (plain + "::{closure#0}") in have:
            fns[plain] = macro
            notes.append("fn %s is the route handler %s (registered from a route table, not by the route macro)" % (plain, macro))
    return types, fields, fns, notes


def _replace_paths(text, mapping):
    """Replace whole def-path occurrences (longest first) inside the JSON text."""
    for old in sorted(mapping, key=len, reverse=True):
        new = mapping[old]
        text = re.sub(re.escape(old) + r"(?![A-Za-z0-9_])", lambda _m: new, text)
    return text


ITEMS_FILE = __import__("os").path.join(__import__("os").path.dirname(__import__("os").path.dirname(__import__("os").path.dirname(
    __import__("os").path.abspath(__file__)))), "baseline", "items-a6bc6ede.json")


def relocate(raw):
    """Module moves: an item of the pinned tree (type, function, constant) that no longer exists under its path, while
    exactly one NEW item of the same kind and crate carries the same name (longest needed path suffix), has been moved to
    another module; it is renamed back to the path the rules use.  Types first (method paths follow their type)."""
    try:
        base = json.load(open(ITEMS_FILE))
    except OSError:
        return raw, []
    notes = []

    def current(kind):
        out = set()
        for d in raw.values():
            if kind == "adts":
                out |= set(a["def"] for a in d["adts"])
            elif kind == "fns":
                out |= set(b["def"] for b in d["bodies"] if b["kind"] in ("Fn", "AssocFn"))
            elif kind == "consts":
                out |= set(c["def"] for c in d["consts"])
        return out

    def match(kind, mapping_so_far):
        cur = current(kind)
        # paths as they will read after the renames decided so far
        def fix(p):
            for old in sorted(mapping_so_far, key=len, reverse=True):
                p = re.sub(re.escape(old) + r"(?![A-Za-z0-9_])", lambda _m: mapping_so_far[old], p)
            return p
        cur_fixed = {fix(p): p for p in cur}
        b = set(base.get(kind, []))
        missing = sorted(b - set(cur_fixed))
        fresh = sorted(p for p in cur_fixed if p not in b and not p.startswith("<"))
        out = {}
        for P_ in missing:
            if P_.startswith("<"):
                continue
            segs = P_.split("::")
            for k in range(1, len(segs)):
                tail = "::" + "::".join(segs[-k:])
                cands = [c for c in fresh if c.split("::")[0] == segs[0] and c.endswith(tail) and c not in out.values()]
                rivals = [m_ for m_ in missing if m_ != P_ and m_.split("::")[0] == segs[0] and m_.endswith(tail)]
                if len(cands) == 1 and not rivals:
                    out[cur_fixed[cands[0]] if cur_fixed[cands[0]] == cands[0] else cands[0]] = P_
                    notes.append("%s %s is %s (moved to another module)" % (kind[:-1], cands[0], P_))
                    break
                if not cands:
                    break
        return out

    mapping = {}
    mapping.update(match("adts", mapping))
    mapping.update(match("fns", mapping))
    mapping.update(match("consts", mapping))
    if not mapping:
        return raw, notes
    out = {}
    for fname, d in raw.items():
        out[fname] = json.loads(_replace_paths(json.dumps(d), mapping))
    return out, notes


def canonicalize(raw):
    """Returns (facts with canonical names, notes)."""
    raw, move_notes = relocate(raw)
    types, fields, fns, notes = discover(raw)
    notes = move_notes + notes
    if not (types or fields or fns):
        return raw, notes
    out = {}
    # function renames must also move nested items (closures, inner fns): handled by the path-prefix regex
    mapping = dict(types)
    mapping.update(fns)
    for fname, d in raw.items():
        text = json.dumps(d)
        text = _replace_paths(text, mapping)
        d2 = json.loads(text)
        _rename_fields(d2, fields)
        # a struct's single variant carries the struct's own name
        renamed = {new: (old.rsplit("::", 1)[-1], new.rsplit("::", 1)[-1]) for old, new in types.items()}
        _rename_struct_variants(d2, renamed)
        out[fname] = d2
    return out, notes


def _rename_fields(node, fields):
    if isinstance(node, dict):
        adt = node.get("adt")
        if adt is not None:
            if node.get("k") == "field" and (adt, node.get("name")) in fields:
                node["name"] = fields[(adt, node["name"])]
            if node.get("k") == "aggregate" and isinstance(node.get("fields"), list):
                node["fields"] = [fields.get((adt, f), f) for f in node["fields"]]
        if "variants" in node and "def" in node and isinstance(node.get("variants"), list):
            for v in node["variants"]:
                for f in v.get("fields", []) if isinstance(v, dict) else []:
                    if isinstance(f, dict) and (node["def"], f.get("name")) in fields:
                        f["name"] = fields[(node["def"], f["name"])]
        if "name" in node and "p" in node and isinstance(node["p"], dict):
            pass
        for v in node.values():
            _rename_fields(v, fields)
    elif isinstance(node, list):
        for v in node:
            _rename_fields(v, fields)


def _rename_struct_variants(node, renamed):
    if isinstance(node, dict):
        adt = node.get("adt")
        if adt in renamed and node.get("variant") == renamed[adt][0]:
            node["variant"] = renamed[adt][1]
        if node.get("def") in renamed and isinstance(node.get("variants"), list):
            for v in node["variants"]:
                if isinstance(v, dict) and v.get("name") == renamed[node["def"]][0]:
                    v["name"] = renamed[node["def"]][1]
        for v in node.values():
            _rename_struct_variants(v, renamed)
    elif isinstance(node, list):
        for v in node:
            _rename_struct_variants(v, renamed)
