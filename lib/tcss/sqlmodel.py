"""A5 (part 2): the SQL execution sites of the sqlite crate, with statement models, bound parameter
provenance and typed row reads."""
from . import prov as P
from . import sql as SQL
from . import world as WD

# rusqlite API classification (closed world: any other rusqlite callee in workspace code fails closed)
EXEC_API = {
    # callee -> (index of connection arg, index of SQL arg, index of params arg or None, index of row closure or None)
    "rusqlite::Connection::execute": (0, 1, 2, None),
    "rusqlite::Connection::query_row": (0, 1, 2, 3),
}
# would execute SQL through an API whose text/params the model does not follow -> reported
EXEC_UNMODELLED = {
    "rusqlite::Connection::execute_batch",
    "rusqlite::Connection::query_row_and_then", "rusqlite::Connection::pragma_update", "rusqlite::Connection::pragma_query",
    "rusqlite::Connection::pragma_query_value", "rusqlite::Connection::pragma", "rusqlite::Connection::pragma_update_and_check",
    "rusqlite::Connection::transaction", "rusqlite::Connection::unchecked_transaction", "rusqlite::Connection::savepoint",
    "rusqlite::Connection::transaction_with_behavior", "rusqlite::Connection::busy_timeout", "rusqlite::Connection::busy_handler",
    "rusqlite::Connection::open_with_flags", "rusqlite::Connection::open_in_memory", "rusqlite::Connection::open_with_flags_and_vfs",
    "rusqlite::Connection::set_db_config", "rusqlite::Connection::set_transaction_behavior",
}
UNMODELLED_NAMES = set(x.rsplit("::", 1)[-1] for x in EXEC_UNMODELLED)

# prepared statements: `con.prepare[_cached](sql)` then `stmt.query_row(params, f)` / `stmt.execute(params)` is the same
# statement as `con.query_row(sql, params, f)` / `con.execute(sql, params)` (rusqlite's Connection::query_row is exactly
# prepare + Statement::query_row); the text and the connection are taken from the prepare call behind the receiver
PREPARE_API = {"rusqlite::Connection::prepare", "rusqlite::cache::<impl rusqlite::Connection>::prepare_cached"}
STMT_API = {
    # callee -> (index of statement receiver, index of params arg, index of row closure or None)
    "rusqlite::statement::Statement::<'_>::query_row": (0, 1, 2),
    "rusqlite::statement::Statement::<'_>::execute": (0, 1, None),
}


def prepared_from(t):
    """(connection term, sql term) of the prepare call a statement receiver term comes from, else None."""
    n = 0
    while n < 10:
        n += 1
        if t[0] == "mut":
            t = t[3]
        elif t[0] == "ok":
            t = t[1]
        elif t[0] == "call" and t[1] in P.OK_PRESERVING and t[3]:
            t = t[3][0]
        elif t[0] == "phi" and len(t) == 4:
            hits = [pl for v, pl in t[3] if v in ("Ok",)]
            if len(hits) != 1:
                return None
            t = hits[0]
        elif t[0] == "call" and t[1] in PREPARE_API and len(t[3]) >= 2:
            return t[3][0], t[3][1]
        else:
            return None
    return None


HARMLESS_API = {
    "rusqlite::Connection::prepare": "compiles a statement; execution happens in the (modelled) Statement methods",
    "rusqlite::cache::<impl rusqlite::Connection>::prepare_cached": "compiles (or fetches from the per-connection cache) a statement; execution happens in the Statement methods",
    "rusqlite::Connection::open": "opens the database file with rusqlite's defaults (5000 ms busy timeout)",
    "rusqlite::row::Row::<'stmt>::get": "typed column read",
    "rusqlite::OptionalExtension::optional": "QueryReturnedNoRows -> None",
    "rusqlite::types::value_ref::ValueRef::<'a>::as_str": "text view of a column value",
}


class SqlSite:
    def __init__(self, body, bb, api):
        self.body = body
        self.bb = bb
        self.api = api
        self.conn = None
        self.sql_term = None
        self.texts = None        # list of SQL strings or None (dynamic)
        self.stmts = []          # parsed models
        self.errors = []
        self.params = None       # list of element terms or None
        self.param_types = None
        self.rows = []           # [(column key (int|str), rust type, bb in closure)]
        self.closure = None

    def where(self):
        return "%s:%d (%s)" % (self.body.file(), self.body.line_of_block(self.bb), self.body.deff)


def collection_elements(W, body, term):
    """Elements of a collection-valued term built from an array literal / vec![..]; None if not recognised."""
    pv = W.prov(body)
    t = term
    while True:
        if t[0] == "mut":
            t = t[3]
            continue
        if t[0] == "agg" and t[1] == "array":
            return [v for _, v in t[2]]
        if t[0] == "call" and t[1] in ("core::slice::<impl [T]>::iter", "core::slice::<impl [T]>::iter_mut", "core::array::<impl [T; N]>::iter",
                                       "core::iter::traits::iterator::Iterator::copied", "core::iter::traits::iterator::Iterator::cloned") and t[3]:
            t = t[3][0]       # iterating a borrowed array / vec yields its elements in order
            continue
        if t[0] == "call" and t[1] in ("alloc::boxed::box_assume_init_into_vec_unsafe", "alloc::slice::<impl [T]>::into_vec") and t[3]:
            inner = t[3][0]
            if inner[0] == "agg" and inner[1] == "array":
                return [v for _, v in inner[2]]
            # vec![..]: Box::new_uninit() + a store of the array literal through the box
            for site, place, node in pv.stores:
                if pv.local_term(place["l"]) == inner and node.get("k") == "assign":
                    rv = node["rv"]
                    if rv["k"] == "aggregate" and rv["ak"] == "array":
                        return [pv.operand_term(o) for o in rv["ops"]]
            return None
        return None


def resolve_strs(W, body, term, depth=0):
    """All string constants a &str-valued term may denote, or None when it is not statically known."""
    if depth > 4:
        return None
    h = term[0]
    if h == "const":
        return [term[2]] if isinstance(term[2], str) else None
    if h == "mut":
        return resolve_strs(W, body, term[3], depth)
    if h == "phi":
        pv = W.prov(body)
        out = []
        for site, t in pv.phi_alternatives(term[1]):
            r = resolve_strs(W, body, t, depth + 1)
            if r is None:
                return None
            out += r
        return out
    if h == "param":
        idx = term[1] - 1
        out = []
        callers = [(b, bb, t) for b in W.prog.bodies.values() for bb, t in b.calls()
                   if body.key in W.resolve_callee(b, t)]
        if not callers:
            return None
        for b, bb, t in callers:
            args = W.prov(b).arg_terms(bb)
            if idx >= len(args):
                return None
            r = resolve_strs(W, b, args[idx], depth + 1)
            if r is None:
                return None
            out += r
        return out
    if h == "call" and term[1] == "alloc::fmt::format" and len(term[3]) == 1:
        # format!("SELECT a, {COLS} FROM t") with constant string arguments only: the text is a compile-time constant.
        # The template is rustc's byte encoding: n (< 128) = a literal piece of n bytes, 0xC0 = the next argument with
        # default formatting, 0 = end.  Anything else (width / precision / positional arguments) is not decoded.
        a = term[3][0]
        if a[0] == "call" and a[1] == "core::fmt::Arguments::<'a>::new" and len(a[3]) == 2 and a[3][0][0] == "const" \
                and isinstance(a[3][0][2], tuple) and a[3][0][2][:1] == ("bytes",):
            tpl = list(a[3][0][2][1:])
            arr = a[3][1]
            while arr[0] == "mut":
                arr = arr[3]
            if arr[0] != "agg" or arr[1] != "array":
                return None
            args = []
            for _, e in arr[2]:
                if not (e[0] == "call" and e[1] == "core::fmt::rt::Argument::<'_>::new_display" and len(e[3]) == 1):
                    return None
                r = resolve_strs(W, body, e[3][0], depth + 1)
                if r is None or len(set(r)) != 1:
                    return None
                args.append(r[0])
            out, i, k = "", 0, 0
            while i < len(tpl):
                b_ = tpl[i]
                if b_ == 0:
                    return [out] if i == len(tpl) - 1 and k == len(args) else None
                if b_ == 192:
                    if k >= len(args):
                        return None
                    out += args[k]
                    k += 1
                    i += 1
                elif b_ < 128:
                    if i + 1 + b_ > len(tpl):
                        return None
                    try:
                        out += bytes(tpl[i + 1:i + 1 + b_]).decode("utf-8")
                    except UnicodeDecodeError:
                        return None
                    i += 1 + b_
                else:
                    return None
            return None
        return None
    if h == "ok" and term[1][0] == "call" and term[1][1] == "core::iter::traits::iterator::Iterator::next":
        it = term[1][3][0]
        # the iterator variable: follow its (single non-loop) definition
        pv = W.prov(body)
        if it[0] == "phi":
            alts = [t for _, t in pv.phi_alternatives(it[1])]
            if len(alts) != 1:
                return None
            it = alts[0]
        if it[0] == "mut":
            it = it[3]
        elems = collection_elements(W, body, it)
        if elems is None:
            return None
        out = []
        for e in elems:
            r = resolve_strs(W, body, e, depth + 1)
            if r is None:
                return None
            out += r
        return out
    return None


def unwrap_param(t):
    """Strip the unsize-cast / reference layers around one bound parameter; `Some(x)` binds x (rusqlite's ToSql for Option:
    Some(x) is x, None is NULL)."""
    while True:
        if t[0] in ("cast", "mut"):
            t = t[1] if t[0] == "cast" else t[3]
        elif t[0] == "agg" and isinstance(t[1], tuple) and t[1][0] == "adt" and t[1][1] == "core::option::Option" and t[1][2] == "Some" and len(t[2]) == 1:
            t = t[2][0][1]
        else:
            return t


def _const_index(t, depth=0):
    if depth > 8:
        return None
    if t[0] == "const" and isinstance(t[2], int) and not isinstance(t[2], bool):
        return t[2]
    if t[0] == "field" and t[2] == "0":
        return _const_index(t[1], depth + 1)
    if t[0] == "cast":
        return _const_index(t[1], depth + 1)
    if t[0] == "binop" and t[1].replace("WithOverflow", "").replace("Unchecked", "") in ("Add", "Sub", "Mul"):
        a, b = _const_index(t[2], depth + 1), _const_index(t[3], depth + 1)
        if a is None or b is None:
            return None
        op = t[1].replace("WithOverflow", "").replace("Unchecked", "")
        return a + b if op == "Add" else a - b if op == "Sub" else a * b
    return None


def sites(W):
    """Every rusqlite call in workspace code, classified. Returns (exec sites, unmodelled, unclassified)."""
    out, unmodelled, unclassified = [], [], []
    for b in W.prog.bodies.values():
        pv = None
        for bb, t in b.calls():
            c = t["callee"]
            d = c.get("def", "")
            if c.get("krate") != "rusqlite" and not d.startswith("rusqlite::"):
                continue
            if d in EXEC_API:
                pv = pv or W.prov(b)
                ci, si, pi, ri = EXEC_API[d]
                s = SqlSite(b, bb, d)
                args = pv.arg_terms(bb)
                s.conn = args[ci]
                s.sql_term = args[si]
                s.texts = resolve_strs(W, b, args[si])
                if s.texts is not None:
                    for txt in s.texts:
                        try:
                            s.stmts.append(SQL.parse(txt))
                        except SQL.SqlError as e:
                            s.errors.append("%s" % e)
                if pi is not None:
                    pt = unwrap_param(args[pi])
                    if pt[0] == "agg" and pt[1] in ("array", "tuple"):
                        # params![a, b] / [a, b] / (a, b): positional parameters in order
                        s.params = [unwrap_param(v) for _, v in pt[2]]
                        # named_params!{":a": x, ..} = &[(":a", &x as &dyn ToSql), ..]: bound by name
                        elems = [unwrap_param(v) for _, v in pt[2]]
                        if pt[1] == "array" and elems and all(e[0] == "agg" and e[1] == "tuple" and len(e[2]) == 2 and e[2][0][1][0] == "const"
                                                              and isinstance(e[2][0][1][2], str) and e[2][0][1][2][:1] in ":@$" for e in elems):
                            named = {e[2][0][1][2]: unwrap_param(e[2][1][1]) for e in elems}
                            names = [st.get("param_names") for st in s.stmts]
                            s.params = None
                            if names and all(n == names[0] for n in names) and names[0] and set(names[0]) == set(named) and len(named) == len(elems):
                                s.params = [named[n] for n, _k in sorted(names[0].items(), key=lambda kv: kv[1])]
                if ri is not None and len(args) > ri:
                    ct = args[ri]
                    if ct[0] == "agg" and isinstance(ct[1], tuple) and ct[1][0] == "closure":
                        s.closure = W.prog.body(ct[1][1])
                    elif ct[0] == "fn":
                        s.closure = W.prog.body(ct[1])       # a named row-mapping function instead of a closure
                    if s.closure is not None:
                        s.rows = row_reads(W, s.closure)
                out.append(s)
            elif d in STMT_API:
                pv = pv or W.prov(b)
                si_, pi, ri = STMT_API[d]
                args = pv.arg_terms(bb)
                src = prepared_from(args[si_])
                if src is None:
                    unmodelled.append((b, bb, d))
                    continue
                s = SqlSite(b, bb, d)
                s.conn, s.sql_term = src
                s.texts = resolve_strs(W, b, s.sql_term)
                if s.texts is not None:
                    for txt in s.texts:
                        try:
                            s.stmts.append(SQL.parse(txt))
                        except SQL.SqlError as e:
                            s.errors.append("%s" % e)
                pt = unwrap_param(args[pi])
                if pt[0] == "agg" and pt[1] in ("array", "tuple"):
                    s.params = [unwrap_param(v) for _, v in pt[2]]
                if ri is not None and len(args) > ri:
                    ct = args[ri]
                    if ct[0] == "agg" and isinstance(ct[1], tuple) and ct[1][0] == "closure":
                        s.closure = W.prog.body(ct[1][1])
                    elif ct[0] == "fn":
                        s.closure = W.prog.body(ct[1])
                    if s.closure is not None:
                        s.rows = row_reads(W, s.closure)
                out.append(s)
            elif d.rsplit("::", 1)[-1] in ("pragma_update", "pragma_update_and_check"):
                # con.pragma_update(schema, "name", value) == PRAGMA name=value : modelled as that statement
                pv = pv or W.prov(b)
                args = pv.arg_terms(bb)
                s = SqlSite(b, bb, d)
                s.conn = args[0]
                s.sql_term = args[2] if len(args) > 2 else ("unknown", "pragma name")
                name = args[2][2] if len(args) > 2 and args[2][0] == "const" and isinstance(args[2][2], str) else None
                val = None
                if len(args) > 3:
                    v = unwrap_param(args[3])
                    if v[0] == "const" and v[2] is not None:
                        val = str(v[2])
                if name is not None and val is not None:
                    s.texts = ["PRAGMA %s=%s" % (name, val)]
                    try:
                        s.stmts.append(SQL.parse(s.texts[0]))
                    except SQL.SqlError as e:
                        s.errors.append("%s" % e)
                s.params = []
                out.append(s)
            elif d in EXEC_UNMODELLED or d.rsplit("::", 1)[-1] in UNMODELLED_NAMES:
                unmodelled.append((b, bb, d))
            elif d in HARMLESS_API:
                pass
            else:
                unclassified.append((b, bb, d))
    return out, unmodelled, unclassified


def row_reads(W, closure):
    """[(column key, rust type, bb, term)] for each Row::get in the row-mapping closure."""
    out = []
    pv = W.prov(closure)
    for bb, t in closure.calls():
        if t["callee"].get("def") == "rusqlite::row::Row::<'stmt>::get":
            args = pv.arg_terms(bb)
            key = args[1][2] if args[1][0] == "const" else None
            if key is None and P.const_only(args[1]):
                key = _const_index(args[1])        # `r.get(first + 1)` with a constant `first` (a shared positional reader)
            targs = t["callee"].get("targs", [])
            ty = targs[-1] if targs else None
            out.append((key, ty, bb, pv.def_term((bb, "T"))))
    return out


def all_sql_like_constants(W, unit_prefix):
    """Every string constant in the bodies of a crate that looks like SQL: [(body, text)]."""
    out = []
    for b in W.prog.bodies.values():
        if not b.unit.startswith(unit_prefix):
            continue
        seen = set()

        def visit(o):
            if o.get("k") == "const" and isinstance(o.get("val"), str) and SQL.looks_like_sql(o["val"]):
                if o["val"] not in seen:
                    seen.add(o["val"])
                    out.append((b, o["val"]))

        for blk in b.blocks:
            if blk["cleanup"]:
                continue
            for s in blk["stmts"]:
                if s["k"] != "assign":
                    continue
                rv = s["rv"]
                for k in ("op", "a", "b"):
                    if isinstance(rv.get(k), dict):
                        visit(rv[k])
                for o in rv.get("ops", []):
                    visit(o)
            if blk["term"]["k"] == "call":
                for a in blk["term"]["args"]:
                    visit(a)
    return out


def schema(sites_):
    """{table: {col: coldef}} from the CREATE TABLE statements, plus indexes."""
    tables, indexes = {}, []
    for s in sites_:
        for st in s.stmts:
            if st["verb"] == "CREATE TABLE":
                tables[st["table"]] = {c["name"]: c for c in st["ddl"]["columns"]}
            elif st["verb"] == "CREATE INDEX":
                indexes.append((st["table"], st["ddl"]["index"], tuple(st["ddl"]["columns"])))
    return tables, indexes
