"""A2: CFG helpers on a Body — reachable blocks, dominators, post-dominators, loops."""


def reachable(body, start=0):
    seen = set()
    st = [start]
    while st:
        b = st.pop()
        if b in seen or body.is_cleanup(b):
            continue
        seen.add(b)
        for s in body.succs(b):
            st.append(s)
    return seen


def preds(body, blocks=None):
    blocks = blocks if blocks is not None else reachable(body)
    p = {b: [] for b in blocks}
    for b in blocks:
        for s in body.succs(b):
            if s in p:
                p[s].append(b)
    return p


def rpo(body, start=0):
    seen = set()
    order = []

    def dfs(b):
        stack = [(b, iter(body.succs(b)))]
        seen.add(b)
        while stack:
            n, it = stack[-1]
            adv = False
            for s in it:
                if s not in seen and not body.is_cleanup(s):
                    seen.add(s)
                    stack.append((s, iter(body.succs(s))))
                    adv = True
                    break
            if not adv:
                order.append(n)
                stack.pop()

    dfs(start)
    order.reverse()
    return order


def dominators(body, start=0):
    """Immediate dominators (Cooper-Harvey-Kennedy). Returns {block: idom}, idom[start] = start."""
    order = rpo(body, start)
    idx = {b: i for i, b in enumerate(order)}
    pr = preds(body, set(order))
    idom = {start: start}

    def intersect(a, b):
        while a != b:
            while idx[a] > idx[b]:
                a = idom[a]
            while idx[b] > idx[a]:
                b = idom[b]
        return a

    changed = True
    while changed:
        changed = False
        for b in order[1:]:
            ps = [p for p in pr[b] if p in idom]
            if not ps:
                continue
            new = ps[0]
            for p in ps[1:]:
                new = intersect(p, new)
            if idom.get(b) != new:
                idom[b] = new
                changed = True
    return idom


def dominates(idom, a, b):
    """True iff block a dominates block b."""
    if b not in idom:
        return False
    while True:
        if a == b:
            return True
        n = idom[b]
        if n == b:
            return False
        b = n


def back_edges(body, start=0):
    idom = dominators(body, start)
    out = []
    for b in idom:
        for s in body.succs(b):
            if s in idom and dominates(idom, s, b):
                out.append((b, s))
    return out


def natural_loop(body, tail, head):
    pr = preds(body)
    loop = {head}
    st = [tail]
    while st:
        n = st.pop()
        if n in loop:
            continue
        loop.add(n)
        for p in pr.get(n, []):
            st.append(p)
    return loop
