"""E1 front end: run the tcss-facts rustc driver over /repo's current working tree and load the facts.

Nothing is written under /repo.  Dependencies are compiled once into /verif/.cache/target-<cfg>;
before each run the workspace members' fingerprints are removed so cargo cannot skip the wrapper,
and afterwards the four fact files are asserted to exist (fail closed otherwise).
"""
import fcntl
import glob
import hashlib
import json
import os
import shutil
import subprocess
import sys
import time

VERIF = os.path.dirname(os.path.dirname(os.path.dirname(os.path.abspath(__file__))))
REPO = os.environ.get("TCSS_REPO", "/repo")
CACHE = os.path.join(VERIF, ".cache")
DRIVER = os.path.join(VERIF, "driver", "target", "release", "tcss-facts")

EXPECTED = [
    "taskchampion_sync_server_core-lib.json",
    "taskchampion_sync_server_storage_sqlite-lib.json",
    "taskchampion_sync_server-lib.json",
    "taskchampion_sync_server-bin.json",
]

CONFIGS = {
    # dev profile: overflow checks and debug assertions on
    "dev": "-Awarnings",
    # release-like: both off (MIR building differs exactly at arithmetic sites)
    "rel": "-Awarnings -Coverflow-checks=off -Cdebug-assertions=off",
}


class InfraError(Exception):
    pass


def repo_hash(repo=REPO):
    """Content hash of every file of the working tree that can influence the build."""
    h = hashlib.sha256()
    # the extractor itself is part of the key: a rebuilt driver invalidates cached facts
    for f in sorted(glob.glob(os.path.join(VERIF, "driver", "src", "*.rs"))):
        with open(f, "rb") as fh:
            h.update(fh.read())
    for root, dirs, files in os.walk(repo):
        dirs[:] = sorted(d for d in dirs if d not in (".git", "target"))
        for f in sorted(files):
            p = os.path.join(root, f)
            rel = os.path.relpath(p, repo)
            if not (f.endswith(".rs") or f.endswith(".toml") or f == "Cargo.lock"):
                continue
            h.update(rel.encode())
            h.update(b"\0")
            try:
                with open(p, "rb") as fh:
                    h.update(fh.read())
            except OSError:
                pass
            h.update(b"\0")
    return h.hexdigest()[:20]


def _sysroot_lib():
    out = subprocess.run(["rustc", "+nightly", "--print", "sysroot"], capture_output=True, text=True)
    if out.returncode != 0:
        raise InfraError("nightly toolchain not available: " + out.stderr)
    return os.path.join(out.stdout.strip(), "lib")


def build_driver():
    r = subprocess.run(
        ["cargo", "+nightly", "build", "--release", "--offline"],
        cwd=os.path.join(VERIF, "driver"), capture_output=True, text=True,
        env=dict(os.environ, CARGO_NET_OFFLINE="true"),
    )
    if r.returncode != 0 or not os.path.exists(DRIVER):
        raise InfraError("driver build failed:\n" + r.stderr[-4000:])


def run_driver(cfg, repo=REPO, target_dir=None, facts_dir=None, timeout=1200):
    """Run cargo check with the wrapper; returns the facts dir."""
    if not os.path.exists(DRIVER):
        build_driver()
    target_dir = target_dir or os.path.join(CACHE, "target-" + cfg)
    facts_dir = facts_dir or os.path.join(CACHE, "facts-" + cfg)
    os.makedirs(target_dir, exist_ok=True)
    if os.path.isdir(facts_dir):
        shutil.rmtree(facts_dir)
    os.makedirs(facts_dir)
    # force the wrapper to run for the workspace members
    for fp in glob.glob(os.path.join(target_dir, "debug", ".fingerprint", "taskchampion-sync-server*")):
        shutil.rmtree(fp, ignore_errors=True)
    env = dict(os.environ)
    env.update({
        "LD_LIBRARY_PATH": _sysroot_lib() + ":" + env.get("LD_LIBRARY_PATH", ""),
        "RUSTFLAGS": CONFIGS[cfg],
        "RUSTC_WORKSPACE_WRAPPER": DRIVER,
        "TCSS_FACTS_DIR": facts_dir,
        "CARGO_TARGET_DIR": target_dir,
        "CARGO_NET_OFFLINE": "true",
    })
    env.pop("RUSTC_WRAPPER", None)
    r = subprocess.run(
        ["cargo", "+nightly", "check", "--offline", "--workspace", "--manifest-path",
         os.path.join(repo, "Cargo.toml")],
        capture_output=True, text=True, env=env, timeout=timeout,
    )
    if r.returncode != 0:
        raise InfraError("cargo check (facts, cfg=%s) failed:\n%s" % (cfg, r.stderr[-6000:]))
    missing = [f for f in EXPECTED if not os.path.exists(os.path.join(facts_dir, f))]
    if missing:
        raise InfraError("fact files missing after extraction (cfg=%s): %s" % (cfg, missing))
    return facts_dir


def facts(cfg="dev", use_cache=True, repo=REPO):
    """Return {filename: parsed json} for the current working tree of `repo`."""
    os.makedirs(CACHE, exist_ok=True)
    lock = open(os.path.join(CACHE, "lock"), "w")
    fcntl.flock(lock, fcntl.LOCK_EX)
    try:
        h = repo_hash(repo)
        store = os.path.join(CACHE, "facts-%s-%s" % (cfg, h))
        stamp = os.path.join(store, "COMPLETE")
        if not (use_cache and os.path.exists(stamp)):
            t0 = time.time()
            tmp = run_driver(cfg, repo=repo)
            if os.path.isdir(store):
                shutil.rmtree(store)
            shutil.copytree(tmp, store)
            with open(stamp, "w") as fh:
                fh.write("%.1f\n" % (time.time() - t0))
            # keep the cache small: drop older fact stores of this cfg
            olds = sorted(glob.glob(os.path.join(CACHE, "facts-%s-*" % cfg)), key=os.path.getmtime)
            for o in olds[:-16]:
                shutil.rmtree(o, ignore_errors=True)
        out = {}
        for f in EXPECTED:
            with open(os.path.join(store, f)) as fh:
                out[f] = json.load(fh)
        return out, h
    finally:
        fcntl.flock(lock, fcntl.LOCK_UN)
        lock.close()


if __name__ == "__main__":
    cfgs = sys.argv[1:] or ["dev"]
    for c in cfgs:
        t = time.time()
        f, h = facts(c, use_cache=False)
        print("cfg=%s hash=%s bodies=%d wall=%.1fs" % (c, h, sum(len(x["bodies"]) for x in f.values()), time.time() - t))
