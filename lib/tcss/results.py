"""A7: Result-consumption (error discipline).

For every call whose value is a `Result`, classify how the value is consumed, from the provenance
terms of the enclosing body:
  propagated   its error payload reaches the function's return value (`?`, `return Err(f(e))`, returned as is)
  handled      its error payload is matched and an arm is a row of the explicit handled-error table
  REJECTED     discarded / `.ok()` / `.is_ok()` alone / `.unwrap_or*` / error only logged / never looked at
  panics       `.unwrap()` / `.expect()` (panic-site table)
"""
from . import prov as P

FROM_RESIDUAL = "core::ops::try_trait::FromResidual::from_residual"
BRANCH = "core::ops::try_trait::Try::branch"

# adapters through which a Result stays a Result carrying (a function of) the same error
ADAPTERS = {
    "anyhow::Context::context", "anyhow::Context::with_context",
    "core::result::Result::<T, E>::map_err", "core::result::Result::<T, E>::map",
    "core::result::Result::<T, E>::and_then", "core::result::Result::<T, E>::or_else",
    "rusqlite::OptionalExtension::optional",
    "core::option::Option::<core::result::Result<T, E>>::transpose",
    "core::result::Result::<core::option::Option<T>, E>::transpose",
    BRANCH,
}
REJECT = {
    "core::result::Result::<T, E>::ok": ".ok() discards the error",
    "core::result::Result::<T, E>::is_ok": ".is_ok() alone discards the error",
    "core::result::Result::<T, E>::is_err": ".is_err() alone discards the error",
    "core::result::Result::<T, E>::unwrap_or": ".unwrap_or() discards the error",
    "core::result::Result::<T, E>::unwrap_or_else": ".unwrap_or_else() discards the error",
    "core::result::Result::<T, E>::unwrap_or_default": ".unwrap_or_default() discards the error",
    "core::result::Result::<T, E>::err": ".err() used as a value (error not propagated)",
    "core::mem::drop": "drop(result) discards the error",
    "core::result::Result::<T, E>::is_ok_and": "is_ok_and discards the error",
    "core::result::Result::<T, E>::is_err_and": "is_err_and discards the error",
    "core::result::Result::<T, E>::unwrap_or_else ": "",
}
PANICS = {
    "core::result::Result::<T, E>::unwrap", "core::result::Result::<T, E>::expect",
    "core::result::Result::<T, E>::unwrap_err", "core::result::Result::<T, E>::expect_err",
    "core::option::Option::<T>::unwrap", "core::option::Option::<T>::expect",
    "chrono::offset::LocalResult::<T>::unwrap", "chrono::offset::LocalResult::<T>::single",
}

DERIVED_TRAITS = ("core::fmt::", "core::clone::Clone", "core::cmp::", "core::error::Error", "core::convert::From",
                  "core::hash::Hash", "core::default::Default", "core::marker::")


def is_result_ty(ty):
    return ty.startswith("core::result::Result<")


def children(t):
    h = t[0]
    if h in ("ok", "err"):
        return [t[1]]
    if h in ("field", "variant", "proj", "cast", "discr", "repeat", "subslice"):
        return [t[1]]
    if h == "mut":
        return [t[3]]
    if h == "call":
        return list(t[3])
    if h == "agg":
        return [v for _, v in t[2]]
    if h == "binop":
        return [t[2], t[3]]
    if h == "unop":
        return [t[2]]
    if h == "index":
        return [t[1], t[2]]
    return []


def parents_of(root, target, acc):
    """Collect (parent node, root) for every occurrence of `target` as a direct child somewhere in root."""
    st = [root]
    seen = 0
    while st:
        x = st.pop()
        if not isinstance(x, tuple) or not x:
            continue
        for c in children(x):
            if c == target:
                acc.append(x)
            st.append(c)
        seen += 1
        if seen > 20000:
            break


class SiteResult:
    def __init__(self, body, bb, callee, ty):
        self.body, self.bb, self.callee, self.ty = body, bb, callee, ty
        self.status = None
        self.why = ""


def analyse_body(W, body):
    """[SiteResult] for every Result-valued call of the body; [(bb, callee)] panic sites."""
    pv = W.prov(body)
    g = None
    roots = []
    for l, sites_ in pv.defsites.items():
        for s_ in sites_:
            roots.append((l, s_, pv.def_term(s_)))
    switch_terms = []
    for b in body.blocks:
        if b["i"] in pv.live and b["term"]["k"] == "switch":
            switch_terms.append(pv.operand_term(b["term"]["discr"]))
    from rules import shared as S_
    ret_terms = [t for _d, t in S_.exits(W, body)]
    out = []
    for bb, t in body.calls():
        dty = t["dest"]["ty"]
        if not is_result_ty(dty):
            continue
        callee = t["callee"].get("def", "<indirect>")
        if callee in ADAPTERS or callee == FROM_RESIDUAL:
            continue      # adapters are followed from their source; from_residual builds the return value
        sr = SiteResult(body, bb, callee, dty)
        T = pv.def_term((bb, "T"))
        if T[0] != "call" or T[2] != bb:
            # transparent wrapper normalised away (clone of a result etc.): treat the wrapped term
            sr.status, sr.why = "propagated", "value is an identity transport of %s" % P.show(T)[:60]
            out.append(sr)
            continue
        ps = path_status(W, body, T)
        if ps is not None:
            sr.status, sr.why = ps
        else:
            sr.status, sr.why = classify(T, roots, switch_terms, ret_terms, depth=0)
        out.append(sr)
    panics = []
    for bb, t in body.calls():
        d = t["callee"].get("def", "")
        if d in PANICS:
            panics.append((bb, d))
    return out, panics


def classify(T, roots, switch_terms, ret_terms, depth):
    if depth > 6:
        return "REJECTED", "adapter chain too deep to follow"
    # returned as is
    for rt in ret_terms:
        if rt == T:
            return "propagated", "returned unchanged"
    parents = []
    for l, s_, rt in roots:
        parents_of(rt, T, parents)
    for stt in switch_terms:
        parents_of(stt, T, parents)
    if not parents:
        in_switch = any(T == stt for stt in switch_terms)
        return "REJECTED", "the Result is never examined or propagated (dropped)"
    kinds = set()
    worst = None
    for par in parents:
        h = par[0]
        if h == "call":
            if par[1] in REJECT:
                return "REJECTED", REJECT[par[1]]
            if par[1] in PANICS:
                kinds.add("panics")
                continue
            if par[1] in ADAPTERS or par[1] in P.OK_PRESERVING:
                st, why = classify(par, roots, switch_terms, ret_terms, depth + 1)
                if st == "REJECTED":
                    worst = (st, "via %s: %s" % (par[1].split("::")[-1], why))
                else:
                    kinds.add(st)
                continue
            if par[1] == FROM_RESIDUAL:
                kinds.add("propagated")
                continue
            # passed whole to some other function
            kinds.add("escapes:" + par[1])
        elif h == "err":
            st, why = err_consumed(par, roots, ret_terms)
            if st == "REJECTED":
                worst = (st, why)
            else:
                kinds.add(st)
        elif h in ("ok", "discr"):
            kinds.add("examined")
        elif h == "agg":
            kinds.add("stored")
        else:
            kinds.add("examined")
    if "propagated" in kinds:
        return "propagated", "error payload reaches the return value"
    if "handled" in kinds:
        return "handled", "error payload is matched"
    if "panics" in kinds:
        return "panics", "unwrap/expect"
    if worst:
        return worst
    esc = [k for k in kinds if k.startswith("escapes:")]
    if esc:
        return "REJECTED", "the Result is passed to %s, which is not a recognised consumer" % esc[0][8:]
    return "REJECTED", "the success value is used but the error is never propagated or handled (%s)" % sorted(kinds)


def err_consumed(E, roots, ret_terms):
    """E = ('err', T): does the error payload reach the return value?"""
    for rt in ret_terms:
        for x in P.walk(rt):
            if x == E:
                return "propagated", "error reaches the return value"
    # matched on its variant (a handled-error table decides whether that is acceptable)
    return "REJECTED", "the error payload is extracted but does not reach the return value (only logged / ignored?)"


NO_ROW_QUERIES = {"rusqlite::Connection::query_row", "rusqlite::statement::Statement::<'_>::query_row"}


def adapter_root(t):
    """Innermost call of an adapter chain  optional(context(branch(CALL))) -> CALL."""
    seen = 0
    while t[0] == "call" and (t[1] in ADAPTERS or t[1] in P.OK_PRESERVING) and t[3] and seen < 8:
        t = t[3][0]
        seen += 1
    return t


ERR_KEEPING = {"anyhow::Context::context", "anyhow::Context::with_context", "core::result::Result::<T, E>::map_err"}


def is_error_exit(term):
    if term[0] == "call" and term[1] == FROM_RESIDUAL:
        return True
    if term[0] == "agg" and isinstance(term[1], tuple) and term[1][0] == "adt" and term[1][2] == "Err":
        return True
    # `Err(e).context("..")` / `.map_err(..)` applied to a value that is an error already
    if term[0] == "call" and term[1] in ERR_KEEPING and term[3]:
        return is_error_exit(term[3][0])
    return False


def path_status(W, body, T):
    """Path-based discipline for a Result whose outcome is tested in this body (a `?`, a `match`, an `if let`, an
    `is_err()`; adapter chains are looked through): on every product path on which the call FAILED the function must end
    in an error return (or re-run the call).  Independent of how the test is spelled.  None when the outcome is never
    tested here (the term-based classification then decides: returned as is / passed on / dropped)."""
    g = W.gea(body)
    # (for `x.ok_or(e)` / `x.ok_or_else(..)` the test of the Result is the test of x: Err <=> x is None)
    base = P.strip_ok_preserving(T)
    atoms = [a for a in g.atoms if a[0] == "VARIANT" and (adapter_root(a[1]) == T or (base != T and a[1] == base))]
    pv = W.prov(body)
    # the Result may first be bound to a local that has other definitions too (`let r = if .. { call() } else { Err(..) }`, a
    # desugared `and_then`): a test of that local is a test of this call on the paths where this definition is the live one
    sel = {}
    for a in g.atoms:
        if a[0] != "VARIANT" or a in atoms:
            continue
        root = adapter_root(a[1])
        if root[0] == "phi":
            for d in pv.defsites.get(root[1], []):
                if adapter_root(pv.def_term(d)) == T:
                    sel[a] = (("def", root[1]), frozenset([d]))
    atoms = atoms + list(sel)
    if not atoms:
        return None
    errv = frozenset(["err"])

    def holds(val, a, v):
        if val.get(a) != v:
            return False
        s_ = sel.get(a)
        return s_ is None or val.get(s_[0]) == s_[1]
    from rules import shared as S_
    succ_blocks = set(d[0] for d, t in S_.exits(W, body) if not is_error_exit(t))
    ret_blocks = set(b["i"] for b in body.blocks if b["term"]["k"] == "return" and not b["cleanup"])
    starts = [y for x, ys in g.edges.items() for y in ys
              if any(holds(dict(y[1]), a, errv) and not holds(dict(x[1]), a, errv) for a in atoms)]
    if not starts:
        return None
    seen = set()
    stk = list(starts)
    unit_ret = body.locals[0]["ty"] == "()"
    while stk:
        x = stk.pop()
        if x in seen:
            continue
        seen.add(x)
        val = dict(x[1])
        still = any(holds(val, a, errv) for a in atoms)
        if still and (x[0] in succ_blocks or (unit_ret and x[0] in ret_blocks)):
            # the one legitimate "failure" that is an answer: a row query that found no row (what `.optional()` does),
            # spelled as an explicit `Err(QueryReturnedNoRows) => Ok(None)` arm
            if T[1] in NO_ROW_QUERIES and val.get(("VARIANT", ("err", T))) == frozenset(["QueryReturnedNoRows"]):
                continue
            return "REJECTED", "a non-error return (line %d) is reachable on a path where the call failed: the failure is swallowed" % body.line_of_block(x[0])
        if not still:
            continue          # the call was re-run (or its outcome re-bound): a new outcome is judged on its own
        for y in g.edges.get(x, ()):
            stk.append(y)
    return "propagated", "every path on which the call failed ends in an error return"
