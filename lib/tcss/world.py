"""Repository-specific anchors (which functions are protocol operations, which trait methods are
write-class, ...) plus the A1 call graph and per-body analysis caches.  Everything the rules know
about *this* code base by name lives here, as explicit tables with a reason per row."""
import re

from . import facts as F
from . import gea as G
from . import prov as P

CORE = "taskchampion_sync_server_core"
SQLITE = "taskchampion_sync_server_storage_sqlite"
SERVER = "taskchampion_sync_server"

STORAGE = CORE + "::storage::Storage"
STORAGE_TXN = CORE + "::storage::StorageTxn"
T_TXN = STORAGE + "::txn"


def tm(name):
    return STORAGE_TXN + "::" + name


# class table of the StorageTxn trait (re-derived from effect summaries by rules/shared.py S-CLASS)
WRITE_METHODS = ("new_client", "set_snapshot", "add_version")
READ_METHODS = ("get_client", "get_snapshot_data", "get_version_by_parent", "get_version")
COMMIT_METHOD = "commit"
ALL_METHODS = WRITE_METHODS + READ_METHODS + (COMMIT_METHOD,)

OPS = ("get_child_version", "add_version", "add_snapshot", "get_snapshot")
SERVER_TY = CORE + "::server::Server"
SERVER_TXN = SERVER_TY + "::txn"


def op(name):
    return SERVER_TY + "::" + name


HANDLER_MODULES = ("add_version", "add_snapshot", "get_child_version", "get_snapshot")
HANDLER_OP = {"add_version": "add_version", "add_snapshot": "add_snapshot",
              "get_child_version": "get_child_version", "get_snapshot": "get_snapshot"}
CLIENT_ID_HEADER_FN = SERVER + "::api::ServerState::client_id_header"

NIL = CORE + "::server::NIL_VERSION_ID"


class Anchor(Exception):
    """A named anchor (function, trait, route) could not be found: rules fail closed."""


class World:
    def __init__(self, prog):
        self.prog = prog
        self._gea = {}
        self._prov = {}
        self._cg = None

    # ------------------------------------------------------------ anchors
    def body(self, key):
        b = self.prog.body(key)
        if b is None:
            raise Anchor("function not found: %s" % key)
        return b

    def op(self, name):
        return self.body(op(name))

    def handler_factory(self, module):
        key = "<%s::api::%s::service as actix_web::service::HttpServiceFactory>::register" % (SERVER, module)
        return self.body(key)

    def handler(self, module):
        """The async body of the route handler (pre-state-transform coroutine closure)."""
        key = "<%s::api::%s::service as actix_web::service::HttpServiceFactory>::register::service::{closure#0}" % (SERVER, module)
        return self.body(key)

    def handler_fn(self, module):
        key = "<%s::api::%s::service as actix_web::service::HttpServiceFactory>::register::service" % (SERVER, module)
        return self.body(key)

    def impl_method(self, backend, method):
        if backend == "inmemory":
            key = "<%s::inmemory::InnerTxn<'_> as %s>::%s" % (CORE, STORAGE_TXN, method)
        elif backend == "sqlite":
            key = "<%s::Txn as %s>::%s" % (SQLITE, STORAGE_TXN, method)
        else:
            raise ValueError(backend)
        return self.body(key)

    def impl_storage_txn(self, backend):
        if backend == "inmemory":
            key = "<%s::inmemory::InMemoryStorage as %s>::txn" % (CORE, STORAGE)
        else:
            key = "<%s::SqliteStorage as %s>::txn" % (SQLITE, STORAGE)
        return self.body(key)

    def trait_impls(self, trait):
        return [i for i in self.prog.impls if i.get("trait") == trait]

    # ------------------------------------------------------------ analyses (cached)
    def prov(self, body):
        if body.key not in self._prov:
            self._prov[body.key] = P.Prov(body)
        return self._prov[body.key]

    def gea(self, body):
        if body.key not in self._gea:
            self._gea[body.key] = G.GEA(body, self.prov(body))
        return self._gea[body.key]

    # ------------------------------------------------------------ call graph (A1)
    def resolve_callee(self, caller, t):
        """Body keys a call terminator may transfer control to (workspace-local only)."""
        c = t["callee"]
        out = []
        names = []
        if c.get("ikind") == "item" and c.get("resolved"):
            names.append(c["resolved"])
        if c.get("def"):
            names.append(c["def"])
        for n in names:
            for k in (("bin:" + n) if caller.unit.endswith("-bin") else None, n):
                if k and k in self.prog.bodies and k not in out:
                    out.append(k)
            if out:
                break
        if not out and c.get("def"):
            # trait method without static resolution (dyn or generic): every workspace impl
            d = c["def"]
            for imp in self.prog.impls:
                for it in imp["items"]:
                    if it.get("trait_item") == d:
                        for k in (it["def"], "bin:" + it["def"]):
                            if k in self.prog.bodies and k not in out:
                                out.append(k)
        return out

    def callgraph(self):
        if self._cg is not None:
            return self._cg
        cg = {}
        for key, b in self.prog.bodies.items():
            edges = []
            for bb, t in b.calls():
                for k in self.resolve_callee(b, t):
                    edges.append((bb, k))
            # closures created here, function items referenced as values (handlers passed to Resource::to ...)
            for blk in b.blocks:
                if blk["cleanup"]:
                    continue
                for s in blk["stmts"]:
                    if s["k"] != "assign":
                        continue
                    for d in _fn_refs(s["rv"]):
                        for k in (("bin:" + d) if b.unit.endswith("-bin") else None, d):
                            if k and k in self.prog.bodies:
                                edges.append((blk["i"], k))
                if blk["term"]["k"] == "call":
                    for a in blk["term"]["args"]:
                        for d in _fn_refs_op(a):
                            for k in (("bin:" + d) if b.unit.endswith("-bin") else None, d):
                                if k and k in self.prog.bodies:
                                    edges.append((blk["i"], k))
            cg[key] = edges
        self._cg = cg
        return cg

    def reachable_from(self, key, skip_edges=()):
        cg = self.callgraph()
        seen = set()
        st = [key]
        while st:
            k = st.pop()
            if k in seen:
                continue
            seen.add(k)
            for bb, k2 in cg.get(k, ()):
                if (k, bb) in skip_edges:
                    continue
                st.append(k2)
        return seen

    def callers_of_decl(self, decl):
        """[(body, bb, terminator)] for every non-test call whose declared callee is `decl`."""
        out = []
        for b in self.prog.bodies.values():
            for bb, t in b.calls():
                if t["callee"].get("def") == decl:
                    out.append((b, bb, t))
        return out

    def bodies_calling(self, pred):
        out = []
        for b in self.prog.bodies.values():
            for bb, t in b.calls():
                if pred(t["callee"]):
                    out.append((b, bb, t))
        return out


def _fn_refs_op(o):
    out = []
    if o.get("k") == "const":
        if "fn" in o:
            out.append(o["fn"])
        if "closure" in o:
            out.append(o["closure"])
    return out


def _fn_refs(rv):
    out = []
    k = rv["k"]
    if k in ("use", "cast", "repeat") and "op" in rv:
        out += _fn_refs_op(rv["op"])
    elif k == "aggregate":
        if rv["ak"] in ("closure", "coroutine", "coroutineclosure"):
            out.append(rv["def"])
        for o in rv["ops"]:
            out += _fn_refs_op(o)
    elif k == "binop":
        out += _fn_refs_op(rv["a"]) + _fn_refs_op(rv["b"])
    return out
