"""A3: guarded-effect product analysis.

Explores the product of a body's CFG (non-cleanup blocks) with partial valuations of *atoms*:
  ('EQ', a, b)        equality of two provenance terms (unordered; stored sorted by repr)
  ('CMP', op, a, b)   op in {'Lt','Le'} over integer terms
  ('VARIANT', t)      which enum variant t holds (values: variant names)
  ('PRED', callee, args)  bool-returning call in the predicate table
  ('INT', t)          integer switch on t (values: decimal strings / '*')
  ('def', l)          which definition of the multi-def local l reaches here (values: def sites)
A valuation maps atoms to the frozenset of values still possible.  Atoms are forgotten when a call
site or variable they were computed from is executed / assigned again (loops).
"""
from collections import defaultdict

from . import prov as P

PRED_CALLEES = {
    "core::option::Option::<T>::is_none",
    "core::option::Option::<T>::is_some",
    "core::result::Result::<T, E>::is_ok",
    "core::result::Result::<T, E>::is_err",
    "std::collections::hash::set::HashSet::<T, S, A>::contains",
    "std::collections::hash::map::HashMap::<K, V, S, A>::contains_key",
    "bytes::bytes_mut::BytesMut::is_empty",
    "alloc::vec::Vec::<T, A>::is_empty",
}

NO_ROWS_IMPOSSIBLE = {"rusqlite::Connection::prepare", "rusqlite::cache::<impl rusqlite::Connection>::prepare_cached", "rusqlite::Connection::open"}

EQ_CALLEES = {"core::cmp::PartialEq::eq": True, "core::cmp::PartialEq::ne": False}


VARIANT_NORM = {"Ok": "ok", "Some": "ok", "Continue": "ok", "Ready": "ok",
                "Err": "err", "None": "err", "Break": "err"}


def norm_variant_name(n):
    """Result/Option/ControlFlow/Poll variants are normalised so that `?`, `match` and `if let`
    spellings of the same test produce the same atom value."""
    return VARIANT_NORM.get(n, n)


class StateSpaceExceeded(Exception):
    pass


def order_pair(a, b):
    return (a, b) if repr(a) <= repr(b) else (b, a)


OPTION_PREDS = {
    "core::option::Option::<T>::is_none": ("err", "ok"),
    "core::option::Option::<T>::is_some": ("ok", "err"),
    "core::result::Result::<T, E>::is_ok": ("ok", "err"),
    "core::result::Result::<T, E>::is_err": ("err", "ok"),
}


def bool_atom(t):
    """Return (atom, value_when_true, value_when_false) for a bool-valued term,
    ('const', bool, None) for constants, or None.  `x.is_none()` is the same atom as a match on x."""
    neg = False
    while True:
        if t[0] == "unop" and t[1] == "Not":
            neg = not neg
            t = t[2]
            continue
        break
    r = _bool_atom_pos(t)
    if r is None:
        return None
    if r[0] == "const":
        return ("const", r[1] != neg, None)
    atom, vt, vf = r
    return (atom, vf, vt) if neg else (atom, vt, vf)


def mk_norm(r):
    """err(ok-preserving(X)) / ok(..) with the wrappers the other atoms are keyed without."""
    if r[0] == "err":
        return ("err", P.strip_branch(r[1]))
    return r


def _eq_literals(a, b, positive, depth=0):
    """a == b (or != when not positive) for two literal Option / Result / .. values: a bool constant when the variants
    differ or carry nothing, else the comparison of the payloads; None when a side is not such a literal."""
    def lit(t):
        return t[0] == "agg" and isinstance(t[1], tuple) and t[1][0] == "adt" and t[1][1] in P.STD_SUM_TYPES and len(t[2]) <= 1
    if depth > 3 or not (lit(a) and lit(b)) or a[1][1] != b[1][1]:
        return None
    if a[1][2] != b[1][2]:
        return ("const", None, not positive, "bool")
    if not a[2]:
        return ("const", None, positive, "bool")
    pa, pb = a[2][0][1], b[2][0][1]
    inner = _eq_literals(pa, pb, positive, depth + 1)
    if inner is not None:
        return inner
    eq = ("call", "core::cmp::PartialEq::eq", -1, (pa, pb))
    return eq if positive else ("unop", "Not", eq)


def _bool_atom_pos(t):
    if t[0] == "const" and isinstance(t[2], bool):
        return ("const", t[2], None)
    if t[0] == "call" and t[1] in EQ_CALLEES and len(t[3]) == 2:
        a, b = order_pair(t[3][0], t[3][1])
        return (("EQ", a, b), True, False) if EQ_CALLEES[t[1]] else (("EQ", a, b), False, True)
    if t[0] == "binop":
        op, a, b = t[1], t[2], t[3]
        if op == "Eq":
            x, y = order_pair(a, b)
            return (("EQ", x, y), True, False)
        if op == "Ne":
            x, y = order_pair(a, b)
            return (("EQ", x, y), False, True)
        if op == "Lt":
            return (("CMP", "Lt", a, b), True, False)
        if op == "Le":
            return (("CMP", "Le", a, b), True, False)
        if op == "Gt":
            return (("CMP", "Lt", b, a), True, False)
        if op == "Ge":
            return (("CMP", "Le", b, a), True, False)
    if t[0] == "call" and t[1] in OPTION_PREDS and len(t[3]) == 1:
        vt, vf = OPTION_PREDS[t[1]]
        return (("VARIANT", P.strip_ok_preserving(t[3][0])), vt, vf)
    if t[0] == "call" and t[1] in PRED_CALLEES:
        return (("PRED", t[1], t[3]), True, False)
    if t[0] == "call" and t[1] in ("core::cmp::PartialOrd::lt", "core::cmp::PartialOrd::le",
                                   "core::cmp::PartialOrd::gt", "core::cmp::PartialOrd::ge") and len(t[3]) == 2:
        a, b = t[3]
        nm = t[1].rsplit("::", 1)[1]
        if nm == "lt":
            return (("CMP", "Lt", a, b), True, False)
        if nm == "le":
            return (("CMP", "Le", a, b), True, False)
        if nm == "gt":
            return (("CMP", "Lt", b, a), True, False)
        return (("CMP", "Le", b, a), True, False)
    return None


def _simple_value(t, depth=0):
    """Constants, parameters, fields of parameters and aggregates of those."""
    if depth > 6 or not isinstance(t, tuple) or not t:
        return False
    h = t[0]
    if h in ("const", "param"):
        return True
    if h in ("field", "ok", "variant"):
        return _simple_value(t[1], depth + 1)
    if h == "agg":
        return all(_simple_value(v, depth + 1) for _, v in t[2])
    return False


def subst_atom(atom, mapping, subst_params):
    """Rename the parameters occurring in an atom (callee summary -> caller terms)."""
    h = atom[0]
    if h == "EQ":
        a, b = order_pair(subst_params(atom[1], mapping), subst_params(atom[2], mapping))
        return ("EQ", a, b)
    if h == "CMP":
        return ("CMP", atom[1], subst_params(atom[2], mapping), subst_params(atom[3], mapping))
    if h in ("VARIANT", "INT"):
        return (h, subst_params(atom[1], mapping))
    if h == "PRED":
        return ("PRED", atom[1], tuple(subst_params(x, mapping) for x in atom[2]))
    return atom


def atom_deps(atom):
    """(call-site blocks, phi locals) an atom's meaning depends on."""
    calls, phis = set(), set()
    for part in atom[1:]:
        if isinstance(part, tuple):
            items = [part] if part and isinstance(part[0], str) else list(part)
            for it in items:
                if isinstance(it, tuple):
                    for x in P.walk(it):
                        if x[0] == "call":
                            calls.add(x[2])
                        elif x[0] == "phi":
                            phis.add(x[1])
                        elif x[0] == "sum":
                            phis.add(x[2])
                        elif x[0] == "resume":
                            calls.add(x[1])
    return calls, phis


def is_log_span(span):
    exp = span.get("exp")
    if not exp:
        return False
    return any(e.startswith("macro:") and (":log::" in e) for e in exp)


class GEA:
    def __init__(self, body, prov=None, track=(), max_states=400000):
        self.body = body
        self.prov = prov or P.Prov(body)
        self.max_states = max_states
        self.switch_info = {}       # bb -> static info
        self.atoms = {}             # atom -> list of switch blocks
        self._static_switches()
        self.tracked = set(track)
        self._choose_tracked()
        self.deps = {}
        self._mutator_bbs = {}
        for a in self.atoms:
            self.deps[a] = self.atom_deps(a)
        self.site_vals = defaultdict(set)
        self.edges = defaultdict(set)
        self.states = set()
        # constant propagation in the product (pseudo-atoms ('ival', local, field path) = concrete int / bool): a loop
        # governed by a counter with a constant start and constant steps is unrolled, whatever its spelling
        self._ival_seen = defaultdict(set)
        self._ival_banned = set()
        self._no_ival = set(l for l in self.prov.mutborrow if self.prov.mutators(l))
        self._explore()

    # ------------------------------------------------------------ switches
    def _static_switches(self):
        body, pv = self.body, self.prov
        for b in body.blocks:
            bb = b["i"]
            if bb not in pv.live or b["term"]["k"] != "switch":
                continue
            t = b["term"]
            term = pv.operand_term(t["discr"])
            info = {"term": term, "log": is_log_span(t["span"]), "kind": "opaque"}
            discr_ty = t["discr"].get("ty") or (t["discr"].get("p") or {}).get("ty")
            if info["log"]:
                self.switch_info[bb] = info
                continue
            if term[0] == "discr":
                variants = term[2]
                if variants:
                    base = P.strip_ok_preserving(term[1])
                    atom = ("VARIANT", base)
                    std = len(term) > 3 and term[3] in P.STD_SUM_TYPES
                    names = dict((d, norm_variant_name(n) if std else n) for d, n in variants)
                    allv = frozenset(names.values())
                    arms = {}
                    listed = set()
                    for a in t["arms"]:
                        n = names.get(a["v"])
                        if n is None:
                            continue
                        arms.setdefault(a["t"], set()).add(n)
                        listed.add(n)
                    rest = allv - listed
                    if rest:
                        arms.setdefault(t["otherwise"], set()).update(rest)
                    info.update(kind="atom", atom=atom, arms={k: frozenset(v) for k, v in arms.items()})
                    self.atoms.setdefault(atom, []).append(bb)
            elif discr_ty == "bool":
                info.update(kind="bool")
                ba = self.norm_bool(term)
                if ba is not None and ba[0] == "setatom":
                    self.atoms.setdefault(ba[1], []).append(bb)
                elif ba is not None and ba[0] != "const":
                    self.atoms.setdefault(ba[0], []).append(bb)
            else:
                atom = ("INT", term)
                arms = {}
                for a in t["arms"]:
                    arms.setdefault(a["t"], set()).add(a["v"])
                arms.setdefault(t["otherwise"], set()).add("*")
                info.update(kind="atom", atom=atom, arms={k: frozenset(v) for k, v in arms.items()})
                self.atoms.setdefault(atom, []).append(bb)
            self.switch_info[bb] = info

    def _choose_tracked(self):
        pv = self.prov
        need = set()
        for a in self.atoms:
            _, phis = atom_deps(a)
            need |= phis
        # bool phis used directly as switch discriminants
        for bb, info in self.switch_info.items():
            need |= P.phi_locals(info["term"])
        # the return place
        if 0 in pv.phi_locals or len(pv.defsites.get(0, [])) > 1:
            need.add(0)
        for d in pv.defsites.get(0, []):
            need |= P.phi_locals(pv.def_term(d))
        # a local that is a different literal on different paths (`let value = match u { Low => "urgency=low", High => .. }`):
        # which literal reaches a use is decided by the path, like any other value bound before it is used
        for l in pv.phi_locals:
            ds = pv.defsites.get(l, [])
            if 2 <= len(ds) <= 8 and not (1 <= l <= self.body.arg_count) and all(d[1] != "T" and pv.def_term(d)[0] == "const" for d in ds):
                need.add(l)
        self.tracked |= need
        self.tracked &= (pv.phi_locals | {0})
        # a tracked local defined as a copy of / an aggregate over other multi-def locals: track those too, so that a
        # value is resolved all the way down under a valuation (nested `if let` / desugared combinator results)
        changed = True
        while changed:
            changed = False
            for l in list(self.tracked):
                for d in pv.defsites.get(l, []):
                    for l2 in P.phi_locals(pv.def_term(d)):
                        if l2 in pv.phi_locals and l2 not in self.tracked and l2 != l:
                            self.tracked.add(l2)
                            changed = True

    def atom_deps(self, atom):
        """Module-level atom_deps plus: a value handed out by `&mut` depends on its mutator calls."""
        calls, phis = atom_deps(atom)
        calls = set(calls)
        for part in atom[1:]:
            if not isinstance(part, tuple):
                continue
            items = [part] if part and isinstance(part[0], str) else list(part)
            for it in items:
                if not isinstance(it, tuple):
                    continue
                for x in P.walk(it):
                    if x[0] == "mut":
                        l = x[1]
                        if l not in self._mutator_bbs:
                            self._mutator_bbs[l] = set(bb for bb, _, _ in self.prov.mutators(l))
                        calls |= self._mutator_bbs[l]
        return calls, phis

    # ------------------------------------------------------------ bool normalisation
    def norm_bool(self, term):
        """bool_atom plus:  x == Enum::UnitVariant  (derived PartialEq on a field-less variant) is the
        same atom as a match on x."""
        neg = False
        t = term
        while t[0] == "unop" and t[1] == "Not":
            neg = not neg
            t = t[2]
        if t[0] == "call" and t[1] in EQ_CALLEES and len(t[3]) == 2:
            for x, y in ((t[3][0], t[3][1]), (t[3][1], t[3][0])):
                if y[0] == "agg" and isinstance(y[1], tuple) and y[1][0] == "adt" and not y[2]:
                    adt = self._enum(y[1][1])
                    if adt is not None and len(adt) > 1 and x[0] != "agg":
                        names = frozenset(adt)
                        eq = EQ_CALLEES[t[1]] != neg
                        atom = ("VARIANT", P.strip_ok_preserving(x))
                        v = y[1][2]
                        std = y[1][1] in P.STD_SUM_TYPES
                        v = norm_variant_name(v) if std else v
                        others = frozenset(norm_variant_name(n) if std else n for n in names) - {v}
                        if len(others) == 1:
                            o = next(iter(others))
                            return (atom, v, o) if eq else (atom, o, v)
                        # multi-valued complement: represented by a set-valued refinement
                        return ("setatom", atom, frozenset([v]), others) if eq else ("setatom", atom, others, frozenset([v]))
        # ordering comparison of a field-less enum value with one of its unit variants (derived PartialOrd =
        # declaration order):  x >= E::V  is the set-valued atom  VARIANT(x) in {variants from V on}
        ORD = {"core::cmp::PartialOrd::lt": "lt", "core::cmp::PartialOrd::le": "le", "core::cmp::PartialOrd::gt": "gt", "core::cmp::PartialOrd::ge": "ge"}
        if t[0] == "call" and t[1] in ORD and len(t[3]) == 2:
            for x, y, flip in ((t[3][0], t[3][1], False), (t[3][1], t[3][0], True)):
                if y[0] == "agg" and isinstance(y[1], tuple) and y[1][0] == "adt" and not y[2] and x[0] != "agg":
                    names = self._enum(y[1][1])
                    if names is not None and len(names) > 1 and y[1][2] in names:
                        k = names.index(y[1][2])
                        op = ORD[t[1]]
                        if flip:
                            op = {"lt": "gt", "le": "ge", "gt": "lt", "ge": "le"}[op]
                        idx = {"lt": range(0, k), "le": range(0, k + 1), "gt": range(k + 1, len(names)), "ge": range(k, len(names))}[op]
                        tset = frozenset(names[i] for i in idx)
                        fset = frozenset(names) - tset
                        atom = ("VARIANT", P.strip_ok_preserving(x))
                        return ("setatom", atom, fset, tset) if neg else ("setatom", atom, tset, fset)
        return bool_atom(term)

    def _enum(self, path):
        """Variant names of a workspace enum whose variants are all field-less, else None."""
        prog = self.body.prog
        for (u, d), a in prog.adts.items():
            full = d if "::" in d and d.split("::")[0] in path else d
            if path == d or path.endswith("::" + d) or d.endswith(path.split("::", 1)[-1]):
                if a["kind"] == "Enum" and all(not v["fields"] for v in a["variants"]):
                    return [v["name"] for v in a["variants"]]
        return None

    def predicate_summary(self, term):
        """[(valuation, bool)] for a call of a workspace-local function returning bool whose body is
        a pure combination of comparisons of its parameters; None if not applicable."""
        if term[0] != "call":
            return None
        prog = self.body.prog
        key = term[1]
        callee = prog.bodies.get(key) or prog.bodies.get("bin:" + key)
        if callee is None or callee.key == self.body.key:
            return None
        if callee.locals[0]["ty"] != "bool" or callee.kind not in ("Fn", "AssocFn"):
            return None
        cache = getattr(prog, "_pred_cache", None)
        if cache is None:
            cache = prog._pred_cache = {}
        if key not in cache:
            cache[key] = self._summarise_predicate(callee)
        raw = cache[key]
        if raw is None:
            return None
        from .effects import subst_params
        mapping = {i + 1: a for i, a in enumerate(term[3])}
        out = []
        for sval, res in raw:
            nv = {}
            for atom, vs in sval.items():
                nv[subst_atom(atom, mapping, subst_params)] = vs
            out.append((nv, res))
        return out

    def value_summary(self, term):
        """[(valuation, result term)] for a call of a workspace-local *pure* function whose result is, on every path, a
        constant / parameter-derived value or an aggregate of such (e.g. `fn some_version(v) -> Option<Uuid>`,
        `fn header_value(u) -> Option<&'static str>`); parameters substituted by the call's arguments.  None otherwise."""
        if term[0] != "call":
            return None
        prog = self.body.prog
        key = term[1]
        callee = prog.bodies.get(key) or prog.bodies.get("bin:" + key)
        if callee is None or callee.key == self.body.key or callee.kind not in ("Fn", "AssocFn"):
            return None
        if callee.locals[0]["ty"] in ("bool", "()"):
            return None
        cache = getattr(prog, "_value_cache", None)
        if cache is None:
            cache = prog._value_cache = {}
        if key not in cache:
            cache[key] = self._summarise_value(callee)
        raw = cache[key]
        if raw is None:
            return None
        from .effects import subst_params
        mapping = {i + 1: a for i, a in enumerate(term[3])}
        out = []
        for sval, rt in raw:
            nv = {}
            for atom, vs in sval.items():
                nv[subst_atom(atom, mapping, subst_params)] = vs
            out.append((nv, subst_params(rt, mapping)))
        return out

    def _summarise_value(self, callee):
        for bb, t in callee.calls():
            d = t["callee"].get("def", "")
            if d in EQ_CALLEES or d in PRED_CALLEES or d in OPTION_PREDS or d.startswith("core::cmp::PartialOrd::") \
                    or d in P.TRANSPARENT or is_log_span(t["span"]) or d.startswith("core::fmt::") or d.startswith("log::") \
                    or d in ("core::cmp::Ord::cmp", "core::cmp::PartialOrd::partial_cmp"):
                continue
            return None
        try:
            g = GEA(callee, max_states=20000)
        except StateSpaceExceeded:
            return None
        out = []
        for site in g.prov.defsites.get(0, []):
            term = g.prov.def_term(site)
            for val in g.vals_at(site):
                rt = g.resolve_phis(term, val)
                if not _simple_value(rt):
                    return None
                out.append(({a: vs for a, vs in val.items() if a[0] not in ("def", "val")}, rt))
        return out or None

    def resolve_vals(self, term, val):
        """Replace calls of summarised pure helpers by the value bound for them in `val` (pseudo-atoms ('val', call))."""
        if not isinstance(term, tuple) or not term:
            return term
        if not any(a[0] == "val" for a in val):
            return term
        h = term[0]
        if h == "call":
            b = val.get(("val", term))
            if b is not None and len(b) == 1:
                return next(iter(b))
            return (h, term[1], term[2], tuple(self.resolve_vals(a, val) for a in term[3]))
        if h == "ok":
            return P.mk_ok(self.resolve_vals(term[1], val))
        if h == "err":
            return (h, self.resolve_vals(term[1], val))
        if h == "field":
            return P.mk_field(self.resolve_vals(term[1], val), term[2])
        if h == "variant":
            inner = self.resolve_vals(term[1], val)
            return P.mk_variant(inner, term[2], "core::option::Option" if len(term) == 4 else None)
        if h == "agg":
            return (h, term[1], tuple((n, self.resolve_vals(v, val)) for n, v in term[2]))
        if h == "mut":
            return (h, term[1], term[2], self.resolve_vals(term[3], val))
        if h == "binop":
            return (h, term[1], self.resolve_vals(term[2], val), self.resolve_vals(term[3], val))
        if h == "unop":
            return (h, term[1], self.resolve_vals(term[2], val))
        return term

    def _summarise_predicate(self, callee):
        # purity: only comparison / predicate / logging callees
        for bb, t in callee.calls():
            d = t["callee"].get("def", "")
            if d in EQ_CALLEES or d in PRED_CALLEES or d in OPTION_PREDS or d.startswith("core::cmp::PartialOrd::") \
                    or d in P.TRANSPARENT or is_log_span(t["span"]) or d.startswith("core::fmt::") or d.startswith("log::"):
                continue
            return None
        try:
            g = GEA(callee, max_states=20000)
        except StateSpaceExceeded:
            return None
        out = []
        for site in g.prov.defsites.get(0, []):
            term = g.prov.def_term(site)
            for val in g.vals_at(site):
                rt = g.resolve_phis(term, val)
                atoms = {a: vs for a, vs in val.items() if a[0] != "def"}
                if rt[0] == "const" and isinstance(rt[2], bool):
                    out.append((atoms, rt[2]))
                    continue
                ba = g.norm_bool(rt)
                if ba is None or ba[0] in ("const", "setatom"):
                    return None
                atom, vt, vf = ba
                for v, res in ((vt, True), (vf, False)):
                    cur = atoms.get(atom)
                    if cur is not None and v not in cur:
                        continue
                    a2 = dict(atoms)
                    a2[atom] = frozenset([v])
                    out.append((a2, res))
        return out or None

    # ------------------------------------------------------------ exploration
    def _kill(self, val, call_bb=None, local=None):
        dead = []
        for a in val:
            if a[0] == "def":
                continue
            d = self.deps.get(a)
            if d is None:
                d = self.deps[a] = self.atom_deps(a)
            if (call_bb is not None and call_bb in d[0]) or (local is not None and local in d[1]):
                dead.append(a)
        for a in dead:
            del val[a]

    def resolve_phis(self, term, val, _busy=frozenset()):
        """Substitute tracked multi-def locals by the definition selected in `val` (where known).
        A loop-carried variable whose selected definition mentions the variable itself (x = x - 1)
        stays symbolic: the inner occurrence denotes the previous value."""
        if not isinstance(term, tuple) or not term:
            return term
        if not _busy:
            term = self.resolve_vals(term, val)
        h = term[0]
        if h == "phi":
            sel = val.get(("def", term[1]))
            if sel is not None and len(sel) == 1 and term[1] not in _busy:
                site = next(iter(sel))
                if site[0] == "param":
                    return ("param", term[1], term[2])
                dt = self.prov.def_term(site)
                if term[1] in P.phi_locals(dt):
                    return term
                return self.resolve_phis(dt, val, _busy | {term[1]})
            return term
        if h == "ok":
            return P.mk_ok(self.resolve_phis(term[1], val, _busy))
        if h == "err":
            return P.mk_err(self.resolve_phis(term[1], val, _busy))
        if h == "mut":
            return (h, term[1], term[2], self.resolve_phis(term[3], val, _busy))
        if h in ("field", "variant"):
            inner = self.resolve_phis(term[1], val, _busy)
            if h == "field":
                return P.mk_field(inner, term[2])
            return P.mk_variant(inner, term[2], "core::option::Option" if len(term) == 4 else None)
        if h == "call":
            return (h, term[1], term[2], tuple(self.resolve_phis(a, val, _busy) for a in term[3]))
        if h == "agg":
            return (h, term[1], tuple((n, self.resolve_phis(v, val, _busy)) for n, v in term[2]))
        if h == "binop":
            return (h, term[1], self.resolve_phis(term[2], val, _busy), self.resolve_phis(term[3], val, _busy))
        if h == "unop":
            return (h, term[1], self.resolve_phis(term[2], val, _busy))
        if h == "cast":
            return (h, self.resolve_phis(term[1], val, _busy), term[2], term[3])
        if h == "discr":
            return (h, self.resolve_phis(term[1], val, _busy)) + tuple(term[2:])
        return term

    def resolve_root(self, term, val):
        """Resolve only the outermost multi-def local (a value bound to a local before it is tested); variables nested
        inside the definition stay symbolic, so the resulting atom is the one a direct test would have produced."""
        seen = set()
        while isinstance(term, tuple) and term and term[0] == "phi" and term[1] not in seen:
            seen.add(term[1])
            sel = val.get(("def", term[1]))
            if sel is None or len(sel) != 1:
                break
            site = next(iter(sel))
            if site[0] == "param":
                return ("param", term[1], term[2])
            dt = self.prov.def_term(site)
            if term[1] in P.phi_locals(dt):
                break
            term = dt
        return term

    def _switch_succ(self, bb, val):
        """[(target, refined valuation dict)]"""
        t = self.body.blocks[bb]["term"]
        info = self.switch_info[bb]
        targets = []
        for a in t["arms"]:
            if a["t"] not in targets:
                targets.append(a["t"])
        if t["otherwise"] not in targets:
            targets.append(t["otherwise"])
        cv = self._eval_op(t["discr"], val)
        if cv is not None and not info.get("log"):
            want = str(int(cv))
            for a in t["arms"]:
                if a["v"] == want:
                    return [(a["t"], val)]
            return [(t["otherwise"], val)]
        if info["kind"] == "opaque":
            return [(x, val) for x in targets]
        if info["kind"] == "atom":
            atom = info["atom"]
            arms = info["arms"]
            if atom[0] == "VARIANT" and atom[1][0] == "agg" and isinstance(atom[1][1], tuple) and atom[1][1][0] == "adt":
                # a match on a literal (`Some(x).filter(..)`, `match Ok(v) {..}`): the arm is static
                vname = atom[1][1][2]
                if atom[1][1][1] in P.STD_SUM_TYPES:
                    vname = norm_variant_name(vname)
                return [(tg, val) for tg, vs in arms.items() if vname in vs]
            if atom[0] == "VARIANT" and atom[1][0] == "sum":
                # the payload of one variant of a multi-def local (Ok(None) on one path, Ok(Some(x)) on another): the
                # definition selected in this valuation says which literal it is
                sel = val.get(("def", atom[1][2]))
                if sel is not None and len(sel) == 1 and next(iter(sel))[0] != "param":
                    dt = self.prov.def_term(next(iter(sel)))
                    if dt[0] == "agg" and isinstance(dt[1], tuple) and dt[1][0] == "adt" and dt[1][2] == atom[1][3] and len(dt[2]) == 1:
                        r = dt[2][0][1]
                        if r[0] == "agg" and isinstance(r[1], tuple) and r[1][0] == "adt":
                            vname = r[1][2]
                            if r[1][1] in P.STD_SUM_TYPES:
                                vname = norm_variant_name(vname)
                            return [(tg, val) for tg, vs in arms.items() if vname in vs]
            if atom[0] == "VARIANT" and atom[1][0] != "phi" and P.phi_locals(atom[1]):
                # a match on a value wrapped around a multi-def local (`helper(..)?` returning Ok(Decision::X) on several
                # paths): if the definitions selected in this valuation make it a literal variant, the arm is static
                r = self.resolve_phis(atom[1], val)
                if r[0] == "call" and r[1] == "rusqlite::OptionalExtension::optional" and r[3]:
                    # optional() turns only Err(QueryReturnedNoRows) into Ok(None); an error handed through from compiling the
                    # statement (prepare / prepare_cached) is never that variant, so optional(Err(e)) stays an Err
                    x = r[3][0]
                    if x[0] == "agg" and isinstance(x[1], tuple) and x[1][0] == "adt" and x[1][2] == "Err" and x[2]:
                        e_ = x[2][0][1]
                        while e_[0] == "err":
                            e_ = e_[1]
                        if e_[0] == "call" and e_[1] in NO_ROWS_IMPOSSIBLE:
                            return [(tg, val) for tg, vs in arms.items() if "err" in vs]
                if r[0] == "agg" and isinstance(r[1], tuple) and r[1][0] == "adt":
                    vname = r[1][2]
                    if r[1][1] in P.STD_SUM_TYPES:
                        vname = norm_variant_name(vname)
                    return [(tg, val) for tg, vs in arms.items() if vname in vs]
                if atom[1][0] == "err" and atom[1][1][0] == "phi":
                    # the error of a Result that reached this local from one call on this path (`result => return result` out
                    # of a retry helper): the test is the test of that call's error, whose variant may already be known.
                    # Only the local itself is read under the valuation; variables inside the call stay symbolic.
                    r1 = self.resolve_root(atom[1][1], val)
                    if r1 != atom[1][1] and r1[0] == "call" and r1[1] != P.FROM_RESIDUAL:
                        atom = ("VARIANT", ("err", P.strip_branch(r1)))
            if atom[0] == "VARIANT" and atom[1][0] == "phi":
                # match on a value computed into a local first: resolve which definition reaches here
                r = self.resolve_root(atom[1], val)
                if r != atom[1]:
                    if r[0] == "agg" and isinstance(r[1], tuple) and r[1][0] == "adt":
                        vname = r[1][2]
                        if r[1][1] in P.STD_SUM_TYPES:
                            vname = norm_variant_name(vname)
                        return [(tg, val) for tg, vs in arms.items() if vname in vs]
                    if r[0] == "call" and r[1] == P.FROM_RESIDUAL:
                        # a value built by `?` from a residual is an Err / None / Break by construction
                        return [(tg, val) for tg, vs in arms.items() if "err" in vs]
                    atom = ("VARIANT", P.strip_ok_preserving(r))
                    if atom not in self.atoms:
                        self.atoms[atom] = [bb]
            if atom[0] == "VARIANT" and atom[1][0] == "call":
                summ = self.value_summary(atom[1])
                if summ is not None and all(rt[0] == "agg" and isinstance(rt[1], tuple) and rt[1][0] == "adt" for _, rt in summ):
                    out = []
                    for sval, rt in summ:
                        vname = rt[1][2]
                        if rt[1][1] in P.STD_SUM_TYPES:
                            vname = norm_variant_name(vname)
                        merged = dict(val)
                        okm = True
                        for a2, vs in sval.items():
                            c2 = merged.get(a2)
                            nv = vs if c2 is None else (vs & c2)
                            if not nv:
                                okm = False
                                break
                            merged[a2] = nv
                            if a2 not in self.atoms:
                                self.atoms[a2] = [bb]
                        if not okm:
                            continue
                        c3 = merged.get(atom)
                        nv3 = frozenset([vname]) if c3 is None else (frozenset([vname]) & c3)
                        if not nv3:
                            continue
                        merged[atom] = nv3
                        merged[("val", atom[1])] = frozenset([rt])
                        for tg, vs in arms.items():
                            if vname in vs:
                                out.append((tg, merged))
                    return out
            cur = val.get(atom)
            out = []
            for tg, vs in arms.items():
                nv = vs if cur is None else (vs & cur)
                if not nv:
                    continue
                v2 = dict(val)
                v2[atom] = nv
                out.append((tg, v2))
            return out
        # bool
        term = info["term"]
        # a bool computed into a local first (`let ok = a || b; if !ok`): resolve which definition reaches;
        # loop variables *inside* comparisons stay symbolic (atoms are about the current value of the variable)
        t0 = term
        while t0[0] == "unop" and t0[1] == "Not":
            t0 = t0[2]
        if t0[0] == "phi":
            term = self.resolve_phis(term, val)
            t0 = term
            while t0[0] == "unop" and t0[1] == "Not":
                t0 = t0[2]
        if t0[0] in ("ok", "err", "field") and P.phi_locals(t0):
            # a bool carried inside a Result / tuple built on another path (`helper(..)?` with `return Ok(true)` /
            # `return Ok(false)` in the spliced helper): under the definitions this valuation selects it is a constant
            r = self.resolve_phis(t0, val)
            if r[0] == "const" and isinstance(r[2], bool):
                neg_ = False
                t1 = term
                while t1[0] == "unop" and t1[1] == "Not":
                    neg_, t1 = not neg_, t1[2]
                term = ("const", None, (not r[2]) if neg_ else r[2], "bool")
                t0 = term
        if t0[0] == "call" and t0[1] in EQ_CALLEES and len(t0[3]) == 2:
            # `a == b` on Option / Result values of which one was built on another path (`known(id) == Some(vid)` with
            # `known` = "nil means None"): under the definitions this valuation selects both sides are literals, and the
            # comparison is the comparison of their variants and payloads
            # (only the value bound to a local is read under the valuation; variables inside it -- a loop variable --
            # stay symbolic, as in every other atom)
            ra, rb_ = self.resolve_root(t0[3][0], val), self.resolve_root(t0[3][1], val)
            red = _eq_literals(ra, rb_, EQ_CALLEES[t0[1]])
            if red is None and ((ra is not t0[3][0] and ra[0] == "const") or (rb_ is not t0[3][1] and rb_[0] == "const")):
                # a constant chosen on another path (`kind.content_type()` for a known kind) compared with something: the
                # comparison with that constant
                red = (t0[0], t0[1], t0[2], (ra if ra[0] == "const" else t0[3][0], rb_ if rb_[0] == "const" else t0[3][1]))
            if red is not None:
                neg_ = False
                t1 = term
                while t1[0] == "unop" and t1[1] == "Not":
                    neg_, t1 = not neg_, t1[2]
                term = ("unop", "Not", red) if neg_ else red
        false_t = None
        for a in t["arms"]:
            if a["v"] == "0":
                false_t = a["t"]
        true_t = t["otherwise"]
        # a call of a workspace-local pure predicate: split on its summary (helper-extracted guards)
        term = self.resolve_vals(term, val)
        pterm, pneg = term, False
        while pterm[0] == "unop" and pterm[1] == "Not":
            pterm, pneg = pterm[2], not pneg
        summ = self.predicate_summary(pterm)
        if summ is not None:
            out = []
            for sval, res in summ:
                res = (not res) if pneg else res
                merged = dict(val)
                okm = True
                for atom, vs in sval.items():
                    cur = merged.get(atom)
                    nv = vs if cur is None else (vs & cur)
                    if not nv:
                        okm = False
                        break
                    merged[atom] = nv
                    if atom not in self.atoms:
                        self.atoms[atom] = [bb]
                tg = true_t if res else false_t
                if okm and tg is not None:
                    out.append((tg, merged))
            return out
        ba = self.norm_bool(term)
        if ba is not None and ba[0] not in ("const", "setatom") and ba[0][0] == "VARIANT" and ba[0][1][0] in ("phi", "sum"):
            # `x.is_none()` / `x.is_some()` on a value bound to a local on another path: the definition selected in this
            # valuation says which variant it is (as for a `match` on the local)
            r = self.resolve_root(ba[0][1], val) if ba[0][1][0] == "phi" else ba[0][1]
            if r[0] == "sum":
                sel = val.get(("def", r[2]))
                if sel is not None and len(sel) == 1 and next(iter(sel))[0] != "param":
                    dt = self.prov.def_term(next(iter(sel)))
                    if dt[0] == "agg" and isinstance(dt[1], tuple) and dt[1][0] == "adt" and dt[1][2] == r[3] and len(dt[2]) == 1:
                        r = dt[2][0][1]
            if r[0] == "agg" and isinstance(r[1], tuple) and r[1][0] == "adt":
                vname = norm_variant_name(r[1][2]) if r[1][1] in P.STD_SUM_TYPES else r[1][2]
                if vname in (ba[1], ba[2]) and ba[1] != ba[2]:
                    return [((true_t if vname == ba[1] else false_t), val)]
            elif r[0] == "call" and r[1] == P.FROM_RESIDUAL and "err" in (ba[1], ba[2]) and ba[1] != ba[2]:
                return [((true_t if ba[1] == "err" else false_t), val)]
        if ba is not None and ba[0] not in ("const", "setatom") and ba[0] not in self.atoms:
            self.atoms[ba[0]] = [bb]
        if ba is None:
            return [(x, val) for x in targets]
        if ba[0] == "const":
            return [((true_t if ba[1] else false_t), val)]
        if ba[0] == "setatom":
            _, atom, st_true, st_false = ba
            if atom not in self.atoms:
                self.atoms[atom] = [bb]
            cur = val.get(atom)
            out = []
            for tg, vs in ((true_t, st_true), (false_t, st_false)):
                if tg is None:
                    continue
                nv = vs if cur is None else (vs & cur)
                if not nv:
                    continue
                v2 = dict(val)
                v2[atom] = nv
                out.append((tg, v2))
            return out
        atom, vt, vf = ba
        cur = val.get(atom)
        out = []
        for tg, v in ((true_t, vt), (false_t, vf)):
            if tg is None:
                continue
            want = frozenset([v])
            nv = want if cur is None else (want & cur)
            if not nv:
                continue
            v2 = dict(val)
            v2[atom] = nv
            out.append((tg, v2))
        return out

    # ------------------------------------------------------------ constant propagation
    @staticmethod
    def _place_key(p):
        path = []
        for e in p["proj"]:
            if e["k"] == "field":
                path.append(e["name"])
            elif e["k"] == "downcast":
                continue             # (x as Variant).f: the parts are recorded per field when the variant value is built
            else:
                return None          # through a reference / index: not tracked
        return (p["l"], tuple(path))

    def _ival(self, val, key):
        vs = val.get(("ival",) + key)
        if vs is not None and len(vs) == 1:
            return next(iter(vs))
        return None

    def _eval_op(self, o, val):
        k = o["k"]
        if k == "const":
            v = o.get("val")
            if v is None and o.get("def"):
                v = self.body.prog.const_value(o["def"])
            if isinstance(v, (int, bool)):
                return v
            return None
        if k in ("copy", "move"):
            key = self._place_key(o["p"])
            if key is None:
                return None
            return self._ival(val, key)
        return None

    def _ival_kill(self, val, key):
        l, path = key
        for a in [a for a in val if a[0] == "ival" and a[1] == l and a[2][:len(path)] == path]:
            del val[a]

    def _ival_set(self, val, key, v):
        if key[0] in self._no_ival or key in self._ival_banned or v is None:
            return
        if isinstance(v, int) and not isinstance(v, bool) and abs(v) > (1 << 40):
            return
        seen = self._ival_seen[key]
        seen.add(v)
        if len(seen) > 64:
            self._ival_banned.add(key)       # not a small constant-bounded counter: stop unrolling on it
            return
        val[("ival",) + key] = frozenset([v])

    def _ival_assign(self, val, p, rv):
        key = self._place_key(p)
        if key is None:
            return
        # evaluate against the OLD values first (`n = n - 1` reads n), then forget what was known about the target
        old = dict(val)
        self._ival_kill(val, key)
        new = dict(val)
        val.clear()
        val.update(old)
        try:
            self._ival_assign2(val, new, key, rv)
        finally:
            val.clear()
            val.update(new)

    def _ival_assign2(self, val, out, key, rv):
        """Evaluate rv under `val` (the state before the assignment) and record the results into `out`."""
        _set = lambda k_, v_: self._ival_set(out, k_, v_)  # noqa: E731
        k = rv["k"]
        if k == "use":
            v = self._eval_op(rv["op"], val)
            if v is not None:
                _set(key, v)
            elif rv["op"]["k"] in ("copy", "move"):
                src = self._place_key(rv["op"]["p"])
                if src is not None:          # a structured value: copy what is known about its parts
                    for a, vs in list(val.items()):
                        if a[0] == "ival" and a[1] == src[0] and a[2][:len(src[1])] == src[1] and len(vs) == 1:
                            _set((key[0], key[1] + a[2][len(src[1]):]), next(iter(vs)))
        elif k == "cast" and rv.get("ck") in ("IntToInt",):
            v = self._eval_op(rv["op"], val)
            if v is not None:
                _set(key, int(v))
        elif k == "unop":
            v = self._eval_op(rv["a"], val)
            if v is not None and rv["op"] == "Not" and isinstance(v, bool):
                _set(key, not v)
            elif v is not None and rv["op"] == "Neg" and not isinstance(v, bool):
                _set(key, -v)
        elif k == "binop":
            a, b = self._eval_op(rv["a"], val), self._eval_op(rv["b"], val)
            if a is None or b is None:
                return
            op = rv["op"]
            base = op.replace("WithOverflow", "").replace("Unchecked", "")
            r = None
            if base == "Add":
                r = a + b
            elif base == "Sub":
                r = a - b
            elif base == "Mul":
                r = a * b
            elif base in ("Lt", "Le", "Gt", "Ge", "Eq", "Ne"):
                r = {"Lt": a < b, "Le": a <= b, "Gt": a > b, "Ge": a >= b, "Eq": a == b, "Ne": a != b}[base]
            if r is None:
                return
            if op.endswith("WithOverflow"):
                _set((key[0], key[1] + ("0",)), r)
                _set((key[0], key[1] + ("1",)), False)
            else:
                _set(key, r)
        elif k == "aggregate" and rv.get("ak") in ("adt", "tuple"):
            names = rv.get("fields") if rv.get("ak") == "adt" else [str(i) for i in range(len(rv["ops"]))]
            if names and len(names) == len(rv["ops"]):
                for n_, o in zip(names, rv["ops"]):
                    v = self._eval_op(o, val)
                    if v is not None:
                        _set((key[0], key[1] + (n_,)), v)
                    elif o["k"] in ("copy", "move"):
                        src = self._place_key(o["p"])
                        if src is not None:
                            for a, vs in list(val.items()):
                                if a[0] == "ival" and a[1] == src[0] and a[2][:len(src[1])] == src[1] and len(vs) == 1:
                                    _set((key[0], key[1] + (n_,) + a[2][len(src[1]):]), next(iter(vs)))

    def _explore(self):
        body, pv = self.body, self.prov
        start = (0, frozenset())
        work = [start]
        self.states.add(start)
        while work:
            st = work.pop()
            bb, fv = st
            val = dict(fv)
            b = body.blocks[bb]
            for i, s in enumerate(b["stmts"]):
                if s["k"] != "assign":
                    continue
                p = s["p"]
                self._ival_assign(val, p, s["rv"])
                if p["proj"]:
                    continue
                l = p["l"]
                if l == 0 or l in self.tracked:
                    self.site_vals[(bb, i)].add(frozenset(val.items()))
                if l in pv.phi_locals or l == 0:
                    self._kill(val, local=l)
                    if l in self.tracked:
                        val[("def", l)] = frozenset([(bb, i)])
            t = b["term"]
            k = t["k"]
            self.site_vals[(bb, "T")].add(frozenset(val.items()))
            succ = []
            if k == "switch":
                succ = self._switch_succ(bb, val)
            else:
                if k in ("call", "yield"):
                    self._kill(val, call_bb=bb)
                    dest = t["dest"] if k == "call" else t["resume_arg"]
                    dk = self._place_key(dest)
                    if dk is not None:
                        self._ival_kill(val, dk)
                    if not dest["proj"]:
                        l = dest["l"]
                        if l in pv.phi_locals or l == 0:
                            self._kill(val, local=l)
                            if l in self.tracked:
                                val[("def", l)] = frozenset([(bb, "T")])
                for s in body.succs(bb):
                    succ.append((s, val))
            for s, v2 in succ:
                if body.is_cleanup(s):
                    continue
                ns = (s, frozenset(v2.items()))
                self.edges[st].add(ns)
                if ns not in self.states:
                    self.states.add(ns)
                    if len(self.states) > self.max_states:
                        raise StateSpaceExceeded("%s: more than %d product states" % (body.deff, self.max_states))
                    work.append(ns)

    # ------------------------------------------------------------ queries
    def vals_at(self, site):
        """List of valuations (dicts) with which `site` = (bb, idx|'T') is reached (before it executes)."""
        return [dict(v) for v in self.site_vals.get(site, ())]

    def reached(self, site):
        return site in self.site_vals

    def states_at_block(self, bb):
        return [s for s in self.states if s[0] == bb]

    def forward(self, from_states):
        seen = set(from_states)
        st = list(from_states)
        while st:
            x = st.pop()
            for y in self.edges.get(x, ()):
                if y not in seen:
                    seen.add(y)
                    st.append(y)
        return seen

    def may_follow(self, bb_a, bb_b):
        """True iff some product path executes block a and later block b (a != b or via a cycle)."""
        starts = set()
        for s in self.states_at_block(bb_a):
            starts |= self.edges.get(s, set())
        return any(s[0] == bb_b for s in self.forward(starts))

    def must_precede(self, bb_a, bb_b):
        """True iff every product path from entry to block b passes block a (a dominates b in the product)."""
        # remove a-states, see whether b is still reachable
        start = (0, frozenset())
        if bb_a == 0:
            return True
        seen = {start}
        st = [start]
        while st:
            x = st.pop()
            if x[0] == bb_b:
                return False
            for y in self.edges.get(x, ()):
                if y[0] == bb_a or y in seen:
                    continue
                seen.add(y)
                st.append(y)
        return True


# ---------------------------------------------------------------- 3-valued formulas over valuations
def ev(formula, val):
    """formula: ('is', atom, value) | ('and', f..) | ('or', f..) | ('not', f) | True | False.
    Returns True / False / None (unknown)."""
    if formula is True or formula is False:
        return formula
    h = formula[0]
    if h == "is":
        vs = val.get(formula[1])
        if vs is None and formula[1][0] == "EQ":
            d = derive_eq(val, formula[1])
            if d is not None:
                vs = frozenset([d])
        if vs is None:
            return None
        if formula[2] not in vs:
            return False
        if len(vs) == 1:
            return True
        return None
    if h == "not":
        r = ev(formula[1], val)
        return None if r is None else (not r)
    if h == "and":
        res = True
        for f in formula[1:]:
            r = ev(f, val)
            if r is False:
                return False
            if r is None:
                res = None
        return res
    if h == "or":
        res = False
        for f in formula[1:]:
            r = ev(f, val)
            if r is True:
                return True
            if r is None:
                res = None
        return res
    raise ValueError(formula)


def derive_eq(val, atom):
    """Value of an undetermined equality atom that follows from the determined ones by reflexivity, symmetry and
    transitivity of equality (x == z and y != z  =>  x != y;  x == z and y == z  =>  x == y)."""
    parent = {}

    def find(x):
        while parent.get(x, x) != x:
            x = parent[x]
        return x
    eqs, neqs = [], []
    for a, vs in val.items():
        if a[0] == "EQ" and len(vs) == 1:
            (eqs if next(iter(vs)) is True else neqs).append((a[1], a[2]))
    for x, y in eqs:
        rx, ry = find(x), find(y)
        if rx != ry:
            parent[rx] = ry
    x, y = find(atom[1]), find(atom[2])
    if x == y:
        return True
    for p_, q_ in neqs:
        rp, rq = find(p_), find(q_)
        if (rp, rq) in ((x, y), (y, x)):
            return False
    return None


def eq_consistent(val):
    """False iff the determined equality atoms contradict each other (x == y chained to a pair known to differ)."""
    parent = {}

    def find(x):
        while parent.get(x, x) != x:
            x = parent[x]
        return x
    neqs = []
    for a, vs in val.items():
        if a[0] == "EQ" and len(vs) == 1:
            if next(iter(vs)) is True:
                rx, ry = find(a[1]), find(a[2])
                if rx != ry:
                    parent[rx] = ry
            else:
                neqs.append((a[1], a[2]))
    return all(find(p_) != find(q_) for p_, q_ in neqs)


def show_val(val):
    items = []
    for a, vs in sorted(val.items(), key=lambda kv: repr(kv[0])):
        if a[0] == "def":
            items.append("def(_%d)=%s" % (a[1], ",".join("bb%s.%s" % (s[0], s[1]) for s in sorted(vs, key=repr))))
        else:
            items.append("%s=%s" % (show_atom(a), "|".join(str(v) for v in sorted(vs, key=repr))))
    return "{" + "; ".join(items) + "}"


def show_atom(a):
    h = a[0]
    if h == "EQ":
        return "EQ(%s, %s)" % (P.show(a[1]), P.show(a[2]))
    if h == "CMP":
        return "%s(%s, %s)" % (a[1], P.show(a[2]), P.show(a[3]))
    if h == "VARIANT":
        return "VARIANT(%s)" % P.show(a[1])
    if h == "PRED":
        return "%s(%s)" % (P.short_callee(a[1]), ", ".join(P.show(x) for x in a[2]))
    if h == "INT":
        return "INT(%s)" % P.show(a[1])
    return str(a)
