"""A4: provenance terms (flow-sensitive backward slice over MIR facts).

Terms (hashable nested tuples):
  ('param', l, name)            function parameter (local l)
  ('upvar', i, name)            closure/coroutine capture i
  ('const', def|None, val|None, ty)
  ('fn', path)                  function item / closure constant
  ('call', callee, bb, args)    value returned by the call terminating block bb (callee = declared def path)
  ('ok', t) / ('err', t)        success / failure payload of a Result|Option|ControlFlow valued term
  ('field', t, name)  ('variant', t, name)
  ('agg', tag, ((fname, t), ...))   tag = 'tuple' | 'array' | ('adt', path, variant) | ('closure', def)
  ('binop', op, a, b) ('unop', op, a) ('cast', t, ty, ck) ('discr', t, variants)
  ('phi', l, name)              local with several definitions (resolved path-sensitively by gea)
  ('resume', bb)                value a coroutine is resumed with
  ('mut', l, name, base)        local handed out by `&mut` (see Prov.mutators): base value + mutator log
  ('unknown', why)
References and dereferences are transparent (a term denotes the value or the place it lives in).
"""

# callee -> index of the argument whose value the call returns unchanged (identity transports)
TRANSPARENT = {
    "core::clone::Clone::clone": 0,
    "core::ops::deref::Deref::deref": 0,
    "core::ops::deref::DerefMut::deref_mut": 0,
    "core::convert::AsRef::as_ref": 0,
    "core::convert::AsMut::as_mut": 0,
    "core::borrow::Borrow::borrow": 0,
    "core::borrow::BorrowMut::borrow_mut": 0,
    "core::option::Option::<T>::as_ref": 0,
    "core::option::Option::<T>::as_mut": 0,
    "core::option::Option::<&T>::cloned": 0,
    "core::option::Option::<&T>::copied": 0,
    "core::option::Option::<&mut T>::cloned": 0,
    "core::option::Option::<&mut T>::copied": 0,
    "alloc::boxed::Box::<T>::new": 0,
    "alloc::borrow::ToOwned::to_owned": 0,
    "alloc::slice::<impl [T]>::to_vec": 0,
    "core::pin::Pin::<Ptr>::new_unchecked": 0,
    "core::pin::Pin::<Ptr>::new": 0,
    "core::future::into_future::IntoFuture::into_future": 0,
    "core::iter::traits::collect::IntoIterator::into_iter": 0,
    "core::convert::identity": 0,
    "bytes::bytes_mut::BytesMut::freeze": 0,
    # Hyphenated's Display prints exactly what Uuid's Display prints (uuid crate: Display for Uuid delegates to it);
    # the other adapters (simple / urn / braced) are different texts and are NOT transparent
    "uuid::fmt::<impl uuid::Uuid>::hyphenated": 0,
    "uuid::fmt::<impl uuid::Uuid>::as_hyphenated": 0,
    "core::hint::must_use": 0,
    "anyhow::__private::must_use": 0,
    # views of the same object (`boxed.as_mut()` is the pointee; terms are transparent for borrows and smart pointers)
    "core::convert::AsMut::as_mut": 0,
    "core::convert::AsRef::as_ref": 0,
}

BYTE_CONTAINERS = {"bytes::bytes_mut::BytesMut", "bytes::bytes::Bytes", "alloc::vec::Vec<u8>"}
# two spellings of one library operation (chrono: `impl Sub<DateTime<Tz>> for DateTime<Tz>` is defined as
# `self.signed_duration_since(rhs)`)
CALLEE_ALIASES = {"chrono::datetime::DateTime::<Tz>::signed_duration_since": "core::ops::arith::Sub::sub"}
BUILDER_PREFIX = "actix_web::response::builder::HttpResponseBuilder::"
NOT_CALLEES = {"anyhow::__private::not", "core::ops::bit::Not::not"}

# adapters that preserve the success payload: ok(adapter(x, ..)) == ok(x)
OK_PRESERVING = {
    "core::option::Option::<T>::ok_or",
    "core::option::Option::<T>::ok_or_else",
    "core::result::Result::<T, E>::map_err",
    "anyhow::Context::context",
    "anyhow::Context::with_context",
    "core::ops::try_trait::Try::branch",
}

FROM_RESIDUAL = "core::ops::try_trait::FromResidual::from_residual"
OK_VARIANTS = {"Ok", "Some", "Continue", "Ready"}
ERR_VARIANTS = {"Err", "Break"}


def is_unit_ty(ty):
    return ty == "()"


class Prov:
    def __init__(self, body, transparent=None):
        self.body = body
        self.transparent = dict(TRANSPARENT)
        if transparent:
            self.transparent.update(transparent)
        self.nblocks = len(body.blocks)
        self.live = self._live_blocks()
        self.defsites = {}      # local -> list of whole-def sites
        self.partial = {}       # local -> list of partial-def sites
        self.stores = []        # (site, place_json, rvalue_json) assignments through a deref
        self.mutborrow = {}     # local -> list of sites where &mut local (or a projection) is taken
        self._collect_defs()
        self.phi_locals = set(
            l for l, ds in self.defsites.items()
            if len(ds) + (1 if l <= body.arg_count and l >= 1 else 0) > 1
            and not is_unit_ty(body.locals[l]["ty"])
        )
        # unit-typed multi-def locals are irrelevant; single-def + partial defs -> phi as well
        for l in self.partial:
            if not is_unit_ty(body.locals[l]["ty"]):
                self.phi_locals.add(l)
        self.memo = {}
        self._sum_memo = {}
        self._enum_memo = {}
        self._constphi_busy = set()
        self._sum_busy = set()

    # ------------------------------------------------------------------ defs
    def _live_blocks(self):
        seen = set()
        st = [0]
        while st:
            b = st.pop()
            if b in seen or self.body.is_cleanup(b):
                continue
            seen.add(b)
            st.extend(self.body.succs(b))
        return seen

    def _collect_defs(self):
        body = self.body
        for b in body.blocks:
            bb = b["i"]
            if bb not in self.live:
                continue
            for i, s in enumerate(b["stmts"]):
                if s["k"] != "assign":
                    continue
                p = s["p"]
                self._record_def(p, (bb, i), s)
                rv = s["rv"]
                if rv["k"] == "ref" and rv["bk"] == "mut" and not any(e["k"] == "deref" for e in rv["p"]["proj"]):
                    self.mutborrow.setdefault(rv["p"]["l"], []).append((bb, i))
            t = b["term"]
            if t["k"] == "call":
                self._record_def(t["dest"], (bb, "T"), t)
            elif t["k"] == "yield":
                self._record_def(t["resume_arg"], (bb, "T"), t)

    def _record_def(self, p, site, node):
        l = p["l"]
        if not p["proj"]:
            self.defsites.setdefault(l, []).append(site)
        elif any(e["k"] == "deref" for e in p["proj"]):
            self.stores.append((site, p, node))
        else:
            self.partial.setdefault(l, []).append(site)

    def node_at(self, site):
        bb, i = site
        b = self.body.blocks[bb]
        return b["term"] if i == "T" else b["stmts"][i]

    # ------------------------------------------------------------------ terms
    def sum_summary(self, l):
        """A multi-def local whose every definition builds a literal Option/Result/Poll value (the shape a desugared
        combinator or a spliced multi-return helper leaves): ((variant, payload term), ...) for the variants whose
        payload is the same at every definition; None when some definition is not such a literal."""
        if l in self._sum_memo:
            return self._sum_memo[l]
        if l in self._sum_busy or (1 <= l <= self.body.arg_count) or l in self.partial or l in self.mutborrow:
            return None
        self._sum_busy.add(l)
        try:
            per = {}
            okay = True
            for site in self.defsites.get(l, []):
                node = self.node_at(site)
                if site[1] == "T" and node["k"] == "call" and node["callee"].get("def") == FROM_RESIDUAL \
                        and self.body.locals[l]["ty"].startswith("core::result::Result<"):
                    per.setdefault("Err", set()).add(self.def_term(site))      # `?`: an Err built from the residual
                    continue
                if site[1] != "T" and node["rv"]["k"] == "use" and node["rv"]["op"]["k"] in ("copy", "move") \
                        and not node["rv"]["op"]["p"]["proj"]:
                    # a copy of another local of the same shape (the value of an `if let .. else ..` expression)
                    src = node["rv"]["op"]["p"]["l"]
                    hops = 0
                    while src not in self.phi_locals and len(self.defsites.get(src, [])) == 1 and hops < 6 and not (1 <= src <= self.body.arg_count):
                        # a chain of plain moves down to the local that carries the value
                        n3 = self.node_at(self.defsites[src][0])
                        if self.defsites[src][0][1] != "T" and n3["rv"]["k"] == "use" and n3["rv"]["op"]["k"] in ("copy", "move") \
                                and not n3["rv"]["op"]["p"]["proj"]:
                            src = n3["rv"]["op"]["p"]["l"]
                            hops += 1
                        else:
                            break
                    sub = self.sum_summary(src) if src in self.phi_locals else None
                    if sub is None and src not in self.phi_locals and len(self.defsites.get(src, [])) == 1:
                        n2 = self.node_at(self.defsites[src][0])
                        if self.defsites[src][0][1] != "T" and n2["rv"]["k"] == "aggregate" and n2["rv"].get("ak") == "adt" \
                                and self._sum_adt(n2["rv"].get("adt")) and len(n2["rv"]["ops"]) <= 1:
                            sub = ((n2["rv"]["variant"], self.operand_term(n2["rv"]["ops"][0]) if n2["rv"]["ops"] else ("unit",)),)
                    if sub is None:
                        lty = self.body.locals[l]["ty"]
                        x = self.def_term(site)
                        if x[0] == "call" and x[1] != FROM_RESIDUAL and lty.startswith("core::result::Result<"):
                            sub = (("Ok", mk_ok(x)), ("Err", mk_err(x)))
                        elif x[0] == "call" and lty.startswith("core::option::Option<"):
                            sub = (("Some", mk_ok(x)), ("None", ("unit",)))
                    if sub is None:
                        okay = False
                        break
                    for v, pl in sub:
                        if v.startswith("?"):
                            per.setdefault(v[1:], set()).update([("ambiguous", 0), ("ambiguous", 1)])
                        else:
                            per.setdefault(v, set()).add(pl)
                    continue
                if site[1] == "T" or node["rv"]["k"] != "aggregate" or node["rv"].get("ak") != "adt" \
                        or not self._sum_adt(node["rv"].get("adt")) or len(node["rv"]["ops"]) > 1:
                    # a Result / Option that is not built here but obtained (the result of a call, a value moved in): on the
                    # paths where it is the live definition its Ok payload is ok(X) and its error err(X)
                    lty = self.body.locals[l]["ty"]
                    x = self.def_term(site)
                    if x[0] in ("call",) and x[1] != FROM_RESIDUAL and (lty.startswith("core::result::Result<") or lty.startswith("core::option::Option<")):
                        if lty.startswith("core::result::Result<"):
                            per.setdefault("Ok", set()).add(mk_ok(x))
                            per.setdefault("Err", set()).add(mk_err(x))
                        else:
                            per.setdefault("Some", set()).add(mk_ok(x))
                            per.setdefault("None", set()).add(("unit",))
                        continue
                    okay = False
                    break
                rv = node["rv"]
                pl = self.operand_term(rv["ops"][0]) if rv["ops"] else ("unit",)
                per.setdefault(rv["variant"], set()).add(pl)
            res = None
            if okay and per:
                res = tuple(sorted((v, next(iter(ps))) for v, ps in per.items() if len(ps) == 1))
                for v, ps in sorted(per.items()):
                    if len(ps) == 1:
                        continue
                    nested = nested_sum(ps, l, v, self._sum_adt)
                    if nested is not None:
                        # Ok(None) on one path, Ok(Some(x)) on another: the payload of Ok is itself a value of known
                        # variants (a spliced helper returning Result<Option<T>>)
                        res = res + ((v, nested),)
                    else:
                        res = res + (("?" + v, ("unit",)),)
                res = tuple(sorted(res))
        finally:
            self._sum_busy.discard(l)
        self._sum_memo[l] = res
        return res

    def _sum_adt(self, adt):
        """Option / Result / ControlFlow / Poll, or a workspace enum (a private decision type such as
        `enum Placement { Root(Id), Child(Id), Conflict(Id) }` returned by a spliced helper)."""
        if adt in STD_SUM_TYPES:
            return True
        if adt not in self._enum_memo:
            a = self.body.prog.adt(adt) if isinstance(adt, str) else None
            self._enum_memo[adt] = bool(a is not None and a.get("kind") == "Enum" and a["def"] == adt)
        return self._enum_memo[adt]

    def local_term(self, l):
        body = self.body
        if l in self.phi_locals:
            sm = self.sum_summary(l)
            if sm:
                return ("phi", l, body.name_of(l) or "_%d" % l, sm)
            if l not in self._constphi_busy and not (1 <= l <= body.arg_count) and l not in self.mutborrow and l not in self.partial \
                    and body.locals[l]["ty"] in INT_TYPES:
                # the same compile-time constant on every path (`match kind { A => 100 * 1024 * 1024, B => 100 * 1024 * 1024 }`)
                self._constphi_busy.add(l)
                try:
                    ts = set(self.def_term(d) for d in self.defsites.get(l, []) if d[1] != "T")
                    if len(ts) == 1 and len(self.defsites.get(l, [])) >= 1 and all(d[1] != "T" for d in self.defsites.get(l, [])):
                        t = next(iter(ts))
                        if const_only(t):
                            return t
                finally:
                    self._constphi_busy.discard(l)
            return ("phi", l, body.name_of(l) or "_%d" % l)
        if 1 <= l <= body.arg_count:
            return ("param", l, body.name_of(l) or "_%d" % l)
        ds = self.defsites.get(l, [])
        if len(ds) == 1:
            t = self.def_term(ds[0])
            if l in self.mutborrow:
                if body.locals[l]["ty"].startswith("{closure@") and not self.mutators(l):
                    # a closure value whose `&mut` borrow only served to call it, and the call was spliced: its captures are read,
                    # nothing receives the borrow any more
                    return t
                # the local is handed out by `&mut`: its value is base + the logged mutator calls
                return ("mut", l, body.name_of(l) or "_%d" % l, t)
            return t
        if not ds:
            if l == 0:
                return ("unknown", "return place read")
            return ("unknown", "no def of _%d" % l)
        return ("phi", l, body.name_of(l) or "_%d" % l)

    def def_term(self, site):
        if site in self.memo:
            return self.memo[site]
        self.memo[site] = ("unknown", "cycle")
        node = self.node_at(site)
        bb, i = site
        if i == "T":
            if node["k"] == "call":
                t = self.call_term(bb, node)
            else:
                t = ("resume", bb)
        else:
            t = self.rvalue_term(node["rv"])
        self.memo[site] = t
        return t

    def call_term(self, bb, node):
        c = node["callee"]
        callee = c.get("def") or "<indirect>"
        args = tuple(self.operand_term(a) for a in node["args"])
        if callee in self.transparent and len(args) > self.transparent[callee]:
            return args[self.transparent[callee]]
        if callee in ("core::convert::From::from", "core::convert::Into::into") and len(args) == 1 and node["args"][0]["k"] != "const":
            # conversions between byte containers carry the same bytes (BytesMut / Bytes / Vec<u8>)
            st = node["args"][0]["p"]["ty"].lstrip("&").replace("mut ", "", 1)
            if st in BYTE_CONTAINERS and node["dest"]["ty"] in BYTE_CONTAINERS:
                return args[0]
        if callee == "alloc::fmt::format" and len(args) == 1:
            # format!("{}", x) is x.to_string(): the template bytes [0xC0, 0] are "one argument, default formatting, end"
            a = args[0]
            if a[0] == "call" and a[1] == "core::fmt::Arguments::<'a>::new" and len(a[3]) == 2 and a[3][0][0] == "const" \
                    and a[3][0][2] == ("bytes", 192, 0):
                arr = a[3][1]
                while arr[0] == "mut":
                    arr = arr[3]
                if arr[0] == "agg" and arr[1] == "array" and len(arr[2]) == 1:
                    e = arr[2][0][1]
                    if e[0] == "call" and e[1] == "core::fmt::rt::Argument::<'_>::new_display" and len(e[3]) == 1:
                        return ("call", "alloc::string::ToString::to_string", bb, (e[3][0],))
        if callee in NOT_CALLEES and len(args) == 1 and node["dest"]["ty"] == "bool":
            return ("unop", "Not", args[0])       # `ensure!(cond)` tests `anyhow::__private::not(cond)`
        callee = CALLEE_ALIASES.get(callee, callee)
        return ("call", callee, bb, args)

    def operand_term(self, o):
        k = o["k"]
        if k in ("copy", "move"):
            return self.place_term(o["p"])
        if k == "const":
            if "fn" in o:
                return ("fn", o["fn"])
            if "closure" in o:
                return ("fn", o["closure"])
            d = o.get("def")
            v = o.get("val")
            if v is None and "bytes" in o:
                v = ("bytes",) + tuple(o["bytes"])
            if v is None and d is not None:
                rec = self.body.prog.consts.get(d)
                if rec is not None and isinstance(rec.get("fields"), list):
                    # a named tuple constant, e.g. `const NO_CACHING: (&str, &str) = (..)`: the tuple of its field values
                    return ("agg", "tuple", tuple((str(i), ("const", None, f.get("val"), f.get("ty", "?"))) for i, f in enumerate(rec["fields"])))
            if v is None and d is not None and d in self.body.prog.bodies and d != self.body.deff:
                # a named array / tuple constant whose initialiser is a literal aggregate of constants
                # (`const SQL_CREATE_SCHEMA: [&str; 3] = [..]`): the aggregate of its element values
                cb = self.body.prog.bodies[d]
                if cb.kind.startswith(("Const", "AssocConst")) and len(cb.blocks) == 1 and cb.blocks[0]["term"]["k"] == "return":
                    st = [x for x in cb.blocks[0]["stmts"] if x["k"] == "assign" and not x["p"]["proj"]]
                    bydef = {}
                    for x in st:
                        bydef.setdefault(x["p"]["l"], []).append(x["rv"])
                    # `const X: [&str; 3] = [..]` or `const X: &[&str] = &[..]` (array, borrowed, unsized): follow _0 back to the literal
                    cur, hops = 0, 0
                    while hops < 6 and len(bydef.get(cur, [])) == 1:
                        hops += 1
                        rv_ = bydef[cur][0]
                        if rv_["k"] == "aggregate" and rv_["ak"] in ("array", "tuple") and all(o["k"] == "const" and "val" in o for o in rv_["ops"]):
                            return ("agg", rv_["ak"], tuple((str(i), ("const", None, o["val"], o["ty"])) for i, o in enumerate(rv_["ops"])))
                        if rv_["k"] == "aggregate" and rv_["ak"] == "adt" and not rv_["ops"] and rv_.get("variant") is not None:
                            # `const MIN_REQUESTED_URGENCY: SnapshotUrgency = SnapshotUrgency::Low`: the unit variant itself
                            return ("agg", ("adt", rv_["adt"], rv_["variant"]), ())
                        if rv_["k"] == "use" and rv_["op"]["k"] in ("copy", "move") and all(e["k"] == "deref" for e in rv_["op"]["p"]["proj"]):
                            cur = rv_["op"]["p"]["l"]
                        elif rv_["k"] == "ref" and all(e["k"] == "deref" for e in rv_["p"]["proj"]):
                            cur = rv_["p"]["l"]
                        elif rv_["k"] == "cast" and str(rv_.get("ck", "")).startswith("ptr:Unsize") and rv_["op"]["k"] in ("copy", "move") \
                                and not rv_["op"]["p"]["proj"]:
                            cur = rv_["op"]["p"]["l"]
                        else:
                            break
            if d is not None and v is None:
                v = self.body.prog.const_value(d)
            if isinstance(v, list):
                v = tuple(v)
            return ("const", d, v, o["ty"])
        return ("unknown", "operand")

    def place_term(self, p):
        body = self.body
        l = p["l"]
        proj = list(p["proj"])
        # closure / coroutine captures: _1.<i> (possibly through a deref of the env reference)
        if l == 1 and body.kind == "Closure":
            pr = [e for e in proj]
            j = 0
            while j < len(pr) and pr[j]["k"] == "deref":
                j += 1
            if j < len(pr) and pr[j]["k"] == "field" and pr[j].get("upvar"):
                t = ("upvar", pr[j]["i"], body.upvar_names.get(pr[j]["i"], "upvar%d" % pr[j]["i"]))
                return self.apply_proj(t, pr[j + 1:])
        t = self.local_term(l)
        if body.locals[l]["ty"].startswith("core::result::Result<core::convert::Infallible,"):
            # the residual of `?` is Err(e) by construction and is written err(X) like the error e itself: its Err payload
            # is that same term (a `?` written out as Err(From::from(e)) by the shape normaliser reads it this way)
            pr = [e for e in proj if e["k"] != "deref"]
            if len(pr) >= 2 and pr[0]["k"] == "downcast" and pr[0]["name"] == "Err" and pr[1]["k"] == "field" and pr[1].get("name") == "0" \
                    and not (t[0] == "agg" and isinstance(t[1], tuple) and t[1][0] == "adt" and t[1][1] == "core::result::Result"):
                return self.apply_proj(t, pr[2:])
        return self.apply_proj(t, proj)

    def _field_mut_borrowed(self, l, fname):
        """Is local l borrowed mutably as a whole, or through field `fname`?"""
        for site in self.mutborrow.get(l, []):
            node = self.node_at(site)
            pr = [e for e in node["rv"]["p"]["proj"]]
            if not pr or pr[0].get("k") != "field" or pr[0].get("name") == fname:
                return True
        return False

    def apply_proj(self, t, proj):
        for e in proj:
            k = e["k"]
            if k == "deref":
                continue
            if k == "field":
                if t[0] == "mut" and t[3][0] == "agg" and not self._field_mut_borrowed(t[1], e["name"]):
                    # a field of a struct local of which only OTHER fields are handed out by `&mut` (`session.client` when only
                    # `session.txn` is borrowed mutably): the plain field value
                    hit = [v for n, v in t[3][2] if n == e["name"]]
                    if hit:
                        t = hit[0]
                        continue
                if t[0] == "const" and t[1] is not None and t[2] is None:
                    # the only field of a scalar newtype constant (`const MAX_SIZE: BodyLimit = BodyLimit::mebibytes(100)`):
                    # the evaluated constant has the field's value
                    rec = self.body.prog.consts.get(t[1]) or {}
                    adt = self.body.prog.adt(t[3]) if isinstance(t[3], str) and "::" in t[3] else None
                    if isinstance(rec.get("bits"), int) and adt is not None and adt.get("kind") == "Struct" \
                            and len(adt["variants"]) == 1 and len(adt["variants"][0]["fields"]) == 1:
                        t = ("const", t[1], rec["bits"], adt["variants"][0]["fields"][0]["ty"])
                        continue
                t = mk_field(t, e["name"])
            elif k == "downcast":
                t = mk_variant(t, e["name"], e.get("adt"))
            elif k == "index":
                t = ("index", t, self.local_term(e["l"]))
            elif k == "constindex":
                t = ("index", t, ("const", None, e["offset"], "usize"))
            elif k == "subslice":
                t = ("subslice", t, e["from"], e["to"], e["from_end"])
            else:
                t = ("proj", t, k)
        return t

    def rvalue_term(self, rv):
        k = rv["k"]
        if k == "use":
            return self.operand_term(rv["op"])
        if k in ("ref", "rawptr"):
            return self.place_term(rv["p"])
        if k == "cast":
            inner = self.operand_term(rv["op"])
            ck = rv["ck"]
            if ck.startswith("ptr:Unsize") or ck.startswith("ptr:MutToConstPointer") or ck == "Transmute" and False:
                return inner
            if ck.startswith("ptr:ReifyFnPointer") or ck.startswith("ptr:ClosureFnPointer"):
                return inner
            return ("cast", inner, rv["ty"], ck)
        if k == "binop":
            return ("binop", rv["op"], self.operand_term(rv["a"]), self.operand_term(rv["b"]))
        if k == "unop":
            return ("unop", rv["op"], self.operand_term(rv["a"]))
        if k == "discriminant":
            vs = tuple((v["discr"], v["name"]) for v in rv.get("variants", []))
            return ("discr", self.place_term(rv["p"]), vs, rv.get("adt"))
        if k == "aggregate":
            ak = rv["ak"]
            ops = [self.operand_term(o) for o in rv["ops"]]
            if ak == "adt":
                names = rv["fields"]
                if len(names) != len(ops):
                    names = [str(i) for i in range(len(ops))]
                return ("agg", ("adt", rv["adt"], rv["variant"]), tuple(zip(names, ops)))
            if ak == "closure" or ak == "coroutine" or ak == "coroutineclosure":
                return ("agg", ("closure", rv["def"]), tuple((str(i), o) for i, o in enumerate(ops)))
            return ("agg", ak, tuple((str(i), o) for i, o in enumerate(ops)))
        if k == "repeat":
            return ("repeat", self.operand_term(rv["op"]), rv["n"])
        return ("unknown", "rvalue:" + k)

    # ------------------------------------------------------------------ queries
    def arg_terms(self, bb):
        t = self.body.blocks[bb]["term"]
        return [self.operand_term(a) for a in t["args"]]

    def mutators(self, l):
        """Calls that receive a `&mut` reference to local l (directly or through reborrows):
        [(bb, callee, arg index)] in block order."""
        body = self.body
        refs = set()
        changed = True
        while changed:
            changed = False
            for b in body.blocks:
                if b["i"] not in self.live:
                    continue
                for s in b["stmts"]:
                    if s["k"] != "assign" or s["p"]["proj"]:
                        continue
                    d = s["p"]["l"]
                    if d in refs:
                        continue
                    rv = s["rv"]
                    src = None
                    if rv["k"] == "ref" and rv["bk"] == "mut":
                        pl = rv["p"]
                        if pl["l"] == l and not any(e["k"] == "deref" for e in pl["proj"]):
                            src = True
                        elif pl["l"] in refs and all(e["k"] == "deref" for e in pl["proj"]):
                            src = True
                    elif rv["k"] == "use" and rv["op"]["k"] in ("copy", "move"):
                        pl = rv["op"]["p"]
                        if pl["l"] in refs and not pl["proj"]:
                            src = True
                    if src:
                        refs.add(d)
                        changed = True
                t = b["term"]
                if t["k"] == "call" and not t["dest"]["proj"] and t["dest"]["l"] not in refs:
                    c = t["callee"].get("def")
                    if c in self.transparent:
                        a = t["args"][self.transparent[c]] if len(t["args"]) > self.transparent[c] else None
                        if a is not None and a["k"] in ("copy", "move") and a["p"]["l"] in refs and not a["p"]["proj"]:
                            refs.add(t["dest"]["l"])
                            changed = True
                    elif c and c.startswith(BUILDER_PREFIX) and t["args"] and t["args"][0]["k"] in ("copy", "move") \
                            and t["args"][0]["p"]["l"] in refs and not t["args"][0]["p"]["proj"] \
                            and t["dest"]["ty"] == t["args"][0]["p"].get("ty") and t["dest"]["ty"].startswith("&mut "):
                        # a response-builder method returns the `&mut Self` it was given (`b.content_type(..)` -> `&mut b`): what
                        # is called on the result is called on the same builder
                        refs.add(t["dest"]["l"])
                        changed = True
        out = []
        for b in body.blocks:
            if b["i"] not in self.live:
                continue
            t = b["term"]
            if t["k"] != "call":
                continue
            c = t["callee"].get("def") or "<indirect>"
            if c in self.transparent:
                continue
            for ai, a in enumerate(t["args"]):
                if a["k"] in ("copy", "move") and a["p"]["l"] in refs and not a["p"]["proj"]:
                    out.append((b["i"], c, ai))
        return out

    def phi_alternatives(self, l):
        """[(site, term)] for every definition of a multi-def local (params contribute ('param',..))."""
        out = []
        if 1 <= l <= self.body.arg_count:
            out.append((("param", l), ("param", l, self.body.name_of(l) or "_%d" % l)))
        for s in self.defsites.get(l, []):
            out.append((s, self.def_term(s)))
        return out


def mk_field(t, name):
    if t[0] == "agg":
        for n, v in t[2]:
            if n == name:
                return v
    if t[0] == "mut" and t[3][0] == "agg":
        # a field of a struct local that is (partly) handed out by `&mut` (`self.txn.as_mut()` on a private `Session { txn, .. }`):
        # the field's value, still marked as reachable through that borrow
        for n, v in t[3][2]:
            if n == name:
                return ("mut", t[1], t[2], v)
    if t[0] == "variant" and name == "0" and len(t) == 4:
        if t[2] in OK_VARIANTS:
            return mk_ok(t[1])
        if t[2] in ERR_VARIANTS:
            return mk_err(t[1])
    if t[0] == "variant" and name == "0" and len(t) == 3:
        # the payload of one variant of a workspace enum value that was built on other paths
        pl = phi_payload(t[1], (t[2],))
        if pl is not None:
            return pl
    return ("field", t, name)


INT_TYPES = {"u8", "u16", "u32", "u64", "u128", "usize", "i8", "i16", "i32", "i64", "i128", "isize"}


def const_only(t, depth=0):
    """The term is arithmetic over literal constants only."""
    if depth > 10 or not isinstance(t, tuple) or not t:
        return False
    if t[0] == "const":
        return isinstance(t[2], int) and not isinstance(t[2], bool)
    if t[0] == "field" and t[2] in ("0",):
        return const_only(t[1], depth + 1)
    if t[0] == "binop":
        return const_only(t[2], depth + 1) and const_only(t[3], depth + 1)
    if t[0] == "cast":
        return const_only(t[1], depth + 1)
    return False


def nested_sum(payloads, l, v, is_sum=lambda adt: adt in STD_SUM_TYPES):
    """Several literal Option/Result values of one type as a single term ("sum", ((variant, payload), ...), l, v) -- the
    payload of variant v of the multi-def local l; None when some payload is not a literal or a variant carries different
    payloads."""
    per = {}
    adts = set()
    for p in payloads:
        if not (p[0] == "agg" and isinstance(p[1], tuple) and p[1][0] == "adt" and is_sum(p[1][1]) and len(p[2]) <= 1):
            return None
        adts.add(p[1][1])
        per.setdefault(p[1][2], set()).add(p[2][0][1] if p[2] else ("unit",))
    if len(adts) != 1 or any(len(ps) != 1 for ps in per.values()):
        return None
    return ("sum", tuple(sorted((v_, next(iter(ps))) for v_, ps in per.items())), l, v)


def phi_payload(t, variants):
    """Payload of the given variant family of a sum-structured multi-def local (see Prov.sum_summary)."""
    if t[0] == "phi" and len(t) == 4:
        hits = [pl for v, pl in t[3] if v in variants]
        if len(hits) == 1 and not any(v.startswith("?") and v[1:] in variants for v, _ in t[3]):
            return hits[0]
    if t[0] == "sum":
        hits = [pl for v, pl in t[1] if v in variants]
        if len(hits) == 1:
            return hits[0]
    return None


STD_SUM_TYPES = {"core::option::Option", "core::result::Result", "core::ops::control_flow::ControlFlow", "core::task::poll::Poll"}


def mk_variant(t, name, adt=None):
    if t[0] == "agg" and isinstance(t[1], tuple) and t[1][0] == "adt":
        return t  # downcast of a known aggregate
    if adt in STD_SUM_TYPES:
        # marked so that mk_field can normalise Ok/Some/Continue/Ready payloads
        return ("variant", t, name, "std")
    return ("variant", t, name)


def strip_branch(t):
    """The error payload is preserved only by `?` itself (map_err / context transform it)."""
    while t[0] == "call" and t[1] == "core::ops::try_trait::Try::branch" and t[3]:
        t = t[3][0]
    return t


def strip_ok_preserving(t):
    while t[0] == "call" and t[1] in OK_PRESERVING and t[3]:
        t = t[3][0]
    return t


def mk_err(t):
    """err(Err(e)) == e for literal aggregates and sum-structured locals."""
    t = strip_branch(t)
    pl = phi_payload(t, ERR_VARIANTS)
    if pl is not None:
        return pl
    if t[0] == "agg" and isinstance(t[1], tuple) and t[1][0] == "adt" and t[1][2] in ERR_VARIANTS and len(t[2]) == 1:
        return t[2][0][1]
    return ("err", t)


def mk_ok(t):
    t = strip_ok_preserving(t)
    pl = phi_payload(t, OK_VARIANTS)
    if pl is not None:
        return pl
    # ok(Ok(x)) == x for literal aggregates
    if t[0] == "agg" and isinstance(t[1], tuple) and t[1][0] == "adt" and t[1][2] in OK_VARIANTS and len(t[2]) == 1:
        return t[2][0][1]
    return ("ok", t)


# ---------------------------------------------------------------------- term utilities
def walk(t):
    """Yield every sub-term (pre-order)."""
    st = [t]
    while st:
        x = st.pop()
        if not isinstance(x, tuple) or not x:
            continue
        yield x
        h = x[0]
        if h in ("ok", "err"):
            st.append(x[1])
        elif h in ("field", "variant", "proj"):
            st.append(x[1])
        elif h == "mut":
            st.append(x[3])
        elif h == "call":
            st.extend(x[3])
        elif h == "agg":
            st.extend(v for _, v in x[2])
        elif h == "binop":
            st.append(x[2]); st.append(x[3])
        elif h in ("unop",):
            st.append(x[2])
        elif h in ("cast", "discr", "repeat", "subslice"):
            st.append(x[1])
        elif h == "index":
            st.append(x[1]); st.append(x[2])


def walk_deep(t):
    """walk() that also descends into the per-variant payloads of sum-structured multi-def locals."""
    seen = set()
    st = [t]
    while st:
        x = st.pop()
        for y in walk(x):
            yield y
            if y[0] == "phi" and len(y) == 4 and y[1] not in seen:
                seen.add(y[1])
                st.extend(pl for _, pl in y[3])
            if y[0] == "sum":
                st.extend(pl for _, pl in y[1])


def call_sites(t):
    return set(x[2] for x in walk(t) if x[0] == "call")


def phi_locals(t):
    return set(x[1] for x in walk(t) if x[0] == "phi") | set(x[2] for x in walk(t) if x[0] == "sum")


def calls_in(t, callee=None):
    return [x for x in walk(t) if x[0] == "call" and (callee is None or x[1] == callee)]


def show(t, depth=0):
    """Compact human-readable rendering of a term."""
    if not isinstance(t, tuple) or not t:
        return repr(t)
    h = t[0]
    if depth > 12:
        return "..."
    d = depth + 1
    if h == "param":
        return "Param(%s)" % t[2]
    if h == "upvar":
        return "Upvar(%s)" % t[2]
    if h == "const":
        if t[1]:
            return "Const(%s%s)" % (t[1].split("::")[-1], "" if t[2] is None else "=%r" % (t[2],))
        return "Const(%r)" % (t[2],) if t[2] is not None else "Const<%s>" % t[3]
    if h == "fn":
        return "fn(%s)" % t[1]
    if h == "call":
        return "%s@bb%d(%s)" % (short_callee(t[1]), t[2], ", ".join(show(a, d) for a in t[3]))
    if h in ("ok", "err"):
        return "%s(%s)" % (h, show(t[1], d))
    if h == "field":
        return "%s.%s" % (show(t[1], d), t[2])
    if h == "variant":
        return "(%s as %s)" % (show(t[1], d), t[2])
    if h == "agg":
        tag = t[1]
        if isinstance(tag, tuple) and tag[0] == "adt":
            nm = tag[1].split("::")[-1] + "::" + tag[2]
        elif isinstance(tag, tuple):
            nm = "closure"
        else:
            nm = tag
        return "%s{%s}" % (nm, ", ".join("%s: %s" % (n, show(v, d)) for n, v in t[2]))
    if h == "binop":
        return "%s(%s, %s)" % (t[1], show(t[2], d), show(t[3], d))
    if h == "unop":
        return "%s(%s)" % (t[1], show(t[2], d))
    if h == "cast":
        return "cast(%s)" % show(t[1], d)
    if h == "discr":
        return "discr(%s)" % show(t[1], d)
    if h == "phi":
        return "Var(%s)" % t[2]
    if h == "sum":
        return "OneOf{%s}" % ", ".join("%s: %s" % (v, show(pl, depth + 1)) for v, pl in t[1])
    if h == "mut":
        return "Mut(%s := %s)" % (t[2], show(t[3], d))
    if h == "index":
        return "%s[%s]" % (show(t[1], d), show(t[2], d))
    return "%s" % (t,)


def short_callee(c):
    parts = c.split("::")
    if len(parts) >= 2:
        return "::".join(parts[-2:])
    return c
