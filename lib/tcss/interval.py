"""A6: interval x linear-bound abstract interpretation over integer-valued provenance terms.

An abstract value describes an integer x computed from one designated symbolic input t:
  lo, hi        interval over Z (exact arithmetic, *not* clipped: leaving the type range is the finding)
  lin_lo        (a, c, S): x >= min(a*t + c, S)   (S = None: no saturation cap) or None
  lin_hi        (a, c):    x <= a*t + c           or None
Rational coefficients are fractions.Fraction.
"""
from fractions import Fraction as Fr

INT_RANGES = {
    "i8": (-2**7, 2**7 - 1), "i16": (-2**15, 2**15 - 1), "i32": (-2**31, 2**31 - 1), "i64": (-2**63, 2**63 - 1),
    "i128": (-2**127, 2**127 - 1), "isize": (-2**63, 2**63 - 1),
    "u8": (0, 2**8 - 1), "u16": (0, 2**16 - 1), "u32": (0, 2**32 - 1), "u64": (0, 2**64 - 1), "u128": (0, 2**128 - 1),
    "usize": (0, 2**64 - 1),
}

SAT = {"saturating_add": "Add", "saturating_sub": "Sub", "saturating_mul": "Mul"}
WRAP = {"wrapping_add": "Add", "wrapping_sub": "Sub", "wrapping_mul": "Mul"}
CHECKED = {"checked_add": "Add", "checked_sub": "Sub", "checked_mul": "Mul"}


class AV:
    __slots__ = ("lo", "hi", "lin_lo", "lin_hi", "ty")

    def __init__(self, lo, hi, lin_lo=None, lin_hi=None, ty=None):
        self.lo, self.hi, self.lin_lo, self.lin_hi, self.ty = lo, hi, lin_lo, lin_hi, ty

    def __repr__(self):
        def f(x):
            return "None" if x is None else "(%s)" % ", ".join(str(y) for y in x)
        return "[%s, %s] lin_lo=%s lin_hi=%s : %s" % (self.lo, self.hi, f(self.lin_lo), f(self.lin_hi), self.ty)


class Finding:
    def __init__(self, kind, term, detail):
        self.kind, self.term, self.detail = kind, term, detail


class Interp:
    def __init__(self, sym_term, sym_ty, sym_range, type_of, consts=None):
        """sym_term: the term standing for t; type_of(term) -> rust integer type name or None."""
        self.sym = sym_term
        self.sym_ty = sym_ty
        self.sym_range = sym_range
        self.type_of = type_of
        self.findings = []
        self.memo = {}
        self.sites = []   # every arithmetic node evaluated: (op, type, exact interval, fits)

    def top(self, ty):
        lo, hi = INT_RANGES.get(ty, (None, None))
        return AV(lo, hi, None, None, ty)

    def ev(self, t):
        k = repr(t)
        if k in self.memo:
            return self.memo[k]
        r = self._ev(t)
        self.memo[k] = r
        return r

    def _ev(self, t):
        if t == self.sym:
            return AV(self.sym_range[0], self.sym_range[1], (Fr(1), Fr(0), None), (Fr(1), Fr(0)), self.sym_ty)
        h = t[0]
        ty = self.type_of(t)
        if h == "const" and isinstance(t[2], int) and not isinstance(t[2], bool):
            return AV(t[2], t[2], (Fr(0), Fr(t[2]), None), (Fr(0), Fr(t[2])), ty)
        if h == "field" and t[2] == "0" and t[1][0] == "binop" and t[1][1].endswith("WithOverflow"):
            return self.arith(t[1][1][:-len("WithOverflow")], t[1][2], t[1][3], ty or self.type_of(t[1][2]), checked=True, node=t[1])
        if h == "binop" and t[1] in ("Add", "Sub", "Mul", "Div", "Rem", "AddUnchecked", "SubUnchecked", "MulUnchecked"):
            return self.arith(t[1].replace("Unchecked", ""), t[2], t[3], ty or self.type_of(t[2]), checked=False, node=t)
        if h == "cast":
            inner = self.ev(t[1])
            tr = INT_RANGES.get(ty)
            if tr and inner.lo is not None and tr[0] <= inner.lo and inner.hi <= tr[1]:
                return AV(inner.lo, inner.hi, inner.lin_lo, inner.lin_hi, ty)
            return self.top(ty)
        if h == "call":
            name = t[1].rsplit("::", 1)[-1]
            if name in SAT and len(t[3]) == 2:
                return self.saturating(SAT[name], t[3][0], t[3][1], ty or self.type_of(t[3][0]), t)
            if name in WRAP and len(t[3]) == 2:
                r = self.arith(WRAP[name], t[3][0], t[3][1], ty or self.type_of(t[3][0]), checked=None, node=t)
                return r
            if name in ("min", "max") and len(t[3]) == 2:
                a, b = self.ev(t[3][0]), self.ev(t[3][1])
                if None in (a.lo, a.hi, b.lo, b.hi):
                    return self.top(ty)
                if name == "min":
                    return AV(min(a.lo, b.lo), min(a.hi, b.hi), None, a.lin_hi or b.lin_hi, ty or a.ty)
                return AV(max(a.lo, b.lo), max(a.hi, b.hi), a.lin_lo or b.lin_lo, None, ty or a.ty)
            if name == "from" or name == "into":
                return self.ev(t[3][0]) if t[3] else self.top(ty)
            if name == "unwrap_or" and len(t[3]) == 2 and t[3][0][0] == "call" and t[3][0][1].rsplit("::", 1)[-1] in CHECKED:
                inner = t[3][0]
                op = CHECKED[inner[1].rsplit("::", 1)[-1]]
                tyi = self.type_of(inner[3][0])
                exact = self._exact(op, self.ev(inner[3][0]), self.ev(inner[3][1]))
                d = self.ev(t[3][1])
                tr = INT_RANGES.get(tyi)
                if exact.lo is not None and tr and tr[0] <= exact.lo and exact.hi <= tr[1]:
                    exact.ty = tyi
                    return exact
                if exact.lo is not None and d.lo is not None and tr:
                    return AV(min(max(exact.lo, tr[0]), d.lo), max(min(exact.hi, tr[1]), d.hi), None, None, tyi)
                return self.top(tyi)
        return self.top(ty)

    # ------------------------------------------------------------------
    def _exact(self, op, a, b):
        if None in (a.lo, a.hi, b.lo, b.hi):
            return AV(None, None)
        if op == "Add":
            lo, hi = a.lo + b.lo, a.hi + b.hi
            ll = _lin_add(a.lin_lo, b.lin_lo)
            lh = _lin_add2(a.lin_hi, b.lin_hi)
            return AV(lo, hi, ll, lh)
        if op == "Sub":
            lo, hi = a.lo - b.hi, a.hi - b.lo
            ll = _lin_add(a.lin_lo, _neg_hi(b.lin_hi))
            lh = _lin_add2(a.lin_hi, _neg_lo(b.lin_lo))
            return AV(lo, hi, ll, lh)
        if op == "Mul":
            c = [a.lo * b.lo, a.lo * b.hi, a.hi * b.lo, a.hi * b.hi]
            lo, hi = min(c), max(c)
            ll = lh = None
            if b.lo == b.hi and b.lo >= 0:
                k = b.lo
                ll = _lin_scale_lo(a.lin_lo, Fr(k))
                lh = _lin_scale_hi(a.lin_hi, Fr(k))
            elif a.lo == a.hi and a.lo >= 0:
                k = a.lo
                ll = _lin_scale_lo(b.lin_lo, Fr(k))
                lh = _lin_scale_hi(b.lin_hi, Fr(k))
            return AV(lo, hi, ll, lh)
        if op == "Div":
            if b.lo <= 0 <= b.hi:
                return AV(None, None)
            c = [_tdiv(a.lo, b.lo), _tdiv(a.lo, b.hi), _tdiv(a.hi, b.lo), _tdiv(a.hi, b.hi)]
            lo, hi = min(c), max(c)
            ll = lh = None
            if b.lo == b.hi and b.lo > 0:
                k = b.lo
                # truncation toward zero: x/k in [ (x-(k-1))/k , x/k ] for x >= 0, [ x/k , (x+k-1)/k ] for x <= 0
                slack_lo = Fr(k - 1, k) if a.hi > 0 else Fr(0)
                slack_hi = Fr(k - 1, k) if a.lo < 0 else Fr(0)
                if a.lin_lo is not None:
                    al, cl, S = a.lin_lo
                    ll = (al / k, cl / k - slack_lo, None if S is None else Fr(_tdiv(S, k)) if S >= 0 else Fr(S, k) - slack_lo)
                if a.lin_hi is not None:
                    ah, ch = a.lin_hi
                    lh = (ah / k, ch / k + slack_hi)
            return AV(lo, hi, ll, lh)
        if op == "Rem":
            if b.lo <= 0 <= b.hi:
                return AV(None, None)
            mx = max(abs(b.lo), abs(b.hi)) - 1
            return AV(-mx if a.lo < 0 else 0, mx if a.hi > 0 else 0)
        return AV(None, None)

    def arith(self, op, ta, tb, ty, checked, node):
        a, b = self.ev(ta), self.ev(tb)
        ex = self._exact(op, a, b)
        tr = INT_RANGES.get(ty)
        if op in ("Div", "Rem") and (b.lo is None or b.lo <= 0 <= b.hi):
            self.findings.append(Finding("div-by-zero", node, "%s by a value that may be zero" % op))
        if ex.lo is None or tr is None:
            self.sites.append((op, ty, None, False))
            if checked is not None:
                self.findings.append(Finding("unbounded", node, "%s on operands the analysis cannot bound" % op))
            return self.top(ty)
        fits = tr[0] <= ex.lo and ex.hi <= tr[1]
        self.sites.append((op, ty, (ex.lo, ex.hi), fits))
        if fits:
            ex.ty = ty
            return ex
        if checked is None:          # explicit wrapping_*: defined, but no linear relation survives
            return self.top(ty)
        self.findings.append(Finding("overflow", node,
                                     "%s over %s: exact result range [%d, %d] leaves the type range [%d, %d] (%s)"
                                     % (op, ty, ex.lo, ex.hi, tr[0], tr[1],
                                        "panics: overflow check" if checked else "wraps silently: overflow checks off")))
        return self.top(ty)

    def saturating(self, op, ta, tb, ty, node):
        a, b = self.ev(ta), self.ev(tb)
        ex = self._exact(op, a, b)
        tr = INT_RANGES.get(ty)
        if ex.lo is None or tr is None:
            return self.top(ty)
        self.sites.append(("saturating_" + op, ty, (ex.lo, ex.hi), True))
        lo, hi = max(ex.lo, tr[0]), min(ex.hi, tr[1])
        ll = None
        if ex.lin_lo is not None and ex.lo >= tr[0]:
            al, cl, S = ex.lin_lo
            cap = Fr(tr[1]) if ex.hi > tr[1] else S
            if S is not None and cap is not None:
                cap = min(S, cap)
            ll = (al, cl, cap)
        # min(sum, MAX) <= sum: the linear upper bound survives saturation at the top (not at the bottom)
        lh = ex.lin_hi if (ex.lin_hi is not None and ex.lo >= tr[0]) else None
        return AV(lo, hi, ll, lh, ty)


def _tdiv(a, b):
    q = abs(a) // abs(b)
    return q if (a >= 0) == (b >= 0) else -q


def _lin_add(x, y):
    if x is None or y is None:
        return None
    S = None
    if x[2] is not None or y[2] is not None:
        return None  # sum of saturated bounds: give up (not needed by the repository's code)
    return (x[0] + y[0], x[1] + y[1], S)


def _lin_add2(x, y):
    if x is None or y is None:
        return None
    return (x[0] + y[0], x[1] + y[1])


def _neg_hi(hi):
    if hi is None:
        return None
    return (-hi[0], -hi[1], None)


def _neg_lo(lo):
    if lo is None or lo[2] is not None:
        return None
    return (-lo[0], -lo[1])


def _lin_scale_lo(x, k):
    if x is None:
        return None
    return (x[0] * k, x[1] * k, None if x[2] is None else x[2] * k)


def _lin_scale_hi(x, k):
    if x is None:
        return None
    return (x[0] * k, x[1] * k)


def ge_sym(av, sym_range):
    """Decide  x >= t  for all integer t in sym_range from x >= min(a*t + c, S), x and t integers.
    Returns (bool, explanation)."""
    if av.lin_lo is None:
        return False, "no linear lower bound relative to the target survives (the computation may wrap or is not recognised)"
    a, c, S = av.lin_lo
    lo, hi = sym_range
    # x >= ceil(a t + c) >= t  iff  a t + c > t - 1  iff (a-1) t + c + 1 > 0   (linear: check both ends)
    for t in (lo, hi):
        if not ((a - 1) * t + c + 1 > 0):
            return False, "lower bound %s*t%+s does not reach t at t=%d" % (a, c, t)
    if S is not None and S < hi:
        return False, "result saturates at %s which is below targets up to %d" % (S, hi)
    return True, "x >= %s*t%+s%s and x, t integers => x >= t on [%d, %d]" % (a, c, "" if S is None else " (capped at %s)" % S, lo, hi)
