"""A5 (part 1): tokenizer + recursive-descent parser for exactly the SQL dialect the repository uses.
Anything else raises SqlError (the rules fail closed: 'unrecognised statement')."""
import re


class SqlError(Exception):
    pass


TOKEN = re.compile(r"""
    \s+ |
    --[^\n]*  |                      # SQL comments are white space to SQLite: `-- ..` runs to the end of the LINE (of the
    /\*(?:.|\n)*?(?:\*/|\Z) |       # string as the engine sees it: a Rust `\`-continued literal has no line breaks), `/* .. */`
    (?P<str>'(?:[^']|'')*') |
    (?P<qid>"(?:[^"]|"")*"|`[^`]*`|\[[^\]]*\]) |
    (?P<num>\d+(?:\.\d+)?) |
    (?P<param>\?\d*|[:@$][A-Za-z_][A-Za-z0-9_]*) |
    (?P<id>[A-Za-z_][A-Za-z0-9_]*) |
    (?P<op><>|<=|>=|==|!=|\|\||[-+*/%=<>(),;.])
""", re.X)

SQL_KEYWORDS_START = {"PRAGMA", "CREATE", "BEGIN", "COMMIT", "END", "ROLLBACK", "SELECT", "INSERT", "REPLACE",
                      "UPDATE", "DELETE", "DROP", "ALTER", "VACUUM", "ATTACH", "DETACH", "SAVEPOINT", "RELEASE",
                      "WITH", "ANALYZE", "REINDEX"}


def looks_like_sql(s):
    m = re.match(r"\s*([A-Za-z]+)\b", s or "")
    return bool(m) and m.group(1).upper() in SQL_KEYWORDS_START


def tokenize(s):
    out = []
    pos = 0
    while pos < len(s):
        m = TOKEN.match(s, pos)
        if not m:
            raise SqlError("cannot tokenize at %r" % s[pos:pos + 20])
        pos = m.end()
        if m.lastgroup is None:
            continue
        k = m.lastgroup
        v = m.group(k)
        if k == "id":
            out.append(("id", v))
        elif k == "qid":
            out.append(("id", v[1:-1]))
        else:
            out.append((k, v))
    return out


class Parser:
    def __init__(self, text):
        self.text = text
        self.toks = self._strip_qualifiers(tokenize(text))
        self.i = 0
        self.nparam = 0
        self.names = {}

    @staticmethod
    def _strip_qualifiers(toks):
        """`versions.version_id` with the statement's own (single) table as qualifier is the column `version_id`."""
        table = None
        for i, t in enumerate(toks[:-1]):
            if t[0] == "id" and t[1].upper() in ("FROM", "INTO", "UPDATE") and toks[i + 1][0] == "id":
                table = toks[i + 1][1]
                break
        if table is None:
            return toks
        out = []
        i = 0
        while i < len(toks):
            if (i + 2 < len(toks) and toks[i][0] == "id" and toks[i][1].lower() == table.lower() and toks[i + 1] == ("op", ".")
                    and toks[i + 2][0] == "id"):
                out.append(toks[i + 2])
                i += 3
                continue
            out.append(toks[i])
            i += 1
        return out

    def peek(self, k=0):
        return self.toks[self.i + k] if self.i + k < len(self.toks) else ("eof", "")

    def kw(self, *words):
        """Consume the keyword sequence if present (case-insensitive)."""
        for n, w in enumerate(words):
            t = self.peek(n)
            if t[0] != "id" or t[1].upper() != w:
                return False
        self.i += len(words)
        return True

    def need_kw(self, *words):
        if not self.kw(*words):
            raise SqlError("expected %s at token %d of %r" % (" ".join(words), self.i, self.text[:60]))

    def op(self, v):
        t = self.peek()
        if t[0] == "op" and t[1] == v:
            self.i += 1
            return True
        return False

    def need_op(self, v):
        if not self.op(v):
            raise SqlError("expected %r at token %d of %r" % (v, self.i, self.text[:60]))

    def ident(self):
        t = self.peek()
        if t[0] != "id":
            raise SqlError("expected identifier, got %r in %r" % (t, self.text[:60]))
        self.i += 1
        return t[1]

    def end(self):
        self.op(";")
        if self.peek()[0] != "eof":
            raise SqlError("trailing tokens after statement (multi-statement text?): %r" % (self.toks[self.i:self.i + 4],))

    # ---- expressions (just enough)
    def expr(self, stop_kw=()):
        """Parse tokens up to ',' / ')' / a stop keyword at depth 0; classify."""
        toks = []
        depth = 0
        while True:
            t = self.peek()
            if t[0] == "eof":
                break
            if depth == 0 and t[0] == "op" and t[1] in (",", ")", ";"):
                break
            if depth == 0 and t[0] == "id" and t[1].upper() in stop_kw:
                break
            if t[0] == "op" and t[1] == "(":
                depth += 1
            if t[0] == "op" and t[1] == ")":
                depth -= 1
            if t[0] == "param":
                if t[1][0] in ":@$":
                    # named placeholder: SQLite numbers names in order of first appearance; a repeated name is the same parameter
                    if t[1] not in self.names:
                        self.nparam += 1
                        self.names[t[1]] = self.nparam
                    num = self.names[t[1]]
                else:
                    self.nparam += 1
                    num = int(t[1][1:]) if t[1][1:].isdigit() else self.nparam
                t = ("param", num)
            toks.append(t)
            self.i += 1
        if not toks:
            raise SqlError("empty expression in %r" % self.text[:60])
        if len(toks) == 1:
            t = toks[0]
            if t[0] == "param":
                return ("param", t[1])
            if t[0] == "num":
                return ("lit", t[1])
            if t[0] == "str":
                return ("lit", t[1])
            if t[0] == "id":
                return ("lit", "NULL") if t[1].upper() == "NULL" else ("col", t[1])
        if len(toks) == 3 and toks[0][0] == "id" and toks[1][0] == "op" and toks[2][0] in ("num", "param"):
            return ("colop", toks[0][1], toks[1][1], toks[2][1])
        return ("raw", tuple(toks))

    def where(self):
        """WHERE col = ? AND ... -> ([(col, expr)], all_simple)"""
        conj = []
        simple = True
        while True:
            t = self.peek()
            if t[0] == "id" and self.peek(1) == ("op", "=") or t[0] == "id" and self.peek(1) == ("op", "=="):
                col = self.ident()
                self.i += 1
                e = self.expr(stop_kw=("AND", "OR", "LIMIT", "ORDER", "GROUP"))
                conj.append((col, e))
            else:
                e = self.expr(stop_kw=("AND", "LIMIT", "ORDER", "GROUP"))
                conj.append((None, e))
                simple = False
            if self.kw("AND"):
                continue
            if self.peek()[0] == "id" and self.peek()[1].upper() == "OR":
                simple = False
                self.i += 1
                continue
            break
        return conj, simple


def parse(text):
    p = Parser(text)
    st = {"text": " ".join(text.split()), "verb": None, "table": None, "conflict": None, "writes": [], "where": [],
          "where_simple": True, "select": [], "limit": None, "ddl": None, "nparams": 0}
    if p.kw("PRAGMA"):
        st["verb"] = "PRAGMA"
        name = p.ident()
        if p.op("."):
            name = p.ident()
        st["pragma"] = name.lower()
        st["pragma_value"] = None
        if p.op("="):
            t = p.peek()
            p.i += 1
            st["pragma_value"] = str(t[1]).strip("'").upper()
        elif p.op("("):
            t = p.peek()
            p.i += 1
            st["pragma_value"] = str(t[1]).strip("'").upper()
            p.need_op(")")
        p.end()
    elif p.kw("CREATE"):
        temp = p.kw("TEMP") or p.kw("TEMPORARY")
        unique = p.kw("UNIQUE")
        if p.kw("TABLE"):
            st["verb"] = "CREATE TABLE"
            ine = p.kw("IF", "NOT", "EXISTS")
            st["table"] = p.ident()
            p.need_op("(")
            cols = []
            while True:
                cname = p.ident()
                if cname.upper() in ("PRIMARY", "UNIQUE", "FOREIGN", "CHECK", "CONSTRAINT"):
                    raise SqlError("table constraints not in the recognised dialect: %r" % text[:60])
                decl = []
                depth = 0
                while True:
                    t = p.peek()
                    if t[0] == "eof":
                        raise SqlError("unterminated column list")
                    if depth == 0 and t[0] == "op" and t[1] in (",", ")"):
                        break
                    if t == ("op", "("):
                        depth += 1
                    if t == ("op", ")"):
                        depth -= 1
                    decl.append(str(t[1]).upper())
                    p.i += 1
                ctype = decl[0] if decl and decl[0] not in ("PRIMARY", "NOT", "UNIQUE", "DEFAULT", "REFERENCES", "CHECK") else ""
                rest = " ".join(decl[1:] if ctype else decl)
                cols.append({"name": cname, "type": ctype, "pk": "PRIMARY KEY" in rest, "notnull": "NOT NULL" in rest,
                             "unique": "UNIQUE" in rest, "default": "DEFAULT" in rest, "decl": " ".join(decl)})
                if p.op(","):
                    continue
                p.need_op(")")
                break
            if p.kw("WITHOUT", "ROWID") or p.kw("STRICT"):
                st["table_options"] = True
            st["ddl"] = {"if_not_exists": ine, "columns": cols, "temp": temp}
            p.end()
        elif p.kw("INDEX"):
            st["verb"] = "CREATE INDEX"
            ine = p.kw("IF", "NOT", "EXISTS")
            iname = p.ident()
            p.need_kw("ON")
            st["table"] = p.ident()
            p.need_op("(")
            cols = [p.ident()]
            while p.op(","):
                cols.append(p.ident())
            p.need_op(")")
            partial = None
            if p.kw("WHERE"):
                # partial index: keep the predicate as raw tokens (it does not change which columns form the key)
                toks = []
                while p.peek()[0] != "eof" and p.peek() != ("op", ";"):
                    toks.append(str(p.peek()[1]))
                    p.i += 1
                partial = " ".join(toks)
            st["ddl"] = {"if_not_exists": ine, "index": iname, "columns": cols, "unique": unique, "partial": partial}
            p.end()
        else:
            raise SqlError("unsupported CREATE form: %r" % text[:60])
    elif p.kw("BEGIN"):
        st["verb"] = "BEGIN"
        mode = "DEFERRED"
        for mname in ("DEFERRED", "IMMEDIATE", "EXCLUSIVE"):
            if p.kw(mname):
                mode = mname
        p.kw("TRANSACTION")
        st["mode"] = mode
        p.end()
    elif p.kw("COMMIT") or p.kw("END"):
        st["verb"] = "COMMIT"
        p.kw("TRANSACTION")
        p.end()
    elif p.kw("ROLLBACK"):
        st["verb"] = "ROLLBACK"
        p.kw("TRANSACTION")
        if p.kw("TO"):
            raise SqlError("savepoints are not in the recognised dialect")
        p.end()
    elif p.kw("SELECT"):
        st["verb"] = "SELECT"
        if p.kw("DISTINCT"):
            raise SqlError("DISTINCT is not in the recognised dialect")
        cols = []
        while True:
            if p.op("*"):
                cols.append("*")
            else:
                e = p.expr(stop_kw=("FROM",))
                if e[0] != "col":
                    raise SqlError("select list item is not a plain column: %r" % (e,))
                cols.append(e[1])
            if not p.op(","):
                break
        st["select"] = cols
        p.need_kw("FROM")
        st["table"] = p.ident()
        if p.peek()[0] == "id" and p.peek()[1].upper() in ("JOIN", "INNER", "LEFT", "CROSS", "NATURAL", "AS") or p.peek() == ("op", ","):
            raise SqlError("joins are not in the recognised dialect")
        if p.kw("WHERE"):
            st["where"], st["where_simple"] = p.where()
        if p.kw("ORDER") or p.kw("GROUP"):
            raise SqlError("ORDER/GROUP BY are not in the recognised dialect")
        if p.kw("LIMIT"):
            st["limit"] = p.expr()
        p.end()
    elif p.kw("INSERT") or p.kw("REPLACE"):
        first = p.toks[0][1].upper()
        st["verb"] = "INSERT"
        if first == "REPLACE":
            st["conflict"] = "REPLACE"
        elif p.kw("OR"):
            st["conflict"] = p.ident().upper()
        p.need_kw("INTO")
        st["table"] = p.ident()
        p.need_op("(")
        cols = [p.ident()]
        while p.op(","):
            cols.append(p.ident())
        p.need_op(")")
        if not p.kw("VALUES"):
            raise SqlError("INSERT ... SELECT / DEFAULT VALUES are not in the recognised dialect")
        p.need_op("(")
        vals = [p.expr()]
        while p.op(","):
            vals.append(p.expr())
        p.need_op(")")
        if len(cols) != len(vals):
            raise SqlError("column/value count mismatch")
        st["writes"] = list(zip(cols, vals))
        if p.kw("ON", "CONFLICT"):
            raise SqlError("upsert clauses are not in the recognised dialect")
        if p.kw("RETURNING"):
            raise SqlError("RETURNING is not in the recognised dialect")
        p.end()
    elif p.kw("UPDATE"):
        st["verb"] = "UPDATE"
        if p.kw("OR"):
            st["conflict"] = p.ident().upper()
        st["table"] = p.ident()
        p.need_kw("SET")
        while True:
            if p.op("("):
                # row-value assignment `SET (a, b) = (x, y)`: the same as `a = x, b = y`
                cols_ = [p.ident()]
                while p.op(","):
                    cols_.append(p.ident())
                p.need_op(")")
                p.need_op("=")
                p.need_op("(")
                vals_ = [p.expr()]
                while p.op(","):
                    vals_.append(p.expr())
                p.need_op(")")
                if len(cols_) != len(vals_):
                    raise SqlError("column/value count mismatch in a row-value assignment")
                st["writes"] += list(zip(cols_, vals_))
            else:
                col = p.ident()
                p.need_op("=")
                e = p.expr(stop_kw=("WHERE",))
                st["writes"].append((col, e))
            if not p.op(","):
                break
        if p.kw("WHERE"):
            st["where"], st["where_simple"] = p.where()
        p.end()
    elif p.kw("DELETE"):
        st["verb"] = "DELETE"
        p.need_kw("FROM")
        st["table"] = p.ident()
        if p.kw("WHERE"):
            st["where"], st["where_simple"] = p.where()
        p.end()
    elif p.kw("DROP") or p.kw("ALTER") or p.kw("VACUUM") or p.kw("ATTACH") or p.kw("DETACH") or p.kw("REINDEX"):
        st["verb"] = p.toks[0][1].upper()
        # best effort table name
        for t in p.toks[1:]:
            if t[0] == "id" and t[1].upper() not in ("TABLE", "INDEX", "IF", "EXISTS", "COLUMN", "ADD", "RENAME", "TO"):
                st["table"] = t[1]
                break
        st["raw"] = True
    else:
        raise SqlError("unrecognised statement: %r" % text[:60])
    st["nparams"] = p.nparam
    st["param_names"] = dict(p.names)
    return st


def affinity(decl_type):
    """SQLite column affinity rule (https://sqlite.org/datatype3.html section 3.1)."""
    t = (decl_type or "").upper()
    if "INT" in t:
        return "INTEGER"
    if "CHAR" in t or "CLOB" in t or "TEXT" in t:
        return "TEXT"
    if "BLOB" in t or t == "":
        return "BLOB"
    if "REAL" in t or "FLOA" in t or "DOUB" in t:
        return "REAL"
    return "NUMERIC"
