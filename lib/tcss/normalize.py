"""Normalising front-end over the extracted MIR facts.

The rules are stated over a canonical shape of the code.  Three families of behaviour-preserving edits change the
shape without changing behaviour, and are undone here before any rule looks at the program:

  N1  helper extraction      a workspace function that did not exist when the rules were written (not in KEEP) is
                             spliced into each caller (callee blocks copied, parameters bound, `return` -> goto);
  N2  combinator style       Option/Result combinators taking a closure or function item (`map`, `map_err`,
                             `and_then`, `ok_or_else`, `is_some_and`, ...) become the explicit `match` they stand for,
                             with the closure body spliced in;
  N3  async helper           `helper(args).await` on a workspace `async fn`/`async` block is replaced by the body of
                             that coroutine (its own awaits keep their yields; `return v` -> `Poll::Ready(v)`).

Everything is done on the JSON facts (blocks appended, locals appended); nothing is removed from a caller.  A helper
or closure whose every use was spliced away is dropped from the program (it is no longer a unit of its own).
Recursive helpers are left alone.  The pass only ever *adds* precision: a body it cannot splice stays a call.
"""
import copy
import os
import json
import re

PRIMS = {"i8", "i16", "i32", "i64", "i128", "isize", "u8", "u16", "u32", "u64", "u128", "usize", "bool", "char"}
CMP_CALLS = {
    "core::cmp::PartialOrd::lt": "Lt", "core::cmp::PartialOrd::le": "Le", "core::cmp::PartialOrd::gt": "Gt",
    "core::cmp::PartialOrd::ge": "Ge", "core::cmp::PartialEq::eq": "Eq", "core::cmp::PartialEq::ne": "Ne",
}
OPTION, RESULT, POLL = "core::option::Option", "core::result::Result", "core::task::poll::Poll"
VARIANTS = {OPTION: ["None", "Some"], RESULT: ["Ok", "Err"], POLL: ["Ready", "Pending"]}

# combinator -> (scrutinee ADT, result ADT or None, [action for variant 0, action for variant 1])
# action = (kind, source): kind in ret | wrap:<Variant> | true | false ; source = "payload" | ("call", arg index, passes
# payload?) | ("arg", arg index) | None
P = "payload"
COMBINATORS = {
    "core::option::Option::<T>::map": (OPTION, OPTION, [("wrap:None", None), ("wrap:Some", ("call", 1, True))]),
    "core::option::Option::<T>::and_then": (OPTION, OPTION, [("wrap:None", None), ("ret", ("call", 1, True))]),
    "core::option::Option::<T>::is_some_and": (OPTION, None, [("false", None), ("ret", ("call", 1, True))]),
    "core::option::Option::<T>::is_none_or": (OPTION, None, [("true", None), ("ret", ("call", 1, True))]),
    "core::option::Option::<T>::ok_or_else": (OPTION, RESULT, [("wrap:Err", ("call", 1, False)), ("wrap:Ok", P)]),
    "core::option::Option::<T>::unwrap_or_else": (OPTION, None, [("ret", ("call", 1, False)), ("ret", P)]),
    "core::option::Option::<T>::map_or": (OPTION, None, [("ret", ("arg", 1)), ("ret", ("call", 2, True))]),
    "core::option::Option::<T>::map_or_else": (OPTION, None, [("ret", ("call", 1, False)), ("ret", ("call", 2, True))]),
    "core::option::Option::<T>::or_else": (OPTION, OPTION, [("ret", ("call", 1, False)), ("wrap:Some", P)]),
    "core::option::Option::<T>::unwrap_or": (OPTION, None, [("ret", ("arg", 1)), ("ret", P)]),
    "core::option::Option::<T>::or": (OPTION, OPTION, [("ret", ("arg", 1)), ("wrap:Some", P)]),
    "core::option::Option::<T>::and": (OPTION, OPTION, [("wrap:None", None), ("ret", ("arg", 1))]),
    "core::result::Result::<T, E>::ok": (RESULT, OPTION, [("wrap:Some", P), ("wrap:None", None)]),
    "core::result::Result::<T, E>::err": (RESULT, OPTION, [("wrap:None", None), ("wrap:Some", P)]),
    "core::result::Result::<T, E>::map": (RESULT, RESULT, [("wrap:Ok", ("call", 1, True)), ("wrap:Err", P)]),
    "core::result::Result::<T, E>::map_err": (RESULT, RESULT, [("wrap:Ok", P), ("wrap:Err", ("call", 1, True))]),
    "core::result::Result::<T, E>::and_then": (RESULT, RESULT, [("ret", ("call", 1, True)), ("wrap:Err", P)]),
    "core::result::Result::<T, E>::or_else": (RESULT, RESULT, [("wrap:Ok", P), ("ret", ("call", 1, True))]),
    "core::result::Result::<T, E>::unwrap_or_else": (RESULT, None, [("ret", P), ("ret", ("call", 1, True))]),
    "core::result::Result::<T, E>::is_ok_and": (RESULT, None, [("ret", ("call", 1, True)), ("false", None)]),
    "core::result::Result::<T, E>::is_err_and": (RESULT, None, [("false", None), ("ret", ("call", 1, True))]),
    "core::result::Result::<T, E>::map_or": (RESULT, None, [("ret", ("call", 2, True)), ("ret", ("arg", 1))]),
    "core::result::Result::<T, E>::map_or_else": (RESULT, None, [("ret", ("call", 2, True)), ("ret", ("call", 1, True))]),
}
POLL_FN = "core::future::future::Future::poll"
HM = "std::collections::hash::map::HashMap::<K, V, S, A>::"
FROM_RESIDUAL = "core::ops::try_trait::FromResidual::from_residual"
HANDLER_MARK = " as actix_web::service::HttpServiceFactory>::register::"
ACTIX_ERROR = "actix_web::error::error::Error"
INT_PRIMS = {"u8", "u16", "u32", "u64", "u128", "usize", "i8", "i16", "i32", "i64", "i128", "isize"}
FN_TRAIT_CALLS = {"core::ops::function::FnOnce::call_once", "core::ops::function::FnMut::call_mut", "core::ops::function::Fn::call"}
CHASE_THROUGH = {"core::pin::Pin::<Ptr>::new_unchecked", "core::pin::Pin::<Ptr>::new",
                 "core::future::into_future::IntoFuture::into_future"}


def split_targs(ty):
    """Top-level generic arguments of a type string: 'Option<Vec<u8>>' -> ['Vec<u8>']."""
    i = ty.find("<")
    if i < 0 or not ty.endswith(">"):
        return []
    inner = ty[i + 1:-1]
    out, depth, cur = [], 0, ""
    for ch in inner:
        if ch in "<([":
            depth += 1
        elif ch in ">)]":
            depth -= 1
        if ch == "," and depth == 0:
            out.append(cur.strip())
            cur = ""
        else:
            cur += ch
    if cur.strip():
        out.append(cur.strip())
    return out


def unify_types(pattern, concrete, gens):
    """{generic name: type} such that substituting into `pattern` (a printed type / trait reference mentioning the
    generic parameters `gens`) gives `concrete`; None when there is no such (bracket-balanced) assignment."""
    names = sorted(gens, key=len, reverse=True)
    rx_name = re.compile(r"(?<![A-Za-z0-9_:'])(" + "|".join(re.escape(g) for g in names) + r")(?![A-Za-z0-9_])")
    items, pos = [], 0          # literal strings and ("var", name)
    for mm in rx_name.finditer(pattern):
        if mm.start() > pos:
            items.append(pattern[pos:mm.start()])
        items.append(("var", mm.group(1)))
        pos = mm.end()
    if pos < len(pattern):
        items.append(pattern[pos:])

    def balanced_ends(start):
        depth = 0
        for j in range(start, len(concrete)):
            ch = concrete[j]
            if ch in "<([":
                depth += 1
            elif ch in ">)]":
                if ch == ">" and j > 0 and concrete[j - 1] == "-":
                    continue            # `->`
                depth -= 1
                if depth < 0:
                    return
            elif ch == "," and depth == 0:
                yield j
                return
            if depth == 0:
                yield j + 1

    def go(i, at, env):
        if i == len(items):
            return env if at == len(concrete) else None
        it = items[i]
        if isinstance(it, str):
            if concrete.startswith(it, at):
                return go(i + 1, at + len(it), env)
            return None
        name = it[1]
        if name in env:
            v = env[name]
            return go(i + 1, at + len(v), env) if concrete.startswith(v, at) else None
        for end in balanced_ends(at):
            if end <= at:
                continue
            r = go(i + 1, end, dict(env, **{name: concrete[at:end]}))
            if r is not None:
                return r
        return None

    r = go(0, 0, {})
    if r is None or set(r) != set(gens):
        return None
    return r


def _remap(node, off, boff):
    """Shift every local index by off and every block reference by boff (in place)."""
    if isinstance(node, dict):
        if isinstance(node.get("l"), int) and ("proj" in node or node.get("k") == "index"):
            node["l"] += off
        for key in ("target", "unwind", "otherwise", "false_edge", "real", "imaginary"):
            if isinstance(node.get(key), int) and "k" in node and key in node:
                node[key] += boff
        if node.get("k") == "yield" and isinstance(node.get("drop"), int):
            node["drop"] += boff
        if node.get("k") == "switch":
            for a in node["arms"]:
                a["t"] += boff
        for v in node.values():
            _remap(v, off, boff)
    elif isinstance(node, list):
        for v in node:
            _remap(v, off, boff)


def _subst_types(node, rx, mapping):
    if isinstance(node, dict):
        for k, v in node.items():
            if k in ("ty", "self_ty", "impl_self", "def_args") and isinstance(v, str):
                node[k] = rx.sub(lambda m: mapping[m.group(0)], v)
            elif k == "targs" and isinstance(v, list):
                node[k] = [rx.sub(lambda m: mapping[m.group(0)], x) if isinstance(x, str) else x for x in v]
            else:
                _subst_types(v, rx, mapping)
    elif isinstance(node, list):
        for v in node:
            _subst_types(v, rx, mapping)


class Normalizer:
    def __init__(self, raw, keep, keep_types=()):
        self.raw = raw
        self.keep = keep
        self.keep_types = set(keep_types)
        self._struct_memo = {}
        self._const_arrays = {}
        self._wt_memo = {}
        self.bodies = {}        # (unit, def) -> body json
        self.by_def = {}        # def -> [(unit, body)]
        for fname, d in raw.items():
            unit = d["crate"] + "-" + d["crate_type"]
            for b in d["bodies"]:
                self.bodies[(unit, b["def"])] = b
                self.by_def.setdefault(b["def"], []).append((unit, b))
        # workspace `impl From<T> for U` by trait reference (the def path of an impl for a foreign type is spelt differently)
        self.from_impls = {}
        for (unit, deff), b in self.bodies.items():
            tr = b.get("impl_trait_ref") or ""
            if b.get("impl_trait") == "core::convert::From" and deff.endswith("::from"):
                self.from_impls[tr] = deff
        # workspace trait-impl methods by instantiated path `<Self as Trait<..>>::name` (non-generic impls) and the
        # generic ones separately: a trait-method call in a generic helper is resolved once the helper's type arguments
        # are known (after splicing into a caller that fixes them)
        self.impl_methods, self.generic_impl_methods = {}, []
        for (unit, deff), b in self.bodies.items():
            tr = b.get("impl_trait_ref")
            if tr and b.get("kind") == "AssocFn":
                key = tr + "::" + deff.rsplit("::", 1)[-1]
                gens = [g for g in b.get("generics", []) if not g.startswith("<")]
                if gens:
                    self.generic_impl_methods.append((key, gens, deff))
                else:
                    self.impl_methods[key] = deff
        # N12: a pinned function K that has become `H(params.., |x| x)` for a new helper H taking a continuation
        # (`client_id_header(req) = self.for_client(req, |id| id)`): H -> (K, unit)
        self.cps_wrappers = {}
        for (unit, deff), b in self.bodies.items():
            if deff in self.keep:
                h = self._identity_wrapper_of(unit, b)
                if h is not None:
                    self.cps_wrappers.setdefault(h, []).append((unit, deff))
        self.done = set()
        self.busy = set()
        self.notes = []
        self.consumed = set()    # (unit, def) of closures / coroutines whose only use was spliced
        self.inlined_fns = set()  # (unit, def) of helpers spliced somewhere

    # ------------------------------------------------------------------ lookup
    def lookup(self, unit, deff):
        b = self.bodies.get((unit, deff))
        if b is not None:
            return unit, b
        for u, b in self.by_def.get(deff, []):
            if u.endswith("-lib"):
                return u, b
        return None, None

    def from_impl(self, unit, to, frm):
        """def of the workspace function behind `impl From<frm> for to` (not one of the pinned tree's functions), or None."""
        deff = self.from_impls.get("<%s as core::convert::From<%s>>" % (to, frm))
        if deff is None or deff in self.keep or self.lookup(unit, deff)[1] is None:
            return None
        return deff

    # ------------------------------------------------------------------ building blocks
    @staticmethod
    def place(l, ty, proj=None):
        return {"l": l, "proj": list(proj or []), "ty": ty}

    @staticmethod
    def new_local(body, ty, why):
        i = len(body["locals"])
        body["locals"].append({"i": i, "ty": ty, "mut": True, "user": False, "line": 0, "synthetic": why})
        return i

    @staticmethod
    def new_block(body, stmts, term):
        i = len(body["blocks"])
        body["blocks"].append({"i": i, "cleanup": False, "stmts": stmts, "term": term, "synthetic": True})
        return i

    @staticmethod
    def assign(place, rv, span):
        return {"k": "assign", "p": place, "rv": rv, "span": span}

    @staticmethod
    def use(op):
        return {"k": "use", "op": op}

    @staticmethod
    def mv(place):
        return {"k": "move", "p": place}

    @staticmethod
    def variant_payload(place, adt, vname, vi, ty):
        pr = list(place["proj"]) + [{"k": "downcast", "i": vi, "name": vname, "adt": adt},
                                    {"k": "field", "i": 0, "ty": ty, "name": "0", "adt": adt}]
        return {"l": place["l"], "proj": pr, "ty": ty}

    @staticmethod
    def agg(adt, vname, ops):
        vi = VARIANTS[adt].index(vname)
        return {"k": "aggregate", "ak": "adt", "adt": adt, "variant": vname, "vi": vi,
                "fields": [str(i) for i in range(len(ops))], "ops": ops}

    # ------------------------------------------------------------------ def/use helpers
    @staticmethod
    def defs_of(body, l):
        out = []
        for b in body["blocks"]:
            if b["cleanup"]:
                continue
            for s in b["stmts"]:
                if s["k"] == "assign" and s["p"]["l"] == l and not s["p"]["proj"]:
                    out.append(("stmt", b["i"], s))
            t = b["term"]
            if t["k"] == "call" and t["dest"]["l"] == l and not t["dest"]["proj"]:
                out.append(("call", b["i"], t))
        return out

    @staticmethod
    def uses_of(body, l):
        """Number of operand/place reads of local l in non-cleanup blocks (drops and pure storage excluded)."""
        n = 0

        def visit(x, is_dest=False):
            nonlocal n
            if isinstance(x, dict):
                if isinstance(x.get("l"), int) and "proj" in x:
                    if x["l"] == l and not is_dest:
                        n += 1
                    for e in x["proj"]:
                        if e.get("k") == "index" and e.get("l") == l:
                            n += 1
                    return
                for k, v in x.items():
                    visit(v)
            elif isinstance(x, list):
                for v in x:
                    visit(v)

        for b in body["blocks"]:
            if b["cleanup"]:
                continue
            for s in b["stmts"]:
                if s["k"] == "assign":
                    if s["p"]["l"] == l and s["p"]["proj"]:
                        n += 1
                    visit(s["rv"])
            t = b["term"]
            if t["k"] == "call":
                for a in t["args"]:
                    visit(a)
                if "op" in t["callee"]:
                    visit(t["callee"]["op"])
            elif t["k"] == "switch":
                visit(t["discr"])
            elif t["k"] == "assert":
                visit(t["cond"])
            elif t["k"] == "yield":
                visit(t.get("value"))
        return n

    def chase(self, body, op, depth=0):
        """Follow an operand back through copies, borrows and identity transports to the statement that created the
        value.  Returns ('closure'|'coroutine', def, local) | ('fn', def, None) | None."""
        if depth > 12 or op is None:
            return None
        if op["k"] == "const":
            if "fn" in op:
                return ("fn", op["fn"], None)
            if "closure" in op:
                return ("closure", op["closure"], None)
            return None
        p = op["p"]
        if p["proj"] and p["proj"][0]["k"] == "field" and all(e["k"] == "deref" for e in p["proj"][1:]):
            # a captured variable of a spliced closure / coroutine (or a tuple field): (env.N) is the N-th operand of the
            # construction
            agg = self.closure_agg(body, p["l"]) or self.agg_of(body, p["l"])
            if agg is None or p["proj"][0]["i"] >= len(agg["ops"]):
                return None
            return self.chase(body, agg["ops"][p["proj"][0]["i"]], depth + 1)
        if any(e["k"] not in ("deref",) for e in p["proj"]):
            return None
        ds = self.defs_of(body, p["l"])
        if len(ds) != 1:
            return None
        kind, bb, node = ds[0]
        if kind == "call":
            c = node["callee"].get("def")
            if c in CHASE_THROUGH and node["args"]:
                return self.chase(body, node["args"][0], depth + 1)
            return None
        rv = node["rv"]
        if rv["k"] == "use":
            return self.chase(body, rv["op"], depth + 1)
        if rv["k"] == "ref":
            return self.chase(body, {"k": "copy", "p": rv["p"]}, depth + 1)
        if rv["k"] == "cast" and rv["ck"].startswith("ptr:"):
            return self.chase(body, rv["op"], depth + 1)
        if rv["k"] == "aggregate" and rv["ak"] in ("closure", "coroutine"):
            return (rv["ak"], rv["def"], p["l"])
        return None

    def closure_agg(self, body, l, depth=0):
        """The closure construction a local holds (through plain moves / borrows), or None."""
        if depth > 8:
            return None
        ds = self.defs_of(body, l)
        if len(ds) != 1 or ds[0][0] != "stmt":
            return None
        rv = ds[0][2]["rv"]
        if rv["k"] == "aggregate" and rv["ak"] == "closure":
            return rv
        if rv["k"] == "use" and rv["op"]["k"] in ("copy", "move") and all(e["k"] == "deref" for e in rv["op"]["p"]["proj"]):
            return self.closure_agg(body, rv["op"]["p"]["l"], depth + 1)
        if rv["k"] == "ref" and all(e["k"] == "deref" for e in rv["p"]["proj"]):
            return self.closure_agg(body, rv["p"]["l"], depth + 1)
        return None

    def tuple_ops(self, body, op):
        """Operands of the argument tuple of an `Fn*::call*` call."""
        if op["k"] == "const":
            return [] if op.get("ty") == "()" else None
        if op["p"]["proj"]:
            return None
        ds = self.defs_of(body, op["p"]["l"])
        if len(ds) != 1 or ds[0][0] != "stmt":
            return None
        rv = ds[0][2]["rv"]
        if rv["k"] == "aggregate" and rv["ak"] == "tuple":
            return rv["ops"]
        return None

    # ------------------------------------------------------------------ N1b: calls of function values
    def try_fn_call(self, unit, body, bb):
        """`f()` where f is a function-pointer parameter / `impl Fn` parameter of a spliced helper and the caller passed a
        named function or a closure: the call is the call of that function (then spliced like any other)."""
        t = body["blocks"][bb]["term"]
        c = t["callee"]
        if t.get("target") is None:
            return False
        if c.get("indirect") == "fnptr" and "op" in c:
            w = self.chase(body, c["op"])
            if w is None or w[0] not in ("fn", "closure"):
                return False
            if w[0] == "closure":
                # a non-capturing closure coerced to a function pointer (its environment is empty and never read)
                u, cb = self.lookup(unit, w[1])
                if cb is None or (u, w[1]) in self.busy or cb.get("coroutine") or cb.get("upvars"):
                    return False
            fop, argops = c["op"], t["args"]
        elif c.get("def") in FN_TRAIT_CALLS and len(t["args"]) == 2:
            w = self.chase(body, t["args"][0])
            if w is None or w[0] not in ("fn", "closure"):
                return False
            argops = self.tuple_ops(body, t["args"][1])
            if argops is None:
                return False
            fop = t["args"][0]
            if w[0] == "closure":
                u, cb = self.lookup(unit, w[1])
                if cb is None or (u, w[1]) in self.busy or cb.get("coroutine"):
                    return False
        else:
            return False
        span = t["span"]
        saved = (len(body["locals"]), len(body["blocks"]))
        entry = self.emit_invoke(unit, body, fop, w, argops, copy.deepcopy(t["dest"]), t["target"], span)
        if entry is None:
            del body["locals"][saved[0]:]
            del body["blocks"][saved[1]:]
            return False
        body["blocks"][bb]["term"] = {"k": "goto", "target": entry, "span": span}
        if w[0] == "closure":
            u, _cb = self.lookup(unit, w[1])
            self.consumed.add((u, w[1]))
        self.notes.append("N1 call of a function value resolved to %s in %s" % (w[1], body["def"]))
        return True

    # ------------------------------------------------------------------ splicing
    def splice(self, caller, callee, type_map=None):
        """Append a renamed copy of callee's locals and blocks to caller. Returns (local offset, block offset)."""
        off = len(caller["locals"])
        boff = len(caller["blocks"])
        locs = copy.deepcopy(callee["locals"])
        blocks = copy.deepcopy(callee["blocks"])
        dbg = copy.deepcopy([d for d in callee["debug"] if d.get("p") is not None])
        _remap(blocks, off, boff)
        _remap(dbg, off, 0)
        if type_map:
            rx = re.compile(r"(?<![A-Za-z0-9_:])(" + "|".join(re.escape(k) for k in type_map) + r")(?![A-Za-z0-9_])")
            _subst_types(locs, rx, type_map)
            _subst_types(blocks, rx, type_map)
        for l in locs:
            l["i"] += off
            l["from"] = callee["def"]
            caller["locals"].append(l)
        for d in dbg:
            d.pop("arg", None)
            caller["debug"].append(d)
        for b in blocks:
            b["i"] += boff
            b.setdefault("from", callee["def"])
            caller["blocks"].append(b)
        return off, boff

    def bind_returns(self, caller, callee, off, boff, make_stmts, target):
        for b in caller["blocks"][boff:boff + len(callee["blocks"])]:
            if b["term"]["k"] == "return" and not b["cleanup"]:
                span = b["term"]["span"]
                ret = self.place(off, callee["locals"][0]["ty"])
                b["stmts"] = b["stmts"] + make_stmts(ret, span)
                b["term"] = {"k": "goto", "target": target, "span": span}

    def env_stmt(self, callee, off, fop, span):
        """Bind the closure environment parameter (_1 of the closure body)."""
        ty = callee["locals"][1]["ty"]
        dst = self.place(off + 1, ty)
        if fop["k"] != "const" and ty.startswith("&") and not fop["p"].get("ty", "").startswith("&"):
            return self.assign(dst, {"k": "ref", "bk": "mut" if ty.startswith("&mut") else "shared", "p": fop["p"]}, span)
        return self.assign(dst, self.use(fop), span)

    def emit_invoke(self, unit, caller, fop, what, argops, res_place, cont, span):
        """Blocks that compute res_place = f(argops) and continue at cont. `what` is the chase() result for f.
        Returns the entry block index, or None when f cannot be spliced."""
        kind, deff, floc = what
        if kind == "fn":
            callee = {"ty": fop.get("ty", ""), "def": deff, "def_args": fop.get("fn_args", deff), "krate": deff.split("::")[0].lstrip("<"),
                      "name": deff.rsplit("::", 1)[-1], "targs": [], "resolved": deff, "resolved_krate": deff.split("::")[0].lstrip("<"),
                      "ikind": "item", "synthetic": True}
            return self.new_block(caller, [], {"k": "call", "callee": callee, "args": argops, "dest": res_place, "target": cont,
                                               "unwind": None, "fn_span": span, "span": span})
        u, cb = self.lookup(unit, deff)
        if cb is None or cb["kind"] != "Closure" or cb.get("coroutine"):
            return None
        if not self.norm(u, cb):
            return None
        if cb["arg_count"] != 1 + len(argops):
            return None
        off, boff = self.splice(caller, cb)
        stmts = [self.env_stmt(cb, off, fop, span)]
        for i, a in enumerate(argops):
            stmts.append(self.assign(self.place(off + 2 + i, cb["locals"][2 + i]["ty"]), self.use(a), span))
        entry = self.new_block(caller, stmts, {"k": "goto", "target": boff, "span": span})
        self.bind_returns(caller, cb, off, boff, lambda ret, sp: [self.assign(res_place, self.use(self.mv(ret)), sp)], cont)
        return entry

    # ------------------------------------------------------------------ N12: helper with a continuation
    def _identity_wrapper_of(self, unit, b):
        """def of H when body b is exactly `H(p1, .., pn, |x| x)` (arguments = b's parameters in order, possibly reborrowed)."""
        blocks = [x for x in b["blocks"] if not x["cleanup"]]
        calls = [x for x in blocks if x["term"]["k"] == "call"]
        if len(calls) != 1 or b.get("kind") not in ("Fn", "AssocFn") or b.get("coroutine"):
            return None
        t = calls[0]["term"]
        c = t["callee"]
        if c.get("ikind") != "item" or not c.get("resolved") or c["resolved"] in self.keep or t.get("target") is None:
            return None
        if t["dest"]["l"] != 0 or t["dest"]["proj"] or len(t["args"]) != b["arg_count"] + 1:
            return None
        if any(x["term"]["k"] not in ("goto", "drop", "return", "call") for x in blocks):
            return None
        for i, a in enumerate(t["args"][:-1]):
            # each argument is parameter i+1, directly or through a reborrow
            if a["k"] == "const":
                return None
            l = a["p"]["l"]
            hops = 0
            while not (1 <= l <= b["arg_count"]) and hops < 4:
                ds = self.defs_of(b, l)
                if len(ds) != 1 or ds[0][0] != "stmt":
                    return None
                rv = ds[0][2]["rv"]
                src = rv["p"] if rv["k"] == "ref" else rv["op"].get("p") if rv["k"] == "use" and rv["op"]["k"] != "const" else None
                if src is None or any(e["k"] != "deref" for e in src["proj"]):
                    return None
                l = src["l"]
                hops += 1
            if l != i + 1:
                return None
        w = self.chase(b, t["args"][-1])
        if w is None or w[0] != "closure":
            return None
        u, cb = self.lookup(unit, w[1])
        if cb is None or cb["arg_count"] != 2 or cb.get("upvars"):
            return None
        cblocks = [x for x in cb["blocks"] if not x["cleanup"]]
        if len(cblocks) != 1 or cblocks[0]["term"]["k"] != "return":
            return None
        st = [x for x in cblocks[0]["stmts"] if x["k"] == "assign"]
        if len(st) != 1 or st[0]["p"]["l"] != 0 or st[0]["p"]["proj"] or st[0]["rv"]["k"] != "use" or st[0]["rv"]["op"]["k"] == "const" \
                or st[0]["rv"]["op"]["p"]["l"] != 2 or st[0]["rv"]["op"]["p"]["proj"]:
            return None
        return c["resolved"]

    def _tail_continuation(self, hb):
        """H calls its last parameter (the continuation) exactly once, and the result goes only into `Ok(result)` returned
        at once: H(args, f) is K(args).map(f) for K = H(args, identity)."""
        f = hb["arg_count"]
        carriers = {f}
        for x in hb["blocks"]:
            for st in x["stmts"]:
                if st["k"] == "assign" and st["rv"]["k"] == "use" and st["rv"]["op"]["k"] == "move" and not st["rv"]["op"]["p"]["proj"] \
                        and st["rv"]["op"]["p"]["l"] == f and not st["p"]["proj"] and len(self.defs_of(hb, st["p"]["l"])) == 1:
                    carriers.add(st["p"]["l"])
        sites = []
        for x in hb["blocks"]:
            t = x["term"]
            if x["cleanup"] or t["k"] != "call":
                continue
            if any(pl["l"] in carriers for pl in self._places_in(t["args"]) + self._places_in(t["callee"])):
                sites.append(x)
        if len(sites) != 1:
            return False
        t = sites[0]["term"]
        if t["callee"].get("def") not in FN_TRAIT_CALLS or t["args"][0]["k"] == "const" or t["args"][0]["p"]["l"] not in carriers or t["args"][0]["p"]["proj"] \
                or t.get("target") is None or t["dest"]["proj"]:
            return False
        for x in hb["blocks"]:
            if x["cleanup"]:
                continue
            for st in x["stmts"]:
                if st["k"] != "assign":
                    continue
                if any(pl["l"] in carriers for pl in self._places_in(st["rv"])) and not (st["p"]["l"] in carriers and st["rv"]["k"] == "use"):
                    return False
        r = t["dest"]["l"]
        # from the call on: straight to the return, the result wrapped in Ok on the way
        cur, wrapped, steps = t["target"], False, 0
        while steps < 30:
            steps += 1
            x = hb["blocks"][cur]
            for st in x["stmts"]:
                if st["k"] != "assign":
                    continue
                used = [pl for pl in self._places_in(st["rv"]) if pl["l"] == r]
                if not used:
                    continue
                rv = st["rv"]
                if rv["k"] == "use" and not st["p"]["proj"] and not used[0]["proj"]:
                    r = st["p"]["l"]
                elif rv["k"] == "aggregate" and rv.get("adt") == RESULT and rv.get("variant") == "Ok" and not wrapped and not used[0]["proj"] \
                        and not st["p"]["proj"]:
                    wrapped = True
                    r = st["p"]["l"]
                else:
                    return False
            tt = x["term"]
            if tt["k"] == "return":
                return wrapped and r == 0
            if tt["k"] in ("goto", "drop"):
                cur = tt["target"]
                continue
            return False
        return False

    def try_cps_wrapper(self, unit, body, bb):
        t = body["blocks"][bb]["term"]
        c = t["callee"]
        deff = c.get("resolved")
        if c.get("ikind") != "item" or deff not in self.cps_wrappers or t.get("target") is None or len(self.cps_wrappers[deff]) != 1:
            return False
        ku, kdef = self.cps_wrappers[deff][0]
        if (unit, body["def"]) == (ku, kdef):
            return False               # K itself keeps (a spliced copy of) H's body
        hu, hb = self.lookup(unit, deff)
        kb = self.bodies.get((ku, kdef))
        if hb is None or kb is None or len(t["args"]) != hb["arg_count"] or not self._tail_continuation(hb):
            return False
        fop = t["args"][-1]
        w = self.chase(body, fop)
        if w is None or w[0] not in ("fn", "closure"):
            return False
        if w[0] == "closure":
            u, cb = self.lookup(unit, w[1])
            if cb is None or (u, w[1]) in self.busy or cb.get("coroutine"):
                return False
        dty = split_targs(t["dest"]["ty"])
        kty = kb["locals"][0]["ty"]
        kta = split_targs(kty)
        if not t["dest"]["ty"].startswith(RESULT + "<") or len(dty) != 2 or not kty.startswith(RESULT + "<") or len(kta) != 2:
            return False
        span = t["span"]
        dest, target = copy.deepcopy(t["dest"]), t["target"]
        saved = (len(body["locals"]), len(body["blocks"]))
        tmp = self.new_local(body, kty, "result of %s (the helper with the identity continuation)" % kdef.rsplit("::", 1)[-1])
        rloc = self.new_local(body, dty[0], "result of the continuation")
        tp = self.place(tmp, kty)
        fin_ok = self.new_block(body, [self.assign(copy.deepcopy(dest), self.agg(RESULT, "Ok", [self.mv(self.place(rloc, dty[0]))]), span)],
                                {"k": "goto", "target": target, "span": span})
        ent_ok = self.emit_invoke(unit, body, fop, w, [self.mv(self.variant_payload(tp, RESULT, "Ok", 0, kta[0]))], self.place(rloc, dty[0]), fin_ok, span)
        if ent_ok is None:
            del body["locals"][saved[0]:]
            del body["blocks"][saved[1]:]
            return False
        ent_err = self.new_block(body, [self.assign(copy.deepcopy(dest), self.agg(RESULT, "Err", [self.mv(self.variant_payload(tp, RESULT, "Err", 1, kta[1]))]), span)],
                                 {"k": "goto", "target": target, "span": span})
        st, sw = self._disc_switch(body, tp, RESULT, ent_ok, ent_err, span, "continuation-passing helper")
        swb = self.new_block(body, [st], sw)
        kc = {"ty": "", "def": kdef, "def_args": kdef, "krate": kdef.split("::")[0].lstrip("<"), "name": kdef.rsplit("::", 1)[-1], "targs": [],
              "resolved": kdef, "resolved_krate": kdef.split("::")[0].lstrip("<"), "ikind": "item", "synthetic": True}
        for k_ in ("impl_self", "resolved_impl_self", "self_ty"):
            if c.get(k_):
                kc[k_] = c[k_]
        body["blocks"][bb]["term"] = {"k": "call", "callee": kc, "args": t["args"][:-1], "dest": tp, "target": swb, "unwind": t.get("unwind"),
                                      "fn_span": t.get("fn_span", span), "span": span}
        if w[0] == "closure":
            self.consumed.add((self.lookup(unit, w[1])[0], w[1]))
        self.notes.append("N12 %s(.., f) rewritten as %s(..).map(f) in %s" % (deff.rsplit("::", 1)[-1], kdef.rsplit("::", 1)[-1], body["def"]))
        return True

    # ------------------------------------------------------------------ N1: helper functions
    def try_inline_fn(self, unit, body, bb):
        t = body["blocks"][bb]["term"]
        c = t["callee"]
        if c.get("def") == "core::convert::Into::into" and len(c.get("targs", [])) == 2 and t.get("target") is not None:
            # `x.into()` goes through std's blanket impl to `U::from(x)`: when that `impl From<T> for U` is workspace code
            # (a new private conversion), it is the function that runs
            cand = self.from_impl(unit, c["targs"][1], c["targs"][0])
            if cand is not None:
                c = dict(c, resolved=cand, ikind="item", targs=[])
        if c.get("def_args") and ((c.get("trait") and c.get("ikind") != "item" and "resolved" not in c)
                                  or (c.get("synthetic") and self.lookup(unit, c.get("resolved") or "")[1] is None)):
            # `<A as Trait>::method` inside a generic helper, now that A is known: the impl method that runs
            cand = self.impl_methods.get(c["def_args"])
            if cand is None:
                hits = [d_ for key, gens, d_ in self.generic_impl_methods if unify_types(key, c["def_args"], gens) is not None]
                cand = hits[0] if len(hits) == 1 else None
            if cand is not None and cand not in self.keep and self.lookup(unit, cand)[1] is not None:
                c = dict(c, resolved=cand, ikind="item")
        if c.get("ikind") != "item" or not c.get("resolved") or t.get("target") is None:
            return False
        deff = c["resolved"]
        u, cb = self.lookup(unit, deff)
        sibling = False
        if deff in self.keep:
            # one method of a storage back end delegating to another method of the same back end (get_version_by_parent
            # -> self.get_version(child)): the callee is spliced (so the caller's effects are complete) and stays a unit
            sibling = (cb is not None and cb is not body and cb.get("impl_trait") and cb.get("impl_trait") == body.get("impl_trait")
                       and cb.get("impl_self") == body.get("impl_self") and cb["impl_trait"].endswith("::storage::StorageTxn"))
            if not sibling:
                return False
        if cb is None or cb["kind"] not in ("Fn", "AssocFn") or cb.get("coroutine"):
            return False
        # (a trait impl method is spliced like any other function when the call resolves to it statically and it is not
        # one of the pinned tree's functions: a new private extension trait, a private `impl From<..>` conversion)
        if cb is body or not self.norm(u, cb):
            return False
        if cb["arg_count"] != len(t["args"]):
            return False
        tm = None
        gens = [g for g in cb.get("generics", []) if not g.startswith("<")]
        if gens and cb.get("impl_trait_ref"):
            # a method of a generic trait impl (`impl<T> Ext<T> for Result<T, E>`): the impl's parameters are read off
            # the instantiated trait reference of the call
            mname = cb["def"].rsplit("::", 1)[-1]
            da = c.get("def_args", "")
            # method-level parameters (`fn protocol_header(&mut self, h: impl ProtocolHeader)`) are the `::<..>` suffix of
            # the instantiated path; the impl's own parameters are read off the trait reference
            impl_gens = [g for g in gens if re.search(r"(?<![A-Za-z0-9_:'])" + re.escape(g) + r"(?![A-Za-z0-9_])", cb["impl_trait_ref"])]
            meth_gens = [g for g in gens if g not in impl_gens]
            meth_args = []
            mm_ = re.match(r"^(.*::" + re.escape(mname) + r")::<(.*)>$", da)
            if mm_:
                da = mm_.group(1)
                meth_args = split_targs("X<" + mm_.group(2) + ">")
            if len(meth_args) != len(meth_gens):
                return False
            tm = unify_types(cb["impl_trait_ref"] + "::" + mname, da, impl_gens) if impl_gens else ({} if cb["impl_trait_ref"] + "::" + mname == da else None)
            if tm is None:
                return False
            tm = dict(tm)
            tm.update(dict(zip(meth_gens, meth_args)))
            if not tm:
                tm = None
        elif gens:
            targs = c.get("targs", [])
            if len(targs) != len(gens):
                return False
            tm = dict(zip(gens, targs))
        span = t["span"]
        off, boff = self.splice(body, cb, tm)
        blk = body["blocks"][bb]
        for i, a in enumerate(t["args"]):
            blk["stmts"].append(self.assign(self.place(off + 1 + i, body["locals"][off + 1 + i]["ty"]), self.use(a), span))
        dest, target = t["dest"], t["target"]
        blk["term"] = {"k": "goto", "target": boff, "span": span, "inlined_call": deff}
        self.bind_returns(body, cb, off, boff, lambda ret, sp: [self.assign(copy.deepcopy(dest), self.use(self.mv(ret)), sp)], target)
        if not sibling:
            self.inlined_fns.add((u, deff))
        self.notes.append("N1 %s spliced into %s" % (deff, body["def"]))
        return True

    # ------------------------------------------------------------------ N2: combinators
    def try_combinator(self, unit, body, bb):
        t = body["blocks"][bb]["term"]
        c = t["callee"].get("def")
        spec = COMBINATORS.get(c)
        if spec is None or t.get("target") is None:
            return False
        adt, res_adt, actions = spec
        scrut = t["args"][0]
        if scrut["k"] == "const":
            return False
        sp = scrut["p"]
        ta = split_targs(sp["ty"])
        if not sp["ty"].startswith(adt + "<") or not ta:
            return False
        payload_ty = {OPTION: [None, ta[0]], RESULT: [ta[0], ta[1] if len(ta) > 1 else "?"]}[adt]
        # resolve the function-valued arguments first; bail out (leave the call) if any is opaque
        fvals = {}
        for kind, src in actions:
            if isinstance(src, tuple) and src[0] == "call":
                w = self.chase(body, t["args"][src[1]])
                if w is None or w[0] not in ("fn", "closure"):
                    return False
                if w[0] == "closure":
                    u, cb = self.lookup(unit, w[1])
                    if cb is None or (u, w[1]) in self.busy or cb.get("coroutine"):
                        return False
                fvals[src[1]] = w
        span = t["span"]
        dest, target = t["dest"], t["target"]
        dres = split_targs(dest["ty"]) if res_adt else []
        arm_entries = []
        saved = (len(body["locals"]), len(body["blocks"]))
        ok = True
        for vi, (kind, src) in enumerate(actions):
            vname = VARIANTS[adt][vi]
            pty = payload_ty[vi]
            payload_op = self.mv(self.variant_payload(sp, adt, vname, vi, pty)) if pty else None
            # final block: write dest from `val`
            if kind in ("true", "false"):
                fin = self.new_block(body, [self.assign(copy.deepcopy(dest), self.use({"k": "const", "ty": "bool", "val": kind == "true"}), span)],
                                     {"k": "goto", "target": target, "span": span})
                arm_entries.append(fin)
                continue
            if src is None:            # wrap:None
                fin = self.new_block(body, [self.assign(copy.deepcopy(dest), self.agg(res_adt, kind[5:], []), span)],
                                     {"k": "goto", "target": target, "span": span})
                arm_entries.append(fin)
                continue
            if src == P:
                val_op, pre = payload_op, None
            elif src[0] == "arg":
                val_op, pre = t["args"][src[1]], None
            else:
                # value computed by f: result type from dest / wrapped dest
                if kind == "ret":
                    rty = dest["ty"]
                else:
                    vn = kind[5:]
                    k_ = VARIANTS[res_adt].index(vn)
                    rty = (dres[0] if (res_adt == OPTION or k_ == 0) else (dres[1] if len(dres) > 1 else "?")) if dres else "?"
                r = self.new_local(body, rty, "result of %s closure" % c.rsplit("::", 1)[-1])
                val_op, pre = self.mv(self.place(r, rty)), (src, r, rty)
            if kind == "ret":
                fin_stmts = [self.assign(copy.deepcopy(dest), self.use(val_op), span)]
            else:
                fin_stmts = [self.assign(copy.deepcopy(dest), self.agg(res_adt, kind[5:], [val_op]), span)]
            fin = self.new_block(body, fin_stmts, {"k": "goto", "target": target, "span": span})
            if pre is None:
                arm_entries.append(fin)
                continue
            src_, r, rty = pre
            fop = t["args"][src_[1]]
            entry = self.emit_invoke(unit, body, fop, fvals[src_[1]], [payload_op] if (src_[2] and payload_op) else [],
                                     self.place(r, rty), fin, span)
            if entry is None:
                ok = False
                break
            arm_entries.append(entry)
        if not ok:
            del body["locals"][saved[0]:]
            del body["blocks"][saved[1]:]
            return False
        d = self.new_local(body, "isize", "discriminant for desugared %s" % c.rsplit("::", 1)[-1])
        blk = body["blocks"][bb]
        blk["stmts"].append(self.assign(self.place(d, "isize"), {
            "k": "discriminant", "p": copy.deepcopy(sp), "adt": adt,
            "variants": [{"name": n, "idx": i, "discr": str(i)} for i, n in enumerate(VARIANTS[adt])]}, span))
        unreachable = self.new_block(body, [], {"k": "unreachable", "span": span})
        blk["term"] = {"k": "switch", "discr": self.mv(self.place(d, "isize")),
                       "arms": [{"v": "0", "t": arm_entries[0]}, {"v": "1", "t": arm_entries[1]}], "otherwise": unreachable,
                       "span": span, "desugared": c}
        for idx, w in fvals.items():
            if w[0] == "closure":
                u, _cb = self.lookup(unit, w[1])
                self.consumed.add((u, w[1]))      # dropped by sweep() unless some construction site lets it escape
        self.notes.append("N2 %s desugared in %s" % (c.split("::")[-1] + "@" + c.split("::")[2], body["def"]))
        return True

    def try_transpose(self, body, bb):
        """Option<Result<T,E>>::transpose and Result<Option<T>,E>::transpose as the nested match they stand for."""
        t = body["blocks"][bb]["term"]
        c = t["callee"].get("def")
        if c not in ("core::option::Option::<core::result::Result<T, E>>::transpose",
                     "core::result::Result::<core::option::Option<T>, E>::transpose") or t.get("target") is None:
            return False
        scrut = t["args"][0]
        if scrut["k"] == "const":
            return False
        sp = scrut["p"]
        outer = OPTION if c.startswith("core::option") else RESULT
        ta = split_targs(sp["ty"])
        if not sp["ty"].startswith(outer + "<") or not ta:
            return False
        span, dest, target = t["span"], t["dest"], t["target"]
        goto = {"k": "goto", "target": target, "span": span}

        def sw(place, adt, a0, a1):
            d = self.new_local(body, "isize", "discriminant for desugared transpose")
            st = self.assign(self.place(d, "isize"), {"k": "discriminant", "p": copy.deepcopy(place), "adt": adt,
                                                      "variants": [{"name": n, "idx": i, "discr": str(i)} for i, n in enumerate(VARIANTS[adt])]}, span)
            un = self.new_block(body, [], {"k": "unreachable", "span": span})
            return st, {"k": "switch", "discr": self.mv(self.place(d, "isize")), "arms": [{"v": "0", "t": a0}, {"v": "1", "t": a1}],
                        "otherwise": un, "span": span, "desugared": c}

        def wrap2(outer_adt, ov, inner_adt, iv, op, inner_ty):
            tmp = self.new_local(body, inner_ty, "transposed payload")
            return [self.assign(self.place(tmp, inner_ty), self.agg(inner_adt, iv, [op] if op else []), span),
                    self.assign(copy.deepcopy(dest), self.agg(outer_adt, ov, [self.mv(self.place(tmp, inner_ty))]), span)]
        dta = split_targs(dest["ty"])
        inner_dest_ty = dta[0] if dta else "?"
        if outer == OPTION:
            res_ty = ta[0]
            rta = split_targs(res_ty)
            if not res_ty.startswith(RESULT + "<") or len(rta) < 2:
                return False
            inner = self.place(self.new_local(body, res_ty, "Some payload of transposed option"), res_ty)
            b_none = self.new_block(body, wrap2(RESULT, "Ok", OPTION, "None", None, inner_dest_ty), dict(goto))
            b_ok = self.new_block(body, wrap2(RESULT, "Ok", OPTION, "Some", self.mv(self.variant_payload(inner, RESULT, "Ok", 0, rta[0])), inner_dest_ty), dict(goto))
            b_err = self.new_block(body, [self.assign(copy.deepcopy(dest), self.agg(RESULT, "Err", [self.mv(self.variant_payload(inner, RESULT, "Err", 1, rta[1]))]), span)], dict(goto))
            st2, sw2 = sw(inner, RESULT, b_ok, b_err)
            b_some = self.new_block(body, [self.assign(copy.deepcopy(inner), self.use(self.mv(self.variant_payload(sp, OPTION, "Some", 1, res_ty))), span), st2], sw2)
            st1, sw1 = sw(sp, OPTION, b_none, b_some)
        else:
            opt_ty = ta[0]
            ota = split_targs(opt_ty)
            if not opt_ty.startswith(OPTION + "<") or not ota or len(ta) < 2:
                return False
            inner = self.place(self.new_local(body, opt_ty, "Ok payload of transposed result"), opt_ty)
            b_none = self.new_block(body, [self.assign(copy.deepcopy(dest), self.agg(OPTION, "None", []), span)], dict(goto))
            b_some = self.new_block(body, wrap2(OPTION, "Some", RESULT, "Ok", self.mv(self.variant_payload(inner, OPTION, "Some", 1, ota[0])), inner_dest_ty), dict(goto))
            b_err = self.new_block(body, wrap2(OPTION, "Some", RESULT, "Err", self.mv(self.variant_payload(sp, RESULT, "Err", 1, ta[1])), inner_dest_ty), dict(goto))
            st2, sw2 = sw(inner, OPTION, b_none, b_some)
            b_ok = self.new_block(body, [self.assign(copy.deepcopy(inner), self.use(self.mv(self.variant_payload(sp, RESULT, "Ok", 0, opt_ty))), span), st2], sw2)
            st1, sw1 = sw(sp, RESULT, b_ok, b_err)
        blk = body["blocks"][bb]
        blk["stmts"].append(st1)
        blk["term"] = sw1
        self.notes.append("N2 transpose desugared in %s" % body["def"])
        return True

    def _disc_switch(self, body, place, adt, a0, a1, span, tag):
        d = self.new_local(body, "isize", "discriminant for desugared %s" % tag)
        st = self.assign(self.place(d, "isize"), {"k": "discriminant", "p": copy.deepcopy(place), "adt": adt,
                                                  "variants": [{"name": n, "idx": i, "discr": str(i)} for i, n in enumerate(VARIANTS[adt])]}, span)
        un = self.new_block(body, [], {"k": "unreachable", "span": span})
        return st, {"k": "switch", "discr": self.mv(self.place(d, "isize")), "arms": [{"v": "0", "t": a0}, {"v": "1", "t": a1}],
                    "otherwise": un, "span": span, "desugared": tag}

    def try_option_misc(self, unit, body, bb):
        """Option::zip / Option::filter / bool::then / bool::then_some as the matches they stand for."""
        t = body["blocks"][bb]["term"]
        c = t["callee"].get("def")
        if t.get("target") is None:
            return False
        span, dest, target = t["span"], t["dest"], t["target"]
        goto = {"k": "goto", "target": target, "span": span}
        blk = body["blocks"][bb]
        none_blk = lambda: self.new_block(body, [self.assign(copy.deepcopy(dest), self.agg(OPTION, "None", []), span)], dict(goto))  # noqa: E731
        if c == "core::option::Option::<T>::zip" and len(t["args"]) == 2 and all(a["k"] != "const" for a in t["args"]):
            pa, pb = t["args"][0]["p"], t["args"][1]["p"]
            ta, tb = split_targs(pa["ty"]), split_targs(pb["ty"])
            if not (pa["ty"].startswith(OPTION + "<") and pb["ty"].startswith(OPTION + "<") and ta and tb):
                return False
            tup_ty = "(%s, %s)" % (ta[0], tb[0])
            tup = self.new_local(body, tup_ty, "pair of desugared zip")
            both = self.new_block(body, [
                self.assign(self.place(tup, tup_ty), {"k": "aggregate", "ak": "tuple", "ops": [self.mv(self.variant_payload(pa, OPTION, "Some", 1, ta[0])),
                                                                                            self.mv(self.variant_payload(pb, OPTION, "Some", 1, tb[0]))]}, span),
                self.assign(copy.deepcopy(dest), self.agg(OPTION, "Some", [self.mv(self.place(tup, tup_ty))]), span)], dict(goto))
            st2, sw2 = self._disc_switch(body, pb, OPTION, none_blk(), both, span, c)
            inner = self.new_block(body, [st2], sw2)
            st1, sw1 = self._disc_switch(body, pa, OPTION, none_blk(), inner, span, c)
            blk["stmts"].append(st1)
            blk["term"] = sw1
            self.notes.append("N2 zip desugared in %s" % body["def"])
            return True
        if c == "core::option::Option::<T>::filter" and len(t["args"]) == 2 and t["args"][0]["k"] != "const":
            po = t["args"][0]["p"]
            to = split_targs(po["ty"])
            w = self.chase(body, t["args"][1])
            if not (po["ty"].startswith(OPTION + "<") and to) or w is None or w[0] not in ("fn", "closure"):
                return False
            if w[0] == "closure":
                u, cb = self.lookup(unit, w[1])
                if cb is None or (u, w[1]) in self.busy or cb.get("coroutine"):
                    return False
            saved = (len(body["locals"]), len(body["blocks"]))
            keep = self.new_local(body, "bool", "predicate result of desugared filter")
            pref = self.new_local(body, "&" + to[0], "&payload for desugared filter")
            some_blk = self.new_block(body, [self.assign(copy.deepcopy(dest), self.agg(OPTION, "Some", [self.mv(self.variant_payload(po, OPTION, "Some", 1, to[0]))]), span)], dict(goto))
            test = self.new_block(body, [], {"k": "switch", "discr": self.mv(self.place(keep, "bool")), "arms": [{"v": "0", "t": none_blk()}], "otherwise": some_blk, "span": span})
            entry = self.emit_invoke(unit, body, t["args"][1], w, [self.mv(self.place(pref, "&" + to[0]))], self.place(keep, "bool"), test, span)
            if entry is None:
                del body["locals"][saved[0]:]
                del body["blocks"][saved[1]:]
                return False
            pre = self.new_block(body, [self.assign(self.place(pref, "&" + to[0]), {"k": "ref", "bk": "shared", "p": self.variant_payload(po, OPTION, "Some", 1, to[0])}, span)],
                                 {"k": "goto", "target": entry, "span": span})
            st1, sw1 = self._disc_switch(body, po, OPTION, none_blk(), pre, span, c)
            blk["stmts"].append(st1)
            blk["term"] = sw1
            if w[0] == "closure":
                self.consumed.add((self.lookup(unit, w[1])[0], w[1]))
            self.notes.append("N2 filter desugared in %s" % body["def"])
            return True
        if c in ("core::bool::<impl bool>::then_some", "core::bool::<impl bool>::then") and len(t["args"]) == 2:
            cond = t["args"][0]
            if c.endswith("then_some"):
                some_blk = self.new_block(body, [self.assign(copy.deepcopy(dest), self.agg(OPTION, "Some", [t["args"][1]]), span)], dict(goto))
            else:
                w = self.chase(body, t["args"][1])
                if w is None or w[0] not in ("fn", "closure"):
                    return False
                if w[0] == "closure":
                    u, cb = self.lookup(unit, w[1])
                    if cb is None or (u, w[1]) in self.busy or cb.get("coroutine"):
                        return False
                saved = (len(body["locals"]), len(body["blocks"]))
                dta = split_targs(dest["ty"])
                rty = dta[0] if dta else "?"
                r = self.new_local(body, rty, "result of desugared then closure")
                fin = self.new_block(body, [self.assign(copy.deepcopy(dest), self.agg(OPTION, "Some", [self.mv(self.place(r, rty))]), span)], dict(goto))
                some_blk = self.emit_invoke(unit, body, t["args"][1], w, [], self.place(r, rty), fin, span)
                if some_blk is None:
                    del body["locals"][saved[0]:]
                    del body["blocks"][saved[1]:]
                    return False
                if w[0] == "closure":
                    self.consumed.add((self.lookup(unit, w[1])[0], w[1]))
            blk["term"] = {"k": "switch", "discr": cond, "arms": [{"v": "0", "t": none_blk()}], "otherwise": some_blk, "span": span, "desugared": c}
            self.notes.append("N2 %s desugared in %s" % (c.rsplit("::", 1)[-1], body["def"]))
            return True
        return False

    def try_array_contains(self, body, bb):
        """`[a, b, ..].contains(&x)` on an array literal is `x == a || x == b || ..`: written out as the equality tests."""
        t = body["blocks"][bb]["term"]
        if t["callee"].get("def") != "core::slice::<impl [T]>::contains" or t.get("target") is None or len(t["args"]) != 2:
            return False
        if any(a["k"] == "const" for a in t["args"]):
            return False
        # chase the receiver to the array literal
        cur, hops, lit = t["args"][0]["p"], 0, None
        while hops < 8 and not cur["proj"]:
            hops += 1
            ds = self.defs_of(body, cur["l"])
            if len(ds) != 1 or ds[0][0] != "stmt":
                break
            rv = ds[0][2]["rv"]
            if rv["k"] == "aggregate" and rv.get("ak") == "array":
                lit = (ds[0][2], rv)
                break
            if rv["k"] == "use" and rv["op"]["k"] in ("copy", "move"):
                cur = rv["op"]["p"]
            elif rv["k"] == "cast" and rv["op"]["k"] in ("copy", "move"):
                cur = rv["op"]["p"]
            elif rv["k"] == "ref":
                cur = {"l": rv["p"]["l"], "proj": [e for e in rv["p"]["proj"] if e["k"] != "deref"], "ty": rv["p"]["ty"]}
            else:
                break
        if lit is None or not (1 <= len(lit[1]["ops"]) <= 8):
            return False
        aty = lit[0]["p"]["ty"]
        mm = re.match(r"\[(.*); \d+\]$", aty)
        if not mm:
            return False
        ety = mm.group(1)
        span, dest, target = t["span"], t["dest"], t["target"]
        xref = t["args"][1]
        yes = self.new_block(body, [self.assign(copy.deepcopy(dest), self.use({"k": "const", "ty": "bool", "val": True}), span)], {"k": "goto", "target": target, "span": span})
        nxt = self.new_block(body, [self.assign(copy.deepcopy(dest), self.use({"k": "const", "ty": "bool", "val": False}), span)], {"k": "goto", "target": target, "span": span})
        for op in reversed(lit[1]["ops"]):
            el = self.new_local(body, ety, "element of desugared contains()")
            er = self.new_local(body, "&" + ety, "&element of desugared contains()")
            bl = self.new_local(body, "bool", "equality of desugared contains()")
            val_op = op if op["k"] == "const" else {"k": "copy", "p": copy.deepcopy(op["p"])}
            test = self.new_block(body, [], {"k": "switch", "discr": self.mv(self.place(bl, "bool")), "arms": [{"v": "0", "t": nxt}], "otherwise": yes, "span": span})
            callb = self.new_block(body, [self.assign(self.place(el, ety), self.use(val_op), span),
                                          self.assign(self.place(er, "&" + ety), {"k": "ref", "bk": "shared", "p": self.place(el, ety)}, span)],
                                   self.synth_call(body, "core::cmp::PartialEq::eq", [{"k": "copy", "p": copy.deepcopy(xref["p"])}, self.mv(self.place(er, "&" + ety))],
                                                   self.place(bl, "bool"), test, span))
            body["blocks"][callb]["term"]["callee"]["trait"] = "core::cmp::PartialEq"
            body["blocks"][callb]["term"]["callee"]["self_ty"] = ety
            nxt = callb
        body["blocks"][bb]["term"] = {"k": "goto", "target": nxt, "span": span, "desugared": "slice::contains on an array literal"}
        self.notes.append("N2 [..].contains(&x) written out in %s" % body["def"])
        return True

    # ------------------------------------------------------------------ N3: awaited workspace coroutines
    def try_poll(self, unit, body, bb):
        t = body["blocks"][bb]["term"]
        if t["callee"].get("def") != POLL_FN or t.get("target") is None or len(t["args"]) != 2:
            return False
        w = self.chase(body, t["args"][0])
        if w is None or w[0] != "coroutine" or w[2] is None:
            return False
        u, cb = self.lookup(unit, w[1])
        if cb is None or not cb.get("coroutine") or cb is body or not self.norm(u, cb):
            return False
        span = t["span"]
        off, boff = self.splice(body, cb)
        blk = body["blocks"][bb]
        futp = self.place(w[2], body["locals"][w[2]]["ty"])
        blk["stmts"].append(self.assign(self.place(off + 1, body["locals"][off + 1]["ty"]), self.use(self.mv(futp)), span))
        if cb["arg_count"] >= 2:
            blk["stmts"].append(self.assign(self.place(off + 2, body["locals"][off + 2]["ty"]), self.use(t["args"][1]), span))
        dest, target = t["dest"], t["target"]
        blk["term"] = {"k": "goto", "target": boff, "span": span, "inlined_await": w[1]}
        self.bind_returns(body, cb, off, boff,
                          lambda ret, sp: [self.assign(copy.deepcopy(dest), self.agg(POLL, "Ready", [self.mv(ret)]), sp)], target)
        # the awaiting loop's Pending arm is dead now (the spliced body yields by itself): cut it
        tb = body["blocks"][target]
        if (len(tb["stmts"]) == 1 and tb["stmts"][0]["k"] == "assign" and tb["stmts"][0]["rv"]["k"] == "discriminant"
                and tb["stmts"][0]["rv"]["p"]["l"] == dest["l"] and tb["term"]["k"] == "switch"):
            ready = [a["t"] for a in tb["term"]["arms"] if a["v"] == "0"]
            if ready:
                tb["term"] = {"k": "goto", "target": ready[0], "span": tb["term"]["span"], "was_poll_switch": True}
        self.consumed.add((u, w[1]))
        self.notes.append("N3 awaited %s spliced into %s" % (w[1], body["def"]))
        return True

    # ------------------------------------------------------------------ N5: internal iteration
    ITER = "core::iter::traits::iterator::Iterator::"
    LOOPS = {ITER + "try_fold": ("try", True), ITER + "fold": ("plain", True), ITER + "for_each": ("plain", False),
             ITER + "try_for_each": ("try", False)}

    def try_iter_loop(self, unit, body, bb):
        """`iter.try_fold(init, f)` / `fold` / `for_each` / `try_for_each` as the `for` loop they stand for
        (next() / match / closure body / `?`), so that loops are analysed in one spelling."""
        t = body["blocks"][bb]["term"]
        c = t["callee"].get("def")
        spec = self.LOOPS.get(c)
        if spec is None or t.get("target") is None:
            return False
        mode, has_acc = spec
        if len(t["args"]) != (3 if has_acc else 2) or t["args"][0]["k"] == "const":
            return False
        fop = t["args"][-1]
        w = self.chase(body, fop)
        if w is None or w[0] != "closure":
            return False
        u, cb = self.lookup(unit, w[1])
        if cb is None or (u, w[1]) in self.busy or cb.get("coroutine") or cb["arg_count"] != (3 if has_acc else 2):
            return False
        span, dest, target = t["span"], t["dest"], t["target"]
        if mode == "try" and not (dest["ty"].startswith(RESULT + "<") or dest["ty"].startswith(OPTION + "<")):
            return False
        saved = (len(body["locals"]), len(body["blocks"]))
        itop = t["args"][0]
        ity = itop["p"]["ty"]
        it = self.new_local(body, ity, "iterator of desugared %s" % c.rsplit("::", 1)[-1])
        item_ty = cb["locals"][3 if has_acc else 2]["ty"]
        rty = cb["locals"][0]["ty"]
        nxty = "core::option::Option<%s>" % item_ty
        nx = self.new_local(body, nxty, "next() of desugared loop")
        if has_acc:
            aop = t["args"][1]
            aty = aop["p"]["ty"] if aop["k"] != "const" else aop.get("ty", "?")
            acc = self.new_local(body, aty, "accumulator of desugared loop")
        r = self.new_local(body, rty, "result of the loop closure")
        itr = self.new_local(body, "&mut " + ity, "&mut iterator")
        d1 = self.new_local(body, "isize", "discriminant of next()")
        CF = "core::ops::control_flow::ControlFlow"
        # blocks (forward references patched below)
        head = self.new_block(body, [self.assign(self.place(itr, "&mut " + ity), {"k": "ref", "bk": "mut", "p": self.place(it, ity)}, span)], None)
        chk = self.new_block(body, [self.assign(self.place(d1, "isize"), {"k": "discriminant", "p": self.place(nx, nxty), "adt": OPTION,
                                    "variants": [{"name": n, "idx": i, "discr": str(i)} for i, n in enumerate(VARIANTS[OPTION])]}, span)], None)
        body["blocks"][head]["term"] = self.synth_call(body, self.ITER + "next", [self.mv(self.place(itr, "&mut " + ity))], self.place(nx, nxty), chk, span)
        body["blocks"][head]["term"]["callee"]["trait"] = "core::iter::traits::iterator::Iterator"
        un = self.new_block(body, [], {"k": "unreachable", "span": span})
        # after the closure
        if mode == "try":
            cfty = CF + "<?, %s>" % (aty if has_acc else "()")
            cf = self.new_local(body, cfty, "branch() of the loop closure's result")
            d2 = self.new_local(body, "isize", "discriminant of branch()")
            cont_stmts = [self.assign(self.place(acc, aty), self.use(self.mv({"l": cf, "ty": aty, "proj": [
                {"k": "downcast", "i": 0, "name": "Continue", "adt": CF}, {"k": "field", "i": 0, "ty": aty, "name": "0", "adt": CF}]})), span)] if has_acc else []
            cont = self.new_block(body, cont_stmts, {"k": "goto", "target": head, "span": span})
            resid = {"l": cf, "ty": "?", "proj": [{"k": "downcast", "i": 1, "name": "Break", "adt": CF}, {"k": "field", "i": 0, "ty": "?", "name": "0", "adt": CF}]}
            brk = self.new_block(body, [], self.synth_call(body, "core::ops::try_trait::FromResidual::from_residual", [self.mv(resid)], copy.deepcopy(dest), target, span))
            sw = self.new_block(body, [self.assign(self.place(d2, "isize"), {"k": "discriminant", "p": self.place(cf, cfty), "adt": CF,
                                       "variants": [{"name": "Continue", "idx": 0, "discr": "0"}, {"name": "Break", "idx": 1, "discr": "1"}]}, span)],
                                {"k": "switch", "discr": self.mv(self.place(d2, "isize")), "arms": [{"v": "0", "t": cont}, {"v": "1", "t": brk}], "otherwise": un, "span": span})
            after = self.new_block(body, [], self.synth_call(body, "core::ops::try_trait::Try::branch", [self.mv(self.place(r, rty))], self.place(cf, cfty), sw, span))
        else:
            after = self.new_block(body, [self.assign(self.place(acc, aty), self.use(self.mv(self.place(r, rty))), span)] if has_acc else [],
                                   {"k": "goto", "target": head, "span": span})
        item = self.mv(self.variant_payload(self.place(nx, nxty), OPTION, "Some", 1, item_ty))
        argops = ([self.mv(self.place(acc, aty))] if has_acc else []) + [item]
        step = self.emit_invoke(unit, body, fop, w, argops, self.place(r, rty), after, span)
        if step is None:
            del body["locals"][saved[0]:]
            del body["blocks"][saved[1]:]
            return False
        # loop exit
        if mode == "try":
            wrap = "Ok" if dest["ty"].startswith(RESULT + "<") else "Some"
            adt = RESULT if wrap == "Ok" else OPTION
            if has_acc:
                done_stmts = [self.assign(copy.deepcopy(dest), self.agg(adt, wrap, [self.mv(self.place(acc, aty))]), span)]
            else:
                ul = self.new_local(body, "()", "unit")
                done_stmts = [self.assign(self.place(ul, "()"), {"k": "aggregate", "ak": "tuple", "ops": []}, span),
                              self.assign(copy.deepcopy(dest), self.agg(adt, wrap, [self.mv(self.place(ul, "()"))]), span)]
        elif has_acc:
            done_stmts = [self.assign(copy.deepcopy(dest), self.use(self.mv(self.place(acc, aty))), span)]
        else:
            done_stmts = [self.assign(copy.deepcopy(dest), {"k": "aggregate", "ak": "tuple", "ops": []}, span)]
        done = self.new_block(body, done_stmts, {"k": "goto", "target": target, "span": span})
        body["blocks"][chk]["term"] = {"k": "switch", "discr": self.mv(self.place(d1, "isize")), "arms": [{"v": "0", "t": done}, {"v": "1", "t": step}],
                                       "otherwise": un, "span": span, "desugared": c}
        blk = body["blocks"][bb]
        blk["stmts"].append(self.assign(self.place(it, ity), self.use(itop), span))
        if has_acc:
            blk["stmts"].append(self.assign(self.place(acc, aty), self.use(t["args"][1]), span))
        blk["term"] = {"k": "goto", "target": head, "span": span, "desugared": c}
        self.consumed.add((u, w[1]))
        self.notes.append("N5 %s desugared into a loop in %s" % (c.rsplit("::", 1)[-1], body["def"]))
        return True

    # ------------------------------------------------------------------ N5b: find / any / all as loops
    SEARCHES = {ITER + "find": "find", ITER + "any": "any", ITER + "all": "all"}

    def try_search_loop(self, unit, body, bb):
        """`iter.find(p)` / `any(p)` / `all(p)` as the loop they stand for: next(); test; leave at the first hit."""
        t = body["blocks"][bb]["term"]
        mode = self.SEARCHES.get(t["callee"].get("def"))
        if mode is None or t.get("target") is None or len(t["args"]) != 2 or t["args"][0]["k"] == "const":
            return False
        fop = t["args"][1]
        w = self.chase(body, fop)
        if w is None or w[0] != "closure":
            return False
        u, cb = self.lookup(unit, w[1])
        if cb is None or (u, w[1]) in self.busy or cb.get("coroutine") or cb["arg_count"] != 2:
            return False
        span, dest, target = t["span"], t["dest"], t["target"]
        saved = (len(body["locals"]), len(body["blocks"]))
        itop = t["args"][0]
        ity = itop["p"]["ty"]
        arg_ty = cb["locals"][2]["ty"]                 # `&Item` for find, `Item` for any / all
        item_ty = arg_ty[1:].lstrip() if mode == "find" and arg_ty.startswith("&") else arg_ty
        if mode == "find" and not arg_ty.startswith("&"):
            return False
        nxty = "%s<%s>" % (OPTION, item_ty)
        it = self.new_local(body, ity, "iterator of desugared %s" % mode)
        nx = self.new_local(body, nxty, "next() of desugared %s" % mode)
        itr = self.new_local(body, "&mut " + ity, "&mut iterator")
        d1 = self.new_local(body, "isize", "discriminant of next()")
        r = self.new_local(body, "bool", "result of the %s predicate" % mode)
        head = self.new_block(body, [self.assign(self.place(itr, "&mut " + ity), {"k": "ref", "bk": "mut", "p": self.place(it, ity)}, span)], None)
        chk = self.new_block(body, [self.assign(self.place(d1, "isize"), {"k": "discriminant", "p": self.place(nx, nxty), "adt": OPTION,
                                    "variants": [{"name": n_, "idx": i_, "discr": str(i_)} for i_, n_ in enumerate(VARIANTS[OPTION])]}, span)], None)
        body["blocks"][head]["term"] = self.synth_call(body, self.ITER + "next", [self.mv(self.place(itr, "&mut " + ity))], self.place(nx, nxty), chk, span)
        body["blocks"][head]["term"]["callee"]["trait"] = "core::iter::traits::iterator::Iterator"
        un = self.new_block(body, [], {"k": "unreachable", "span": span})
        item_place = self.variant_payload(self.place(nx, nxty), OPTION, "Some", 1, item_ty)

        def const_bool(v):
            return self.use({"k": "const", "ty": "bool", "val": v})
        if mode == "find":
            hit = self.new_block(body, [self.assign(copy.deepcopy(dest), self.agg(OPTION, "Some", [self.mv(copy.deepcopy(item_place))]), span)],
                                 {"k": "goto", "target": target, "span": span})
            miss_stmt = self.assign(copy.deepcopy(dest), self.agg(OPTION, "None", []), span)
            on_true, on_false = hit, head
        elif mode == "any":
            hit = self.new_block(body, [self.assign(copy.deepcopy(dest), const_bool(True), span)], {"k": "goto", "target": target, "span": span})
            miss_stmt = self.assign(copy.deepcopy(dest), const_bool(False), span)
            on_true, on_false = hit, head
        else:
            hit = self.new_block(body, [self.assign(copy.deepcopy(dest), const_bool(False), span)], {"k": "goto", "target": target, "span": span})
            miss_stmt = self.assign(copy.deepcopy(dest), const_bool(True), span)
            on_true, on_false = head, hit
        after = self.new_block(body, [], {"k": "switch", "discr": self.mv(self.place(r, "bool")), "arms": [{"v": "0", "t": on_false}], "otherwise": on_true,
                                          "span": span, "desugared": mode})
        if mode == "find":
            ir = self.new_local(body, arg_ty, "&item handed to the find predicate")
            pre = self.new_block(body, [self.assign(self.place(ir, arg_ty), {"k": "ref", "bk": "shared", "p": copy.deepcopy(item_place)}, span)], None)
            step = self.emit_invoke(unit, body, fop, w, [self.mv(self.place(ir, arg_ty))], self.place(r, "bool"), after, span)
            if step is not None:
                body["blocks"][pre]["term"] = {"k": "goto", "target": step, "span": span}
                step = pre
        else:
            step = self.emit_invoke(unit, body, fop, w, [self.mv(copy.deepcopy(item_place))], self.place(r, "bool"), after, span)
        if step is None:
            del body["locals"][saved[0]:]
            del body["blocks"][saved[1]:]
            return False
        done = self.new_block(body, [miss_stmt], {"k": "goto", "target": target, "span": span})
        body["blocks"][chk]["term"] = {"k": "switch", "discr": self.mv(self.place(d1, "isize")), "arms": [{"v": "0", "t": done}, {"v": "1", "t": step}],
                                       "otherwise": un, "span": span, "desugared": mode}
        blk = body["blocks"][bb]
        blk["stmts"].append(self.assign(self.place(it, ity), self.use(itop), span))
        blk["term"] = {"k": "goto", "target": head, "span": span, "desugared": mode}
        self.consumed.add((u, w[1]))
        self.notes.append("N5 %s desugared into a loop in %s" % (mode, body["def"]))
        return True

    # ------------------------------------------------------------------ N11: loops over a literal array / slice
    ARRAY_ITERS = ("core::slice::iter::<impl core::iter::traits::collect::IntoIterator for &'a [T]>::into_iter",
                   "core::array::iter::<impl core::iter::traits::collect::IntoIterator for [T; N]>::into_iter",
                   "core::array::<impl core::iter::traits::collect::IntoIterator for &'a [T; N]>::into_iter",
                   "core::slice::<impl [T]>::iter", "core::iter::traits::collect::IntoIterator::into_iter")
    ARRAY_NEXT = ("<core::slice::iter::Iter<'a, T> as core::iter::traits::iterator::Iterator>::next",
                  "<core::array::iter::IntoIter<T, N> as core::iter::traits::iterator::Iterator>::next",
                  "core::iter::traits::iterator::Iterator::next")

    def literal_array(self, body, op, depth=0):
        """Element operands of the array literal an iterator source denotes (through borrows, unsizing, moves), or None."""
        if depth > 12 or op is None:
            return None
        if op["k"] == "const":
            return self.const_array(body, op)
        p = op["p"]
        if any(e["k"] != "deref" for e in p["proj"]):
            return None
        l = p["l"]
        if 1 <= l <= body["arg_count"]:
            return None
        ds = self.defs_of(body, l)
        if len(ds) != 1:
            return None
        kind, bbi, node = ds[0]
        if kind == "call":
            if node["callee"].get("def") in self.ARRAY_ITERS and node["args"]:
                return self.literal_array(body, node["args"][0], depth + 1)
            return None
        rv = node["rv"]
        if rv["k"] == "use":
            return self.literal_array(body, rv["op"], depth + 1)
        if rv["k"] == "cast" and rv["ck"].startswith("ptr:Unsize"):
            return self.literal_array(body, rv["op"], depth + 1)
        if rv["k"] == "ref":
            return self.literal_array(body, {"k": "copy", "p": rv["p"]}, depth + 1)
        if rv["k"] == "aggregate" and rv["ak"] == "array":
            # the array itself must not be written through afterwards
            for b in body["blocks"]:
                for st in b["stmts"]:
                    if st["k"] == "assign" and ((st["p"]["l"] == l and st["p"]["proj"]) or
                                                (st["rv"]["k"] in ("ref", "addr") and st["rv"].get("p", {}).get("l") == l and st["rv"].get("bk") == "mut")):
                        return None
            return list(rv["ops"])
        return None

    def const_array(self, body, op):
        """Elements of a named array constant whose initialiser is straight-line construction of literals
        (`const ALL: [Kind; 2] = [Kind::A, Kind::B]`): the initialiser's statements are re-created in `body` (fresh locals,
        appended to the entry block -- they only build constants) and the element operands returned."""
        d = op.get("def")
        if not d:
            return None
        key = (id(body), d)
        if key in self._const_arrays:
            return self._const_arrays[key]
        res = None
        u, cb = self.lookup(self._unit, d)
        if cb is not None and str(cb.get("kind", "")).startswith(("Const", "AssocConst")):
            blocks = [x for x in cb["blocks"] if not x["cleanup"]]
            if len(blocks) == 1 and blocks[0]["term"]["k"] == "return" and all(
                    st["k"] == "assign" and not st["p"]["proj"] and (
                        (st["rv"]["k"] == "aggregate" and st["rv"]["ak"] in ("adt", "array", "tuple")) or
                        (st["rv"]["k"] == "use")) for st in blocks[0]["stmts"]):
                off = len(body["locals"])
                stmts = copy.deepcopy(blocks[0]["stmts"])
                _remap(stmts, off, 0)
                arr = [st for st in stmts if st["p"]["l"] == off and st["rv"]["k"] == "aggregate" and st["rv"]["ak"] == "array"]
                if len(arr) == 1 and sum(1 for st in stmts if st["p"]["l"] == off) == 1:
                    for l_ in copy.deepcopy(cb["locals"]):
                        l_["i"] += off
                        l_["from"] = d
                        body["locals"].append(l_)
                    body["blocks"][0]["stmts"] = [st for st in stmts if st is not arr[0]] + body["blocks"][0]["stmts"]
                    res = list(arr[0]["rv"]["ops"])
        self._const_arrays[key] = res
        return res

    def try_unroll(self, unit, body, bb):
        """`for x in [a, b, c]` / `for x in &[..]` / `slice.iter()` over an array literal of known length: the loop body once per
        element, in order (a table-driven sequence of statements is the sequence of statements)."""
        blk = body["blocks"][bb]
        t = blk["term"]
        if t["k"] != "call" or t["callee"].get("def") not in self.ARRAY_NEXT or t.get("target") is None or len(t["args"]) != 1 \
                or t["args"][0]["k"] == "const" or t["dest"]["proj"]:
            return False
        dty = t["dest"]["ty"]
        if not dty.startswith(OPTION + "<"):
            return False
        item_ty = dty[len(OPTION) + 1:-1]
        # the iterator local behind `&mut iter`
        itl = None
        cur = t["args"][0]
        for _ in range(6):
            p = cur["p"]
            if any(e["k"] != "deref" for e in p["proj"]):
                return False
            ds = self.defs_of(body, p["l"])
            if len(ds) != 1:
                return False
            if ds[0][0] == "stmt" and ds[0][2]["rv"]["k"] == "ref":
                rp = ds[0][2]["rv"]["p"]
                if rp["proj"] and not all(e["k"] == "deref" for e in rp["proj"]):
                    return False
                nds = self.defs_of(body, rp["l"])
                if len(nds) == 1 and not (nds[0][0] == "stmt" and nds[0][2]["rv"]["k"] == "ref"):
                    itl = rp["l"]
                    break
                cur = {"k": "copy", "p": rp}
                continue
            if ds[0][0] == "stmt" and ds[0][2]["rv"]["k"] == "use" and ds[0][2]["rv"]["op"]["k"] != "const":
                cur = ds[0][2]["rv"]["op"]
                continue
            return False
        if itl is None:
            return False
        elems = self.literal_array(body, {"k": "copy", "p": self.place(itl, "")})
        if elems is None or len(elems) > 8:
            return False
        by_ref = item_ty.startswith("&")
        # next() is called on this iterator only here
        ncalls = 0
        for b in body["blocks"]:
            tt = b["term"]
            if b["cleanup"] or tt["k"] != "call" or b.get("unrolled"):
                continue
            if tt["callee"].get("def") in self.ARRAY_NEXT and tt["args"] and tt["args"][0]["k"] != "const":
                ncalls += 1 if self._iter_of(body, tt["args"][0]) == itl else 0
        if ncalls != 1:
            return False
        # the loop: blocks on a cycle through the header
        def succs(i):
            tt = body["blocks"][i]["term"]
            if tt["k"] == "switch":
                return [a["t"] for a in tt["arms"]] + [tt["otherwise"]]
            return [x for x in (tt.get("target"),) if isinstance(x, int)]
        fwd, st = set(), [bb]
        while st:
            i = st.pop()
            if i in fwd:
                continue
            fwd.add(i)
            st.extend(succs(i))
        preds = {}
        for i in fwd:
            for j in succs(i):
                preds.setdefault(j, []).append(i)
        back, st = set(), [bb]
        while st:
            i = st.pop()
            if i in back:
                continue
            back.add(i)
            st.extend(x for x in preds.get(i, []) if x in fwd)
        L = fwd & back
        if bb not in L or len(L) < 2 or len(L) > 400 or len(L) * len(elems) > 1500:
            return False
        if any(body["blocks"][i]["cleanup"] for i in L):
            return False
        # the switch on next()'s result decides staying in / leaving the loop
        chk = t["target"]
        ct = body["blocks"][chk]["term"]
        if ct["k"] != "switch":
            return False
        some_t = [a["t"] for a in ct["arms"] if a["v"] == "1"]
        none_t = [a["t"] for a in ct["arms"] if a["v"] == "0"]
        if len(some_t) != 1 or len(none_t) != 1 or some_t[0] not in L or none_t[0] in L:
            return False
        # the ways out of the loop other than exhaustion (`return Err(..)`, `break`) up to where they meet code that is also
        # reached after the loop: copied with the iteration they leave (their values belong to that iteration)
        after_loop, st = set(), [none_t[0]]
        while st:
            i = st.pop()
            if i in after_loop or i in L:
                continue
            after_loop.add(i)
            st.extend(succs(i))
        tails, st = set(), [j for i in L for j in succs(i) if j not in L]
        while st:
            i = st.pop()
            if i in tails or i in L or i in after_loop or body["blocks"][i]["cleanup"]:
                continue
            tails.add(i)
            st.extend(succs(i))
        allpreds = {}
        for b in body["blocks"]:
            if b["cleanup"]:
                continue
            for j in succs(b["i"]):
                allpreds.setdefault(j, set()).add(b["i"])
        shrink = True
        while shrink:
            shrink = False
            for i in list(tails):
                if not allpreds.get(i, set()) <= (L | tails):
                    tails.discard(i)
                    shrink = True
        if len(L | tails) * len(elems) > 2500:
            tails = set()
        L = L | tails
        # locals private to one iteration: every occurrence inside L, and never read before written on a path from the header
        occ_in, occ_out = {}, set()
        for b in body["blocks"]:
            if b["cleanup"]:
                continue          # (drops on the unwind paths: shared, and not read by any analysis)
            tgt = occ_in if b["i"] in L else None
            for pl in self._places_in(b["stmts"]) + self._places_in(b["term"]):
                ls = [pl["l"]] + [e["l"] for e in pl["proj"] if e.get("k") == "index" and isinstance(e.get("l"), int)]
                for l_ in ls:
                    if tgt is None:
                        occ_out.add(l_)
                    else:
                        occ_in.setdefault(l_, 0)
        private = set(l_ for l_ in occ_in if l_ not in occ_out and l_ != 0 and not (1 <= l_ <= body["arg_count"]) and l_ != itl)
        private -= self._live_in(body, L, bb, private)
        # copies
        span = t["span"]
        n = len(elems)
        entry_of = []
        base_blocks = sorted(L)
        for k in range(n):
            lmap = {}
            for l_ in sorted(private):
                nl = self.new_local(body, body["locals"][l_]["ty"], "copy %d of _%d in an unrolled loop" % (k, l_))
                if body["locals"][l_].get("user"):
                    body["locals"][nl]["user"] = True
                lmap[l_] = nl
            for d in list(body.get("debug", [])):
                if d.get("p") and not d["p"]["proj"] and d["p"]["l"] in lmap:
                    body["debug"].append({"name": d["name"], "p": self.place(lmap[d["p"]["l"]], d["p"].get("ty", ""))})
            bmap = {}
            for i in base_blocks:
                nb = copy.deepcopy(body["blocks"][i])
                nb["i"] = len(body["blocks"])
                nb["unrolled"] = True
                body["blocks"].append(nb)
                bmap[i] = nb["i"]
            for i in base_blocks:
                nb = body["blocks"][bmap[i]]
                for pl in self._places_in(nb["stmts"]) + self._places_in(nb["term"]):
                    if pl["l"] in lmap:
                        pl["l"] = lmap[pl["l"]]
                    for e in pl["proj"]:
                        if e.get("k") == "index" and e.get("l") in lmap:
                            e["l"] = lmap[e["l"]]
            entry_of.append((bmap, lmap))
        for k, (bmap, lmap) in enumerate(entry_of):
            nxt_head = entry_of[k + 1][0][bb] if k + 1 < n else None
            for i in base_blocks:
                nb = body["blocks"][bmap[i]]
                tt = nb["term"]
                def remap(x):
                    if x == bb:                      # back edge: on to the next element (or out)
                        return nxt_head if nxt_head is not None else "EXIT"
                    return bmap.get(x, x)
                if tt["k"] == "switch":
                    for a in tt["arms"]:
                        a["t"] = remap(a["t"])
                    tt["otherwise"] = remap(tt["otherwise"])
                elif isinstance(tt.get("target"), int) and i != bb:
                    tt["target"] = remap(tt["target"])
            # the header copy: next() yields element k
            hb_ = body["blocks"][bmap[bb]]
            dest = hb_["term"]["dest"]
            e = elems[k]
            if by_ref:
                if e["k"] == "const":
                    tl = self.new_local(body, e.get("ty", "?"), "element %d of the array literal" % k)
                    hb_["stmts"].append(self.assign(self.place(tl, e.get("ty", "?")), self.use(e), span))
                    src = self.place(tl, e.get("ty", "?"))
                else:
                    src = copy.deepcopy(e["p"])
                rl = self.new_local(body, item_ty, "&element %d" % k)
                hb_["stmts"].append(self.assign(self.place(rl, item_ty), {"k": "ref", "bk": "shared", "p": src}, span))
                val = self.mv(self.place(rl, item_ty))
            else:
                val = copy.deepcopy(e)
            hb_["stmts"].append(self.assign(copy.deepcopy(dest), self.agg(OPTION, "Some", [val]), span))
            hb_["term"] = {"k": "goto", "target": bmap[chk] if chk in bmap else chk, "span": span}
        # exhausted: next() is None
        exit_b = self.new_block(body, [self.assign(copy.deepcopy(t["dest"]), self.agg(OPTION, "None", []), span)], {"k": "goto", "target": none_t[0], "span": span})
        body["blocks"][exit_b]["unrolled"] = True
        for b in body["blocks"]:
            tt = b["term"]
            if tt["k"] == "switch":
                for a in tt["arms"]:
                    if a["t"] == "EXIT":
                        a["t"] = exit_b
                if tt["otherwise"] == "EXIT":
                    tt["otherwise"] = exit_b
            elif tt.get("target") == "EXIT":
                tt["target"] = exit_b
        first = entry_of[0][0][bb] if n else exit_b
        blk["stmts"] = []
        blk["term"] = {"k": "goto", "target": first, "span": span, "unrolled_loop": n}
        # (when the array is empty the None arm's own next()-switch is reached through exit_b -> none_t directly)
        self.prune_unreachable(body)
        self.notes.append("N11 loop over a %d-element array literal unrolled in %s" % (n, body["def"]))
        return True

    def _iter_of(self, body, op):
        cur = op
        for _ in range(6):
            p = cur["p"]
            ds = self.defs_of(body, p["l"])
            if len(ds) != 1 or ds[0][0] != "stmt":
                return None
            rv = ds[0][2]["rv"]
            if rv["k"] == "ref":
                rp = rv["p"]
                nds = self.defs_of(body, rp["l"])
                if len(nds) == 1 and not (nds[0][0] == "stmt" and nds[0][2]["rv"]["k"] == "ref"):
                    return rp["l"]
                cur = {"k": "copy", "p": rp}
            elif rv["k"] == "use" and rv["op"]["k"] != "const":
                cur = rv["op"]
            else:
                return None
        return None

    def _live_in(self, body, L, head, cands):
        """Locals among cands that may be read in the loop before being written, starting at the header."""
        # per block: use-before-def and def sets
        ubd, dfs = {}, {}
        for i in L:
            b = body["blocks"][i]
            u, d = set(), set()
            for st in b["stmts"]:
                if st["k"] != "assign":
                    continue
                for pl in self._places_in(st["rv"]):
                    if pl["l"] in cands and pl["l"] not in d:
                        u.add(pl["l"])
                if st["p"]["proj"]:
                    if st["p"]["l"] in cands and st["p"]["l"] not in d:
                        u.add(st["p"]["l"])
                else:
                    d.add(st["p"]["l"])
            tt = b["term"]
            for key in ("args", "callee", "discr", "cond", "value", "p"):
                if key in tt:
                    for pl in self._places_in(tt[key]):
                        if pl["l"] in cands and pl["l"] not in d:
                            u.add(pl["l"])
            if tt["k"] == "call" and not tt["dest"]["proj"]:
                d.add(tt["dest"]["l"])
            elif tt["k"] == "call" and tt["dest"]["l"] in cands and tt["dest"]["l"] not in d:
                u.add(tt["dest"]["l"])
            ubd[i], dfs[i] = u, d
        live = {i: set() for i in L}
        changed = True
        while changed:
            changed = False
            for i in L:
                tt = body["blocks"][i]["term"]
                succ = ([a["t"] for a in tt["arms"]] + [tt["otherwise"]]) if tt["k"] == "switch" else [tt.get("target")]
                out = set()
                for j in succ:
                    if j in L:
                        out |= live[j]
                new = ubd[i] | (out - dfs[i])
                if new != live[i]:
                    live[i] = new
                    changed = True
        return live[head]

    # ------------------------------------------------------------------ N6: integer ranges as iterators
    RANGE = "core::ops::range::Range"
    REV = "core::iter::adapters::rev::Rev"

    def _range_kind(self, ty):
        """('fwd'|'rev', int type) for Range<int> / Rev<Range<int>>, else None."""
        ty = ty.lstrip("&").replace("mut ", "", 1).strip()
        if ty.startswith(self.RANGE + "<"):
            ta = split_targs(ty)
            return ("fwd", ta[0]) if ta and ta[0] in PRIMS else None
        if ty.startswith(self.REV + "<"):
            ta = split_targs(ty)
            if ta and ta[0].startswith(self.RANGE + "<"):
                tb = split_targs(ta[0])
                return ("rev", tb[0]) if tb and tb[0] in PRIMS else None
        return None

    def try_range(self, body, bb):
        """`for i in a..b` / `(a..b).rev()`: Range's iterator protocol written out (std's own definition): `rev()` builds
        Rev{iter}, `into_iter()` is the identity, `next()` compares start < end and steps start up / end down by one.
        With the constant propagation of the product analysis the loop is then unrolled like a hand-written counter."""
        t = body["blocks"][bb]["term"]
        c = t["callee"]
        d = c.get("def")
        if t.get("target") is None or not t["args"] or t["args"][0]["k"] == "const":
            return False
        st = c.get("self_ty") or ""
        rk = self._range_kind(st)
        if rk is None:
            return False
        span, dest, target = t["span"], t["dest"], t["target"]
        blk = body["blocks"][bb]
        if d == "core::iter::traits::iterator::Iterator::rev" and rk[0] == "fwd":
            blk["stmts"].append(self.assign(copy.deepcopy(dest), {"k": "aggregate", "ak": "adt", "adt": self.REV, "variant": "Rev", "vi": 0,
                                                                  "fields": ["iter"], "ops": [t["args"][0]]}, span))
            blk["term"] = {"k": "goto", "target": target, "span": span, "desugared": d}
            return True
        if d == "core::iter::traits::collect::IntoIterator::into_iter":
            blk["stmts"].append(self.assign(copy.deepcopy(dest), self.use(t["args"][0]), span))
            blk["term"] = {"k": "goto", "target": target, "span": span, "desugared": d}
            return True
        if d != "core::iter::traits::iterator::Iterator::next":
            return False
        # the iterator variable behind the `&mut it` argument
        a0 = t["args"][0]["p"]
        if a0["proj"]:
            return False
        itp = None
        cur, hops = a0["l"], 0
        while hops < 6:
            hops += 1
            ds = self.defs_of(body, cur)
            if len(ds) != 1 or ds[0][0] != "stmt":
                break
            rv = ds[0][2]["rv"]
            if rv["k"] == "ref" and [e["k"] for e in rv["p"]["proj"]] == ["deref"]:
                cur = rv["p"]["l"]            # a reborrow `&mut *r`
                continue
            if rv["k"] == "use" and rv["op"]["k"] in ("copy", "move") and not rv["op"]["p"]["proj"]:
                cur = rv["op"]["p"]["l"]
                continue
            if rv["k"] == "ref" and all(e["k"] == "field" for e in rv["p"]["proj"]):
                itp = rv["p"]
            break
        if itp is None:
            return False
        ity = rk[1]
        rng_ty = "%s<%s>" % (self.RANGE, ity)
        base = list(itp["proj"]) + ([{"k": "field", "i": 0, "ty": rng_ty, "name": "iter", "adt": self.REV}] if rk[0] == "rev" else [])
        startp = {"l": itp["l"], "proj": base + [{"k": "field", "i": 0, "ty": ity, "name": "start", "adt": self.RANGE}], "ty": ity}
        endp = {"l": itp["l"], "proj": base + [{"k": "field", "i": 1, "ty": ity, "name": "end", "adt": self.RANGE}], "ty": ity}
        cnd = self.new_local(body, "bool", "start < end of desugared range next()")
        v = self.new_local(body, ity, "value yielded by desugared range next()")
        one = {"k": "const", "ty": ity, "val": 1}
        if rk[0] == "fwd":
            some_stmts = [self.assign(self.place(v, ity), self.use({"k": "copy", "p": copy.deepcopy(startp)}), span),
                          self.assign(copy.deepcopy(startp), {"k": "binop", "op": "Add", "a": {"k": "copy", "p": self.place(v, ity)}, "b": one}, span)]
        else:
            some_stmts = [self.assign(self.place(v, ity), {"k": "binop", "op": "Sub", "a": {"k": "copy", "p": copy.deepcopy(endp)}, "b": one}, span),
                          self.assign(copy.deepcopy(endp), self.use({"k": "copy", "p": self.place(v, ity)}), span)]
        some_stmts.append(self.assign(copy.deepcopy(dest), self.agg(OPTION, "Some", [{"k": "copy", "p": self.place(v, ity)}]), span))
        b_some = self.new_block(body, some_stmts, {"k": "goto", "target": target, "span": span})
        b_none = self.new_block(body, [self.assign(copy.deepcopy(dest), self.agg(OPTION, "None", []), span)], {"k": "goto", "target": target, "span": span})
        blk["stmts"].append(self.assign(self.place(cnd, "bool"), {"k": "binop", "op": "Lt", "a": {"k": "copy", "p": copy.deepcopy(startp)},
                                                                  "b": {"k": "copy", "p": copy.deepcopy(endp)}}, span))
        blk["term"] = {"k": "switch", "discr": self.mv(self.place(cnd, "bool")), "arms": [{"v": "0", "t": b_none}], "otherwise": b_some,
                       "span": span, "desugared": "Range::next"}
        self.notes.append("N6 range iteration written out in %s" % body["def"])
        return True

    # ------------------------------------------------------------------ N4: the HashMap entry API
    def synth_call(self, body, deff, args, dest, target, span):
        callee = {"ty": "", "def": deff, "def_args": deff, "krate": deff.split("::")[0], "name": deff.rsplit("::", 1)[-1], "targs": [],
                  "resolved": deff, "resolved_krate": deff.split("::")[0], "ikind": "item", "synthetic": True}
        return {"k": "call", "callee": callee, "args": args, "dest": dest, "target": target, "unwind": None, "fn_span": span, "span": span}

    def try_entry(self, body, bb):
        """`map.entry(k)` followed by a match on Occupied / Vacant (or or_insert*) is `map.contains_key(&k)` followed by
        get / get_mut / insert / remove on the same map and key: rewritten to that spelling, which is the one the
        effect summaries and guards are stated in.  Left alone unless every use of the entry is understood."""
        t = body["blocks"][bb]["term"]
        if t["callee"].get("def") != HM + "entry" or t.get("target") is None or t["dest"]["proj"] or len(t["args"]) != 2:
            return False
        e = t["dest"]["l"]
        mapop, keyop = t["args"]
        if mapop["k"] == "const":
            return False
        ety = t["dest"]["ty"]
        kv = split_targs(ety)          # Entry<'_, K, V>
        kv = [x for x in kv if not x.startswith("'")]
        if len(kv) < 2:
            return False
        kty, vty = kv[0], kv[1]
        # classify every use of e (and of the payload locals moved out of it)
        payload = {}      # local -> "Vacant" | "Occupied"
        plan = []         # (kind, block index, extra)
        entry_like = {e}

        def place_of(op):
            return op.get("p") if op["k"] in ("copy", "move") else None

        changed = True
        while changed:
            changed = False
            for b in body["blocks"]:
                if b["cleanup"]:
                    continue
                for s_ in b["stmts"]:
                    if s_["k"] != "assign" or s_["rv"]["k"] != "use" or s_["p"]["proj"]:
                        continue
                    sp = place_of(s_["rv"]["op"])
                    if sp is None:
                        continue
                    if sp["l"] == e and len(sp["proj"]) == 2 and sp["proj"][0]["k"] == "downcast" and s_["p"]["l"] not in payload:
                        payload[s_["p"]["l"]] = sp["proj"][0]["name"]
                        changed = True
                    elif sp["l"] in payload and not sp["proj"] and s_["p"]["l"] not in payload:
                        payload[s_["p"]["l"]] = payload[sp["l"]]
                        changed = True
                    elif sp["l"] in entry_like and not sp["proj"] and s_["p"]["l"] not in entry_like:
                        entry_like.add(s_["p"]["l"])
                        changed = True
        VE = "std::collections::hash::map::VacantEntry::<'a, K, V, A>::"
        OE = "std::collections::hash::map::OccupiedEntry::<'a, K, V, A>::"
        EN = "std::collections::hash::map::Entry::<'a, K, V, A>::"
        OCC = {OE + "get": "get", OE + "get_mut": "get_mut", OE + "into_mut": "get_mut", OE + "insert": "insert", OE + "remove": "remove"}
        discr_locals = set()
        for b in body["blocks"]:
            if b["cleanup"]:
                continue
            for s_ in b["stmts"]:
                if s_["k"] != "assign":
                    continue
                rv = s_["rv"]
                if rv["k"] == "discriminant" and rv["p"]["l"] in entry_like and not rv["p"]["proj"]:
                    if s_["p"]["proj"]:
                        return False
                    discr_locals.add(s_["p"]["l"])
                    plan.append(("discr", b["i"], s_))
                    continue
                if rv["k"] == "use":
                    continue      # moves classified above; anything else touching e is checked below
                # any other rvalue reading e / payload locals: give up
                txt = json.dumps(rv)
                for l in list(entry_like) + list(payload):
                    if '"l": %d,' % l in txt:
                        return False
            tt = b["term"]
            if tt["k"] == "call" and b["i"] != bb:
                used = [i for i, a in enumerate(tt["args"]) if place_of(a) is not None and (place_of(a)["l"] in payload or place_of(a)["l"] in entry_like)]
                if not used:
                    continue
                d = tt["callee"].get("def", "")
                a0 = place_of(tt["args"][0])
                if used != [0] or a0["proj"] or tt.get("target") is None:
                    return False
                if a0["l"] in payload and payload[a0["l"]] == "Vacant" and d == VE + "insert":
                    plan.append(("vinsert", b["i"], None))
                elif a0["l"] in payload and payload[a0["l"]] == "Occupied" and d in OCC:
                    plan.append(("occ", b["i"], OCC[d]))
                elif a0["l"] in entry_like and d in (EN + "or_insert", EN + "or_insert_with", EN + "or_default"):
                    plan.append(("or", b["i"], d[len(EN):]))
                else:
                    return False
            elif tt["k"] == "switch":
                dp = place_of(tt["discr"])
                if dp is not None and dp["l"] in discr_locals:
                    plan.append(("switch", b["i"], None))
        if not any(k in ("discr", "or") for k, _, _ in plan):
            return False
        for k, bi, ex in plan:
            if k == "or" and ex == "or_insert_with":
                w = self.chase(body, body["blocks"][bi]["term"]["args"][1])
                if w is None:
                    return False
        span = t["span"]
        # --- rewrite the entry call into contains_key
        kl = self.new_local(body, kty, "key of desugared entry()")
        kr = self.new_local(body, "&" + kty, "&key of desugared entry()")
        mr = self.new_local(body, "&" + mapop["p"]["ty"].lstrip("&").replace("mut ", "", 1), "&map of desugared entry()")
        c = self.new_local(body, "bool", "contains_key of desugared entry()")
        mp = copy.deepcopy(mapop["p"])
        mderef = {"l": mp["l"], "proj": mp["proj"] + [{"k": "deref"}], "ty": mp["ty"].lstrip("&").replace("mut ", "", 1)}
        blk = body["blocks"][bb]
        blk["stmts"] += [self.assign(self.place(kl, kty), self.use(keyop), span),
                         self.assign(self.place(kr, "&" + kty), {"k": "ref", "bk": "shared", "p": self.place(kl, kty)}, span),
                         self.assign(self.place(mr, body["locals"][mr]["ty"]), {"k": "ref", "bk": "shared", "p": copy.deepcopy(mderef)}, span)]
        blk["term"] = self.synth_call(body, HM + "contains_key", [self.mv(self.place(mr, body["locals"][mr]["ty"])), self.mv(self.place(kr, "&" + kty))],
                                      self.place(c, "bool"), t["target"], span)
        blk["term"]["desugared"] = HM + "entry"

        def fresh_mut():
            m2 = self.new_local(body, "&mut " + mderef["ty"], "&mut map of desugared entry()")
            return m2, self.assign(self.place(m2, "&mut " + mderef["ty"]), {"k": "ref", "bk": "mut", "p": copy.deepcopy(mderef)}, span)

        def fresh_keyref():
            k2 = self.new_local(body, "&" + kty, "&key of desugared entry()")
            return k2, self.assign(self.place(k2, "&" + kty), {"k": "ref", "bk": "shared", "p": self.place(kl, kty)}, span)

        def via_option(b, method, args, dest, target, sp_):
            """dest = (map.method(args) as Some).0"""
            oty = "core::option::Option<%s>" % dest["ty"]
            tmp = self.new_local(body, oty, "result of desugared entry %s" % method)
            fin = self.new_block(body, [self.assign(copy.deepcopy(dest), self.use(self.mv(self.variant_payload(self.place(tmp, oty), OPTION, "Some", 1, dest["ty"]))), sp_)],
                                 {"k": "goto", "target": target, "span": sp_})
            b["term"] = self.synth_call(body, HM + method, args, self.place(tmp, oty), fin, sp_)

        for k, bi, ex in plan:
            b = body["blocks"][bi]
            tt = b["term"]
            if k == "discr":
                ex["rv"] = {"k": "cast", "op": {"k": "copy", "p": self.place(c, "bool")}, "ty": "isize", "ck": "IntToInt"}
            elif k == "switch":
                occ = [a["t"] for a in tt["arms"] if a["v"] == "0"]
                vac = [a["t"] for a in tt["arms"] if a["v"] == "1"]
                occ_t = occ[0] if occ else tt["otherwise"]
                vac_t = vac[0] if vac else tt["otherwise"]
                b["term"] = {"k": "switch", "discr": {"k": "copy", "p": self.place(c, "bool")}, "arms": [{"v": "0", "t": vac_t}], "otherwise": occ_t,
                             "span": tt["span"], "desugared": "match on Entry"}
            elif k == "vinsert":
                m2, st = fresh_mut()
                b["stmts"].append(st)
                tmp = self.new_local(body, "core::option::Option<%s>" % vty, "result of desugared VacantEntry::insert")
                b["term"] = self.synth_call(body, HM + "insert", [self.mv(self.place(m2, body["locals"][m2]["ty"])), {"k": "copy", "p": self.place(kl, kty)}, tt["args"][1]],
                                            self.place(tmp, body["locals"][tmp]["ty"]), tt["target"], tt["span"])
            elif k == "occ":
                if ex in ("get",):
                    k2, st2 = fresh_keyref()
                    m3 = self.new_local(body, "&" + mderef["ty"], "&map of desugared entry()")
                    b["stmts"] += [st2, self.assign(self.place(m3, "&" + mderef["ty"]), {"k": "ref", "bk": "shared", "p": copy.deepcopy(mderef)}, span)]
                    via_option(b, "get", [self.mv(self.place(m3, "&" + mderef["ty"])), self.mv(self.place(k2, "&" + kty))], tt["dest"], tt["target"], tt["span"])
                elif ex in ("get_mut", "remove"):
                    k2, st2 = fresh_keyref()
                    m2, st = fresh_mut()
                    b["stmts"] += [st2, st]
                    via_option(b, ex, [self.mv(self.place(m2, body["locals"][m2]["ty"])), self.mv(self.place(k2, "&" + kty))], tt["dest"], tt["target"], tt["span"])
                else:   # insert on an occupied entry: replaces the value, returns the old one
                    m2, st = fresh_mut()
                    b["stmts"].append(st)
                    via_option(b, "insert", [self.mv(self.place(m2, body["locals"][m2]["ty"])), {"k": "copy", "p": self.place(kl, kty)}, tt["args"][1]],
                               tt["dest"], tt["target"], tt["span"])
            elif k == "or":
                # if !contains { insert(k, v) } ; dest = get_mut(k).unwrap()
                dest, target, sp_ = tt["dest"], tt["target"], tt["span"]
                join = self.new_block(body, [], {"k": "goto", "target": target, "span": sp_})
                jb = body["blocks"][join]
                k2, st2 = fresh_keyref()
                m2, st = fresh_mut()
                jb["stmts"] += [st2, st]
                via_option(jb, "get_mut", [self.mv(self.place(m2, body["locals"][m2]["ty"])), self.mv(self.place(k2, "&" + kty))], dest, target, sp_)
                m4, st4 = fresh_mut()
                tmp = self.new_local(body, "core::option::Option<%s>" % vty, "result of desugared or_insert")
                if ex == "or_insert":
                    vop = tt["args"][1]
                    ins = self.new_block(body, [st4], self.synth_call(body, HM + "insert", [self.mv(self.place(m4, body["locals"][m4]["ty"])), {"k": "copy", "p": self.place(kl, kty)}, vop],
                                                                      self.place(tmp, body["locals"][tmp]["ty"]), join, sp_))
                elif ex == "or_default":
                    dv = self.new_local(body, vty, "default value of desugared or_default")
                    insb = self.new_block(body, [st4], self.synth_call(body, HM + "insert", [self.mv(self.place(m4, body["locals"][m4]["ty"])), {"k": "copy", "p": self.place(kl, kty)}, self.mv(self.place(dv, vty))],
                                                                       self.place(tmp, body["locals"][tmp]["ty"]), join, sp_))
                    ins = self.new_block(body, [], self.synth_call(body, "core::default::Default::default", [], self.place(dv, vty), insb, sp_))
                else:
                    dv = self.new_local(body, vty, "value of desugared or_insert_with")
                    insb = self.new_block(body, [st4], self.synth_call(body, HM + "insert", [self.mv(self.place(m4, body["locals"][m4]["ty"])), {"k": "copy", "p": self.place(kl, kty)}, self.mv(self.place(dv, vty))],
                                                                       self.place(tmp, body["locals"][tmp]["ty"]), join, sp_))
                    w = self.chase(body, tt["args"][1])
                    ins = self.emit_invoke(self._unit, body, tt["args"][1], w, [], self.place(dv, vty), insb, sp_)
                    if ins is None:
                        ins = self.new_block(body, [], {"k": "call", "callee": {"indirect": "other", "op": tt["args"][1]}, "args": [], "dest": self.place(dv, vty),
                                                        "target": insb, "unwind": None, "fn_span": sp_, "span": sp_})
                b["term"] = {"k": "switch", "discr": {"k": "copy", "p": self.place(c, "bool")}, "arms": [{"v": "0", "t": ins}], "otherwise": join,
                             "span": sp_, "desugared": EN + ex}
        self.notes.append("N4 entry() API rewritten to contains_key/get/insert in %s" % body["def"])
        return True

    # ------------------------------------------------------------------ primitive comparisons through traits
    def try_cmp(self, body, bb):
        t = body["blocks"][bb]["term"]
        c = t["callee"]
        op = CMP_CALLS.get(c.get("def"))
        if op is None or t.get("target") is None or len(t["args"]) != 2:
            return False
        st = (c.get("self_ty") or "").lstrip("&").strip()
        if st not in PRIMS:
            return False
        ops = []
        for a in t["args"]:
            if a["k"] == "const":
                ops.append(a)
                continue
            p = copy.deepcopy(a["p"])
            if p["ty"].startswith("&"):
                p["proj"].append({"k": "deref"})
                p["ty"] = st
            ops.append({"k": "copy", "p": p})
        blk = body["blocks"][bb]
        blk["stmts"].append(self.assign(copy.deepcopy(t["dest"]), {"k": "binop", "op": op, "a": ops[0], "b": ops[1]}, t["span"]))
        blk["term"] = {"k": "goto", "target": t["target"], "span": t["span"]}
        return True

    def try_identity_call(self, body, bb):
        """`into_iter()` on something that already is an iterator (std's blanket `impl<I: Iterator> IntoIterator for I`)."""
        t = body["blocks"][bb]["term"]
        c = t["callee"]
        if c.get("resolved") != "<I as core::iter::traits::collect::IntoIterator>::into_iter" or t.get("target") is None or len(t["args"]) != 1:
            return False
        blk = body["blocks"][bb]
        blk["stmts"].append(self.assign(copy.deepcopy(t["dest"]), self.use(t["args"][0]), t["span"]))
        blk["term"] = {"k": "goto", "target": t["target"], "span": t["span"], "desugared": "into_iter (identity)"}
        return True

    def try_int_from(self, body, bb):
        """`i64::from(x)` / `x.into()` between primitive integer types is the lossless widening `x as i64`."""
        t = body["blocks"][bb]["term"]
        c = t["callee"]
        d = c.get("def")
        if d not in ("core::convert::From::from", "core::convert::Into::into") or t.get("target") is None or len(t["args"]) != 1:
            return False
        ta = c.get("targs", [])
        if len(ta) != 2 or ta[0] not in INT_PRIMS or ta[1] not in INT_PRIMS:
            return False
        to = ta[0] if d.endswith("From::from") else ta[1]
        blk = body["blocks"][bb]
        blk["stmts"].append(self.assign(copy.deepcopy(t["dest"]), {"k": "cast", "ck": "IntToInt", "op": t["args"][0], "ty": to}, t["span"]))
        blk["term"] = {"k": "goto", "target": t["target"], "span": t["span"]}
        return True

    # ------------------------------------------------------------------ N8: `?` with a workspace error conversion
    def try_question_conv(self, unit, body, bb):
        """`expr?` where the function's error type F differs from the expression's E and `impl From<E> for F` is workspace
        code: from_residual(Err(e)) is Err(F::from(e)), written out so that the conversion is spliced."""
        t = body["blocks"][bb]["term"]
        c = t["callee"]
        if c.get("def") != FROM_RESIDUAL or t.get("target") is None or len(t["args"]) != 1 or t["args"][0]["k"] == "const":
            return False
        ta = c.get("targs", [])
        if len(ta) != 2 or not ta[0].startswith(RESULT + "<") or not ta[1].startswith(RESULT + "<core::convert::Infallible, "):
            return False
        a0, a1 = split_targs(ta[0]), split_targs(ta[1])
        if len(a0) != 2 or len(a1) != 2 or a0[1] == a1[1]:
            return False
        F, E = a0[1], a1[1]
        conv = self.from_impl(unit, F, E)
        if conv is None:
            return False
        span = t["span"]
        dest, target = t["dest"], t["target"]
        tf = self.new_local(body, F, "error converted by `?`")
        fin = self.new_block(body, [self.assign(copy.deepcopy(dest), self.agg(RESULT, "Err", [self.mv(self.place(tf, F))]), span)],
                             {"k": "goto", "target": target, "span": span})
        payload = self.mv(self.variant_payload(t["args"][0]["p"], RESULT, "Err", 1, E))
        entry = self.emit_invoke(unit, body, {"ty": ""}, ("fn", conv, None), [payload], self.place(tf, F), fin, span)
        body["blocks"][bb]["term"] = {"k": "goto", "target": entry, "span": span, "question_conv": conv}
        self.notes.append("N8 `?` conversion %s written out in %s" % (conv, body["def"]))
        return True

    # ------------------------------------------------------------------ N9: handler error type converted by the framework
    def handler_boundary(self, unit, body):
        """A route handler returning Result<R, E> for a workspace type E with a workspace `impl From<E> for actix_web::Error`:
        actix's Responder for Result<R, E: Into<Error>> answers `HttpResponse::from_error(err.into())`, so the value that
        decides the response is From::from(e).  Every definition of the return value is rewritten to carry that converted
        error, and the body is typed as returning actix_web::Error like the pinned tree's handlers."""
        if HANDLER_MARK not in body["def"] or body.get("boundary_done"):
            return False
        body["boundary_done"] = True
        rty = body["locals"][0]["ty"]
        if not rty.startswith(RESULT + "<"):
            return False
        ta = split_targs(rty)
        if len(ta) != 2 or ta[1] == ACTIX_ERROR:
            return False
        R, E = ta
        conv = self.from_impl(unit, ACTIX_ERROR, E)
        if conv is None:
            return False
        new_rty = "%s<%s, %s>" % (RESULT, R, ACTIX_ERROR)

        def convert_from(src_place, span, cont):
            """blocks: _0 = match src { Ok(v) => Ok(v), Err(e) => Err(From::from(e)) }; goto cont -- returns entry block"""
            te = self.new_local(body, ACTIX_ERROR, "handler error converted by the framework")
            fin_e = self.new_block(body, [self.assign(self.place(0, new_rty), self.agg(RESULT, "Err", [self.mv(self.place(te, ACTIX_ERROR))]), span)],
                                   {"k": "goto", "target": cont, "span": span})
            ent_e = self.emit_invoke(unit, body, {"ty": ""}, ("fn", conv, None), [self.mv(self.variant_payload(src_place, RESULT, "Err", 1, E))],
                                     self.place(te, ACTIX_ERROR), fin_e, span)
            ent_o = self.new_block(body, [self.assign(self.place(0, new_rty), self.agg(RESULT, "Ok", [self.mv(self.variant_payload(src_place, RESULT, "Ok", 0, R))]), span)],
                                   {"k": "goto", "target": cont, "span": span})
            st, sw = self._disc_switch(body, src_place, RESULT, ent_o, ent_e, span, "handler error boundary")
            return self.new_block(body, [st], sw)

        nblocks = len(body["blocks"])
        for bi in range(nblocks):
            b = body["blocks"][bi]
            if b["cleanup"]:
                continue
            # statements defining _0 (process from the last one so that indices stay valid)
            idxs = [k for k, s_ in enumerate(b["stmts"]) if s_["k"] == "assign" and s_["p"]["l"] == 0 and not s_["p"]["proj"]]
            for k in reversed(idxs):
                s_ = b["stmts"][k]
                span = s_["span"]
                rv = s_["rv"]
                if rv["k"] == "aggregate" and rv.get("ak") == "adt" and rv.get("adt") == RESULT and rv.get("variant") == "Ok":
                    s_["p"]["ty"] = new_rty
                    continue
                rest = b["stmts"][k + 1:]
                tail = self.new_block(body, rest, b["term"])
                body["blocks"][tail]["synthetic"] = b.get("synthetic", False)
                if b.get("from"):
                    body["blocks"][tail]["from"] = b["from"]
                r = self.new_local(body, rty, "handler result before the framework's error conversion")
                s_["p"] = self.place(r, rty)
                b["stmts"] = b["stmts"][:k + 1]
                entry = convert_from(self.place(r, rty), span, tail)
                b["term"] = {"k": "goto", "target": entry, "span": span}
            t = b["term"]
            if t["k"] == "call" and t["dest"]["l"] == 0 and not t["dest"]["proj"] and t.get("target") is not None:
                span = t["span"]
                r = self.new_local(body, rty, "handler result before the framework's error conversion")
                t["dest"] = self.place(r, rty)
                t["target"] = convert_from(self.place(r, rty), span, t["target"])
        body["locals"][0]["ty"] = new_rty
        self.notes.append("N9 handler error type %s converted at the framework boundary (%s) in %s" % (E, conv, body["def"]))
        return True

    # ------------------------------------------------------------------ N10: private struct locals split into their fields
    def struct_fields(self, adt):
        """[(field name, type)] of a workspace struct that is NOT one of the pinned tree's types (a private helper struct
        introduced by a refactoring: `BodyBuffer { data, max_size }`, `BodyLimit(usize)`), else None."""
        adt = re.sub(r"<('[A-Za-z_][A-Za-z0-9_]*(, )?)+>$", "", adt)      # `Ancestry<'_>`: lifetimes only
        if adt not in self._struct_memo:
            res = None
            if adt not in self.keep_types:
                for d in self.raw.values():
                    for a in d.get("adts", []):
                        if a["def"] == adt and a.get("kind") == "Struct" and len(a.get("variants", [])) == 1:
                            res = [(f["name"], f["ty"]) for f in a["variants"][0]["fields"]]
            self._struct_memo[adt] = res
        return self._struct_memo[adt]

    @staticmethod
    def places(body):
        """Every place dict (base local + projection) in the non-debug part of the body."""
        out = []

        def visit(x):
            if isinstance(x, dict):
                if isinstance(x.get("l"), int) and "proj" in x:
                    out.append(x)
                    return
                for v in x.values():
                    visit(v)
            elif isinstance(x, list):
                for v in x:
                    visit(v)
        for b in body["blocks"]:
            visit(b["stmts"])
            visit(b["term"])
        return out

    def agg_of(self, body, l, depth=0):
        """The tuple / closure / coroutine construction a local holds (through plain whole moves), or None."""
        if depth > 8 or (1 <= l <= body["arg_count"]):
            return None
        ds = self.defs_of(body, l)
        if len(ds) != 1 or ds[0][0] != "stmt":
            return None
        rv = ds[0][2]["rv"]
        if rv["k"] == "aggregate" and rv["ak"] in ("closure", "coroutine", "tuple"):
            return rv
        if rv["k"] == "use" and rv["op"]["k"] in ("copy", "move") and not rv["op"]["p"]["proj"]:
            return self.agg_of(body, rv["op"]["p"]["l"], depth + 1)
        return None

    def ref_target(self, body, l, depth=0):
        """The place a reference-typed local points to on every path: (base local, projections) rooted at a local, or None."""
        if depth > 12 or (1 <= l <= body["arg_count"]) or l == 0:
            return None
        ds = self.defs_of(body, l)
        if len(ds) != 1 or ds[0][0] != "stmt":
            return None
        rv = ds[0][2]["rv"]
        if rv["k"] == "ref":
            return self.norm_place(body, rv["p"], depth + 1)
        if rv["k"] == "use" and rv["op"]["k"] in ("copy", "move"):
            sp = rv["op"]["p"]
            if not sp["proj"]:
                return self.ref_target(body, sp["l"], depth + 1)
            if len(sp["proj"]) == 1 and sp["proj"][0]["k"] == "field":
                agg = self.agg_of(body, sp["l"])
                if agg is not None and sp["proj"][0]["i"] < len(agg["ops"]):
                    o = agg["ops"][sp["proj"][0]["i"]]
                    if o["k"] in ("copy", "move") and not o["p"]["proj"]:
                        return self.ref_target(body, o["p"]["l"], depth + 1)
        return None

    def norm_place(self, body, p, depth=0):
        """p with a leading `*r` replaced by what r points to; None when the place is not rooted at a plain local."""
        proj = list(p["proj"])
        if proj and proj[0]["k"] == "deref":
            t = self.ref_target(body, p["l"], depth + 1)
            if t is None:
                return None
            return (t[0], t[1] + proj[1:])
        if any(e["k"] not in ("field",) for e in proj):
            return None
        return (p["l"], proj)

    def resolve_place(self, body, p, depth=0):
        """Follow a place back through the constructions it reads from -- `(*(_a as Some).0).0` with `_a = Some(&_t)`,
        `_t = (x, y)` is `x` -- to (local, remaining projections); the local is then the value's own home."""
        l, proj = p["l"], list(p["proj"])
        while depth < 24:
            depth += 1
            if not proj or (1 <= l <= body["arg_count"]) or l == 0:
                break
            ds = self.defs_of(body, l)
            if len(ds) != 1 or ds[0][0] != "stmt":
                break
            if self._written_through(body, l):
                break       # a container that is stored into / mutably borrowed later does not keep the value it was built with
            rv = ds[0][2]["rv"]
            if rv["k"] == "use" and rv["op"]["k"] in ("copy", "move"):
                l, proj = rv["op"]["p"]["l"], list(rv["op"]["p"]["proj"]) + proj
                continue
            if rv["k"] == "ref" and proj[0]["k"] == "deref":
                l, proj = rv["p"]["l"], list(rv["p"]["proj"]) + proj[1:]
                continue
            if rv["k"] == "aggregate":
                if rv["ak"] == "adt" and len(proj) >= 2 and proj[0]["k"] == "downcast" and proj[1]["k"] == "field" \
                        and proj[0].get("name") == rv.get("variant") and proj[1]["i"] < len(rv["ops"]):
                    o, rest = rv["ops"][proj[1]["i"]], proj[2:]
                elif rv["ak"] in ("tuple", "closure", "coroutine", "array") and proj[0]["k"] == "field" and proj[0]["i"] < len(rv["ops"]):
                    o, rest = rv["ops"][proj[0]["i"]], proj[1:]
                elif rv["ak"] == "adt" and proj[0]["k"] == "field" and rv.get("variant") is not None and proj[0]["i"] < len(rv["ops"]) \
                        and not any(e["k"] == "downcast" for e in proj[:1]):
                    o, rest = rv["ops"][proj[0]["i"]], proj[1:]      # struct field
                else:
                    break
                if o["k"] not in ("copy", "move"):
                    break
                l, proj = o["p"]["l"], list(o["p"]["proj"]) + rest
                continue
            break
        return l, proj

    def _written_through(self, body, l):
        """Is some part of local l assigned after its construction, or l (or a part) borrowed mutably?"""
        key = (id(body), l, len(body["blocks"]))
        if key in self._wt_memo:
            return self._wt_memo[key]
        res = False
        for b in body["blocks"]:
            for st in b["stmts"]:
                if st["k"] != "assign":
                    continue
                if st["p"]["l"] == l and st["p"]["proj"]:
                    res = True
                rv = st["rv"]
                if rv["k"] in ("ref", "addr") and rv.get("p", {}).get("l") == l and rv.get("bk") != "shared":
                    res = True
            t = b["term"]
            if t["k"] == "call" and t["dest"]["l"] == l and t["dest"]["proj"]:
                res = True
        self._wt_memo[key] = res
        return res

    def split_structs(self, body):
        """References to (fields of) a private struct local are followed to the local, then the struct local is replaced by
        one local per field: `body.data.extend_from_slice(..)` in a method of `BodyBuffer` spliced into the handler becomes an
        operation on the handler's own `Vec`, the shape the rules are stated over."""
        locs = body["locals"]
        fam = {}
        for i, l in enumerate(locs):
            if i == 0 or (1 <= i <= body["arg_count"]) or l.get("split"):
                continue
            f = self.struct_fields(l["ty"])
            if f is not None:
                fam[i] = f
        if not fam:
            return False
        # 1. follow references rooted at a family local
        changed = False
        for pl in self.places(body):
            if pl["proj"] and pl["proj"][0]["k"] == "deref":
                t = self.norm_place(body, pl)
                if t is not None and t[0] in fam:
                    pl["l"], pl["proj"] = t[0], copy.deepcopy(t[1])
                    changed = True
        # 2. which family locals are used only field-wise / by whole moves inside the family / through forwarded references
        ok = set(fam)
        carriers = {}

        def harmless_ref(r, seen, kind="ref"):
            """r holds a reference to the struct (kind 'ref') or a value / reference that carries one (kind 'box': the
            coroutine of an `async fn` method that captured `&mut self`, the pinned future): every dereference of the reference
            was forwarded above, so the value only travels -- moves, captures, borrows of the carrier, identity transports,
            drops -- and is never read through or handed to a call."""
            if (r, kind) in seen:
                return True
            seen.add((r, kind))
            if r == 0 or (1 <= r <= body["arg_count"]):
                return self._n10dbg(('w', r, kind))
            for b in body["blocks"]:
                for st in b["stmts"]:
                    if st["k"] != "assign":
                        continue
                    rv = st["rv"]
                    used = [x for x in self._places_in(rv) if x["l"] == r]
                    if not used:
                        if st["p"]["l"] == r and st["p"]["proj"]:
                            return self._n10dbg(('x', r, kind, b['i']))
                        continue
                    if st["p"]["proj"] or len(used) != 1:
                        return self._n10dbg(('y', r, kind, b['i']))
                    u = used[0]
                    if rv["k"] == "use" and not u["proj"]:
                        nk = kind
                    elif rv["k"] == "use" and kind != "ref" and len(u["proj"]) == 1 and u["proj"][0]["k"] == "field":
                        if isinstance(kind, tuple) and kind[1] is not None and u["proj"][0]["i"] != kind[1]:
                            continue        # another capture of the same carrier
                        nk = "ref"          # the reference read back out of the carrier
                    elif rv["k"] == "aggregate" and rv["ak"] in ("closure", "coroutine", "tuple") and not u["proj"]:
                        idx = [k for k, o in enumerate(rv["ops"]) if o.get("p") is u]
                        nk = ("box", idx[0] if kind == "ref" and len(idx) == 1 else None)
                    elif rv["k"] == "ref" and not u["proj"]:
                        nk = ("box", None)
                    elif rv["k"] == "ref" and kind != "ref" and all(e["k"] == "deref" for e in u["proj"]):
                        nk = ("box", None)  # reborrow of a reference to the carrier
                    else:
                        return self._n10dbg(('y', r, kind, b['i']))
                    if not harmless_ref(st["p"]["l"], seen, nk):
                        return self._n10dbg(('y', r, kind, b['i']))
                t = b["term"]
                if t["k"] == "drop":
                    continue
                if t["k"] == "call" and t["dest"]["l"] == r and not t["dest"]["proj"] \
                        and not any(x["l"] == r for x in self._places_in(t["args"]) + self._places_in(t["callee"])):
                    continue            # (its definition by an identity transport, followed from the argument)
                if any(x["l"] == r for x in self._places_in(t)):
                    if t["k"] == "call" and t["callee"].get("def") in CHASE_THROUGH and not t["dest"]["proj"] and t["dest"]["l"] != r \
                            and all(not x["proj"] for x in self._places_in(t["args"]) if x["l"] == r):
                        # an identity transport of the value that carries the reference (into_future, Pin::new_unchecked)
                        if not harmless_ref(t["dest"]["l"], seen, kind if kind != "ref" else ("box", None)):
                            return self._n10dbg(('x', r, kind, b['i']))
                        continue
                    return self._n10dbg(('z', r, kind, b['i']))
            return True

        again = True
        while again:
            again = False
            for s_ in list(ok):
                good = True
                why = None
                for b in body["blocks"]:
                    for st in b["stmts"]:
                        if st["k"] != "assign":
                            continue
                        dst, rv = st["p"], st["rv"]
                        whole_src = [x for x in self._places_in(rv) if x["l"] == s_ and not (x["proj"] and x["proj"][0]["k"] == "field")]
                        whole_dst = dst["l"] == s_ and not (dst["proj"] and dst["proj"][0]["k"] == "field")
                        if whole_dst:
                            if dst["proj"]:
                                good = False; why = ("dst-proj", b["i"])
                            elif rv["k"] == "aggregate" and rv.get("ak") == "adt" and rv.get("adt") == self._lt(locs[s_]["ty"]):
                                pass
                            elif rv["k"] == "use" and rv["op"]["k"] in ("copy", "move") and not rv["op"]["p"]["proj"] and rv["op"]["p"]["l"] in ok \
                                    and self._lt(locs[rv["op"]["p"]["l"]]["ty"]) == self._lt(locs[s_]["ty"]):
                                pass
                            else:
                                good = False; why = ("whole-def", b["i"], rv["k"])
                        if whole_src:
                            if any(x["proj"] for x in whole_src):
                                good = False; why = ("src-proj", b["i"])
                            elif rv["k"] == "use" and not dst["proj"] and dst["l"] in ok and self._lt(locs[dst["l"]]["ty"]) == self._lt(locs[s_]["ty"]):
                                pass
                            elif rv["k"] == "ref" and not dst["proj"] and harmless_ref(dst["l"], set()):
                                carriers[(b["i"], id(st))] = st
                            else:
                                good = False; why = ("whole-use", b["i"], rv["k"], dst["l"])
                    t = b["term"]
                    if t["k"] == "drop":
                        if t["p"]["l"] == s_ and t["p"]["proj"] and t["p"]["proj"][0]["k"] != "field":
                            good = False
                        continue
                    if any(x["l"] == s_ and not (x["proj"] and x["proj"][0]["k"] == "field") for x in self._places_in(t)):
                        good = False; why = ("terminator", b["i"], t["k"])
                if not good:
                    if os.environ.get("TCSS_DEBUG_N10"):
                        print("N10: _%d disqualified in %s: %s" % (s_, body["def"][-60:], why))
                    ok.discard(s_)
                    again = True
        if not ok:
            return changed
        # 3. split
        span0 = body["blocks"][0]["term"]["span"]
        fl = {}
        names = {d["p"]["l"]: d["name"] for d in body.get("debug", []) if d.get("p") and not d["p"]["proj"]}
        for s_ in sorted(ok):
            fl[s_] = []
            for fname, fty in fam[s_]:
                n = self.new_local(body, fty, "field %s of the private struct local _%d" % (fname, s_))
                fl[s_].append(n)
                if s_ in names:
                    body.setdefault("debug", []).append({"name": "%s.%s" % (names[s_], fname), "p": self.place(n, fty)})
        for b in body["blocks"]:
            new_stmts = []
            for st in b["stmts"]:
                if st["k"] == "assign" and st["p"]["l"] in ok and not st["p"]["proj"]:
                    s_, rv, sp = st["p"]["l"], st["rv"], st["span"]
                    if rv["k"] == "aggregate":
                        for k, (fname, fty) in enumerate(fam[s_]):
                            j = rv["fields"].index(fname) if fname in rv.get("fields", []) else k
                            new_stmts.append(self.assign(self.place(fl[s_][k], fty), self.use(rv["ops"][j]), sp))
                    else:
                        src = rv["op"]["p"]["l"]
                        for k, (fname, fty) in enumerate(fam[s_]):
                            new_stmts.append(self.assign(self.place(fl[s_][k], fty), self.use({"k": rv["op"]["k"], "p": self.place(fl[src][k], fty)}), sp))
                    continue
                if st["k"] == "assign" and st["rv"]["k"] == "ref" and st["rv"]["p"]["l"] in ok and not st["rv"]["p"]["proj"]:
                    # a reference to the whole struct whose every dereference was forwarded: nothing reads it any more
                    st["rv"] = self.use({"k": "const", "ty": st["p"]["ty"], "forwarded_ref": True})
                new_stmts.append(st)
            b["stmts"] = new_stmts
        for pl in self.places(body):
            if pl["l"] in ok and pl["proj"] and pl["proj"][0]["k"] == "field":
                idx = pl["proj"][0]["i"]
                pl["l"] = fl[pl["l"]][idx]
                pl["proj"] = pl["proj"][1:]
        for b in list(body["blocks"]):
            t = b["term"]
            if t["k"] == "drop" and t["p"]["l"] in ok and not t["p"]["proj"]:
                s_ = t["p"]["l"]
                target = t["target"]
                for k in reversed(range(len(fam[s_]))):
                    term = {"k": "drop", "p": self.place(fl[s_][k], fam[s_][k][1]), "target": target, "unwind": t.get("unwind"), "span": t["span"]}
                    if k == 0:
                        b["term"] = term
                    else:
                        nb = self.new_block(body, [], term)
                        body["blocks"][nb]["cleanup"] = b["cleanup"]
                        target = nb
        for s_ in sorted(ok):
            locs[s_]["split"] = True
            self.notes.append("N10 private struct local _%d (%s) split into its fields in %s" % (s_, locs[s_]["ty"].rsplit("::", 1)[-1], body["def"]))
        return True

    @staticmethod
    def _n10dbg(info):
        if os.environ.get("TCSS_DEBUG_N10"):
            print("N10 carrier check failed at", info)
        return False

    @staticmethod
    def _lt(ty):
        return re.sub(r"<('[A-Za-z_][A-Za-z0-9_]*(, )?)+>$", "", ty)

    def _places_in(self, x):
        out = []

        def visit(y):
            if isinstance(y, dict):
                if isinstance(y.get("l"), int) and "proj" in y:
                    out.append(y)
                    return
                for v in y.values():
                    visit(v)
            elif isinstance(y, list):
                for v in y:
                    visit(v)
        visit(x)
        return out

    # ------------------------------------------------------------------ N7: match on a known variant
    def known_variant(self, body, place, depth=0):
        """(adt, variant name) when the place holds a literal enum value on every path (a constant selector handed to a
        spliced helper: `helper(Kind::A)` ... `match kind { Kind::A => .., Kind::B => .. }`)."""
        if depth > 8:
            return None
        if place["proj"]:
            nl, nproj = self.resolve_place(body, place)
            if nproj:
                return None
            place = self.place(nl, place.get("ty", ""))
        l = place["l"]
        if 1 <= l <= body["arg_count"]:
            return None
        ds = self.defs_of(body, l)
        if len(ds) != 1 or ds[0][0] != "stmt":
            return None
        for b in body["blocks"]:
            for s in b["stmts"]:
                if s["k"] == "assign":
                    if s["p"]["l"] == l and s["p"]["proj"]:
                        return None
                    if s["rv"]["k"] in ("ref", "addr") and s["rv"].get("p", {}).get("l") == l and s["rv"].get("bk") != "shared":
                        return None
        rv = ds[0][2]["rv"]
        if rv["k"] == "aggregate" and rv["ak"] == "adt" and rv.get("variant") is not None:
            return (rv["adt"], rv["variant"])
        if rv["k"] == "use" and rv["op"]["k"] in ("copy", "move"):
            return self.known_variant(body, rv["op"]["p"], depth + 1)
        return None

    def fold_known_switches(self, body):
        changed = False
        for b in body["blocks"]:
            t = b["term"]
            if t["k"] != "switch" or t["discr"]["k"] == "const" or t["discr"]["p"]["proj"]:
                continue
            dl = t["discr"]["p"]["l"]
            ds = self.defs_of(body, dl)
            if len(ds) != 1 or ds[0][0] != "stmt" or ds[0][1] != b["i"] or ds[0][2]["rv"]["k"] != "discriminant":
                continue
            rv = ds[0][2]["rv"]
            sp = rv["p"]
            if sp["proj"]:
                # `match *self` on a reference, a field of a tuple / an element of an unrolled table: the value's own home
                nl, nproj = self.resolve_place(body, sp)
                if nproj:
                    continue
                sp = self.place(nl, sp.get("ty", ""))
            kv = self.known_variant(body, sp)
            if kv is None or kv[0] != rv.get("adt"):
                continue
            dv = [v["discr"] for v in rv.get("variants", []) if v["name"] == kv[1]]
            if len(dv) != 1:
                continue
            tg = [a["t"] for a in t["arms"] if a["v"] == dv[0]]
            target = tg[0] if tg else t["otherwise"]
            b["term"] = {"k": "goto", "target": target, "span": t["span"], "folded_switch": kv[1]}
            self.notes.append("N7 match on the literal %s::%s folded in %s" % (kv[0].rsplit("::", 1)[-1], kv[1], body["def"]))
            changed = True
        if changed:
            self.prune_unreachable(body)
        return changed

    @staticmethod
    def prune_unreachable(body):
        seen, st = set(), [0]
        while st:
            i = st.pop()
            if i in seen:
                continue
            seen.add(i)
            t = body["blocks"][i]["term"]
            nxt = []
            if t["k"] == "switch":
                nxt = [a["t"] for a in t["arms"]] + [t["otherwise"]]
            else:
                nxt = [t.get(k) for k in ("target", "unwind", "drop", "resume")]
            st.extend(x for x in nxt if isinstance(x, int))
        for b in body["blocks"]:
            if b["i"] not in seen and (b["stmts"] or b["term"]["k"] != "unreachable"):
                b["stmts"] = []
                b["term"] = {"k": "unreachable", "span": b["term"]["span"], "pruned": True}

    # ------------------------------------------------------------------ driver
    def norm(self, unit, body):
        key = (unit, body["def"])
        if key in self.done:
            return True
        if key in self.busy:
            return False        # recursion: leave the call alone
        self.busy.add(key)
        self._unit = unit
        self.handler_boundary(unit, body)
        changed = True
        rounds = 0
        while changed and rounds < 50:
            changed = False
            rounds += 1
            i = 0
            while i < len(body["blocks"]):
                b = body["blocks"][i]
                if not b["cleanup"] and b["term"]["k"] == "call" and len(body["blocks"]) < 4000:
                    self._unit = unit
                    if (self.try_cps_wrapper(unit, body, i) or self.try_inline_fn(unit, body, i) or self.try_fn_call(unit, body, i) or self.try_question_conv(unit, body, i) or self.try_combinator(unit, body, i) or self.try_transpose(body, i) or self.try_option_misc(unit, body, i) or self.try_array_contains(body, i)
                            or self.try_poll(unit, body, i) or self.try_cmp(body, i) or self.try_int_from(body, i) or self.try_identity_call(body, i) or self.try_entry(body, i)
                            or self.try_iter_loop(unit, body, i) or self.try_search_loop(unit, body, i) or self.try_range(body, i)
                            or self.try_unroll(unit, body, i)):
                        changed = True
                i += 1
            if not changed and self.fold_known_switches(body):
                changed = True
            if not changed and self.split_structs(body):
                changed = True
        self.busy.discard(key)
        self.done.add(key)
        return True

    def run(self):
        for (unit, deff), b in list(self.bodies.items()):
            self.norm(unit, b)
        self.sweep()
        return self.raw, self.notes

    def escapes(self, body, l, seen=None):
        """Does the value held in local l flow anywhere except env bindings / plain moves / identity transports?"""
        seen = seen if seen is not None else set()
        if l in seen:
            return False
        seen.add(l)

        def reads(x):
            if isinstance(x, dict):
                if isinstance(x.get("l"), int) and "proj" in x:
                    return x["l"] == l
                return any(reads(v) for v in x.values())
            if isinstance(x, list):
                return any(reads(v) for v in x)
            return False

        for b in body["blocks"]:
            if b["cleanup"]:
                continue
            for s in b["stmts"]:
                if s["k"] != "assign" or not reads(s["rv"]):
                    continue
                rv = s["rv"]
                src = rv.get("op", {}).get("p") if rv["k"] in ("use", "cast") else rv.get("p") if rv["k"] == "ref" else None
                if src is None or src["l"] != l:
                    return True
                if any(e["k"] != "deref" for e in src["proj"]):
                    continue                      # a captured variable is read: not a flow of the closure itself
                if s["p"]["proj"]:
                    return True
                if self.escapes(body, s["p"]["l"], seen):
                    return True
            t = b["term"]
            if t["k"] == "call" and any(reads(a) for a in t["args"]):
                if t["callee"].get("def") in CHASE_THROUGH and not t["dest"]["proj"]:
                    if self.escapes(body, t["dest"]["l"], seen):
                        return True
                else:
                    return True
            if t["k"] == "yield" and reads(t.get("value")):
                return True
        return False

    def constructed_escapes(self, key):
        """Some remaining construction site of the closure/coroutine lets the value escape (so its body is still a
        unit of its own)."""
        unit, deff = key
        for (u, d2), b in self.bodies.items():
            if u != unit or (u, d2) in self._gone:
                continue
            for blk in b["blocks"]:
                if blk["cleanup"]:
                    continue
                for s in blk["stmts"]:
                    if s["k"] == "assign" and s["rv"]["k"] == "aggregate" and s["rv"].get("def") == deff:
                        if s["p"]["proj"] or self.escapes(b, s["p"]["l"]):
                            return True
                t = blk["term"]
                if t["k"] == "call":
                    for a in t["args"]:
                        if a["k"] == "const" and a.get("closure") == deff:
                            return True
        return False

    def sweep(self):
        """Drop the bodies that are no longer units of their own: helpers spliced into every caller and closures /
        coroutines whose only use was spliced."""
        removed = True
        gone = self._gone = set()
        # nominally `pub` but not reachable from outside the crate (a `pub` item of a private module that is not
        # re-exported): nobody else can call it, so a copy spliced into every caller replaces it
        unreach = set((d["crate"] + "-" + d["crate_type"], x) for d in self.raw.values() for x in d.get("pub_unreachable", []))
        while removed:
            removed = False
            refs = {}

            def visit(x, owner):
                if isinstance(x, dict):
                    if x.get("k") == "call":
                        c = x["callee"]
                        for k in ("def", "resolved"):
                            if c.get(k):
                                refs.setdefault(c[k], set()).add(owner)
                    if x.get("k") == "const":
                        for k in ("fn", "closure"):
                            if x.get(k):
                                refs.setdefault(x[k], set()).add(owner)
                    if x.get("k") == "aggregate" and x.get("ak") in ("closure", "coroutine", "coroutineclosure"):
                        refs.setdefault(("agg", x["def"]), set()).add(owner)
                    for v in x.values():
                        visit(v, owner)
                elif isinstance(x, list):
                    for v in x:
                        visit(v, owner)

            for (unit, deff), b in self.bodies.items():
                if (unit, deff) in gone:
                    continue
                visit(b["blocks"], (unit, deff))
            for key in list(self.bodies):
                if key in gone:
                    continue
                unit, deff = key
                b = self.bodies[key]
                others = set(o for o in refs.get(deff, set()) if o != key)
                if key in self.inlined_fns and (b.get("vis") != "Public" or key in unreach) and not others:
                    # its coroutine / closures live on only as spliced copies
                    gone.add(key)
                    removed = True
                elif key in self.consumed and not others and not self.constructed_escapes(key):
                    gone.add(key)
                    removed = True
        for fname, d in self.raw.items():
            unit = d["crate"] + "-" + d["crate_type"]
            d["bodies"] = [b for b in d["bodies"] if (unit, b["def"]) not in gone]
        for key in sorted(gone):
            self.notes.append("dropped %s (every use spliced)" % key[1])


def normalize(raw, keep, keep_types=()):
    raw = json.loads(json.dumps(raw))     # private copy: the cache object is shared
    return Normalizer(raw, keep, keep_types).run()
