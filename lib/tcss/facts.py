"""Data model over the JSON facts emitted by the driver: Program, Body, pretty printer."""
import re


class Program:
    """All bodies of the four workspace targets, keyed by canonical def path."""

    def __init__(self, factfiles):
        self.units = factfiles
        self.bodies = {}
        self.by_unit = {}
        self.consts = {}
        self.adts = {}
        self.impls = []
        self.statics = []
        self.traits = {}
        self.overflow_checks = None
        for fname, d in factfiles.items():
            unit = d["crate"] + "-" + d["crate_type"]
            self.by_unit[unit] = []
            if self.overflow_checks is None:
                self.overflow_checks = d.get("overflow_checks")
            for b in d["bodies"]:
                body = Body(b, unit, self)
                key = body.key
                self.bodies[key] = body
                self.by_unit[unit].append(body)
            for c in d["consts"]:
                # local consts win; external ones fill in
                if c["def"] not in self.consts or "val" in c:
                    self.consts[c["def"]] = c
            for a in d["adts"]:
                a = dict(a)
                a["unit"] = unit
                self.adts[(unit, a["def"])] = a
            for i in d["impls"]:
                i = dict(i)
                i["unit"] = unit
                self.impls.append(i)
            for s in d["statics"]:
                s = dict(s)
                s["unit"] = unit
                self.statics.append(s)
            for t in d["traits"]:
                self.traits[t["def"]] = t

    def body(self, key):
        return self.bodies.get(key)

    def find(self, pattern, unit=None):
        """Bodies whose def path matches the regex (search)."""
        rx = re.compile(pattern)
        return [b for b in self.bodies.values() if rx.search(b.deff) and (unit is None or b.unit == unit)]

    def one(self, pattern, unit=None):
        r = self.find(pattern, unit)
        if len(r) != 1:
            return None
        return r[0]

    def adt(self, suffix):
        r = [a for (u, d), a in self.adts.items() if d == suffix or d.endswith("::" + suffix)]
        # lib and bin units may both define; de-duplicate by def
        seen = {}
        for a in r:
            seen.setdefault(a["def"], a)
        r = list(seen.values())
        return r[0] if len(r) == 1 else None

    def const_value(self, defpath):
        c = self.consts.get(defpath)
        if c is None:
            return None
        return c.get("val")

    def closures_of(self, body):
        """Bodies of the closures created (transitively) inside `body`."""
        out = []
        prefix = body.deff + "::{closure#"
        for b in self.bodies.values():
            if b.unit == body.unit and b.deff.startswith(prefix):
                out.append(b)
        return out


class Body:
    def __init__(self, j, unit, prog):
        self.j = j
        self.unit = unit
        self.prog = prog
        self.deff = j["def"]
        # The lib and bin targets of the server crate share a crate name; bodies are disjoint,
        # but key by (unit-qualified) def to be safe.
        self.key = j["def"] if unit.endswith("-lib") else "bin:" + j["def"]
        self.kind = j["kind"]
        self.blocks = j["blocks"]
        self.locals = j["locals"]
        self.arg_count = j["arg_count"]
        self.span = j["span"]
        self.names = {}
        self.upvar_names = {}
        for d in j["debug"]:
            p = d.get("p")
            if p is None:
                continue
            if not p["proj"]:
                self.names.setdefault(p["l"], d["name"])
            else:
                # closure upvars: (*_1).i or _1.i
                pr = [e for e in p["proj"] if e["k"] != "deref"]
                if p["l"] == 1 and len(pr) == 1 and pr[0]["k"] == "field":
                    self.upvar_names[pr[0]["i"]] = d["name"]

    # --- convenience ---
    def file(self):
        return self.span["file"]

    def line_of_block(self, bb):
        return self.blocks[bb]["term"]["span"]["line"]

    def name_of(self, l):
        return self.names.get(l)

    def is_cleanup(self, bb):
        return self.blocks[bb]["cleanup"]

    def succs(self, bb, include_unwind=False):
        t = self.blocks[bb]["term"]
        k = t["k"]
        out = []
        if k == "goto":
            out = [t["target"]]
        elif k == "switch":
            out = [a["t"] for a in t["arms"]] + [t["otherwise"]]
        elif k in ("call", "drop", "assert", "yield"):
            if t.get("target") is not None:
                out = [t["target"]]
            if include_unwind and t.get("unwind") is not None:
                out.append(t["unwind"])
            if include_unwind and k == "yield" and t.get("drop") is not None:
                out.append(t["drop"])
        # de-dup preserving order
        seen = []
        for x in out:
            if x not in seen:
                seen.append(x)
        return seen

    def calls(self):
        """Yield (bb, terminator) for each call terminator in non-cleanup blocks."""
        for b in self.blocks:
            if b["cleanup"]:
                continue
            if b["term"]["k"] == "call":
                yield b["i"], b["term"]


def callee_name(t):
    """Canonical callee descriptor of a call terminator: resolved impl path if statically resolved to an
    item, else the declared path (trait method for virtual calls)."""
    c = t["callee"]
    if "def" not in c:
        return "<indirect>"
    if c.get("ikind") == "item" and c.get("resolved"):
        return c["resolved"]
    return c["def"]


def short(s, n=110):
    s = str(s)
    return s if len(s) <= n else s[: n - 3] + "..."


# ---------------------------------------------------------------- pretty printer (debug aid)
def fmt_place(p, body=None):
    s = "_%d" % p["l"]
    if body is not None and body.name_of(p["l"]):
        s = "%s[_%d]" % (body.name_of(p["l"]), p["l"])
    for e in p["proj"]:
        k = e["k"]
        if k == "deref":
            s = "(*%s)" % s
        elif k == "field":
            s = "%s.%s" % (s, e["name"])
        elif k == "downcast":
            s = "(%s as %s)" % (s, e["name"])
        elif k == "index":
            s = "%s[_%d]" % (s, e["l"])
        else:
            s = "%s.<%s>" % (s, k)
    return s


def fmt_op(o, body=None):
    if o["k"] in ("copy", "move"):
        return ("move " if o["k"] == "move" else "") + fmt_place(o["p"], body)
    if o["k"] == "const":
        if "val" in o:
            return "const %r" % (o["val"],)
        if "def" in o:
            return "const %s" % o["def"]
        if "fn" in o:
            return "fn %s" % o["fn"]
        return "const <%s>" % o["ty"]
    return "?"


def fmt_rv(rv, body=None):
    k = rv["k"]
    if k == "use":
        return fmt_op(rv["op"], body)
    if k == "ref":
        return "&%s%s" % ("mut " if rv["bk"] == "mut" else "", fmt_place(rv["p"], body))
    if k == "binop":
        return "%s(%s, %s)" % (rv["op"], fmt_op(rv["a"], body), fmt_op(rv["b"], body))
    if k == "unop":
        return "%s(%s)" % (rv["op"], fmt_op(rv["a"], body))
    if k == "cast":
        return "%s as %s [%s]" % (fmt_op(rv["op"], body), short(rv["ty"], 50), rv["ck"])
    if k == "discriminant":
        return "discriminant(%s)" % fmt_place(rv["p"], body)
    if k == "aggregate":
        ops = ", ".join(fmt_op(o, body) for o in rv["ops"])
        if rv["ak"] == "adt":
            return "%s::%s{%s}" % (rv["adt"], rv["variant"], ops)
        if rv["ak"] == "closure":
            return "closure %s [%s]" % (rv["def"], ops)
        return "%s[%s]" % (rv["ak"], ops)
    return "<%s>" % k


def dump(body, cleanup=False):
    out = ["fn %s  (%s:%d) unit=%s" % (body.deff, body.file(), body.span["line"], body.unit)]
    for b in body.blocks:
        if b["cleanup"] and not cleanup:
            continue
        out.append("  bb%d:%s" % (b["i"], " (cleanup)" if b["cleanup"] else ""))
        for s in b["stmts"]:
            if s["k"] == "assign":
                out.append("    %s = %s   ; L%d" % (fmt_place(s["p"], body), fmt_rv(s["rv"], body), s["span"]["line"]))
            else:
                out.append("    <%s>" % s["k"])
        t = b["term"]
        k = t["k"]
        if k == "call":
            out.append("    %s = %s(%s) -> bb%s   ; L%d%s" % (
                fmt_place(t["dest"], body), callee_name(t), ", ".join(fmt_op(a, body) for a in t["args"]),
                t["target"], t["span"]["line"], " [exp]" if t["span"].get("exp") else ""))
        elif k == "switch":
            out.append("    switch %s [%s, otherwise bb%d]" % (
                fmt_op(t["discr"], body), ", ".join("%s->bb%d" % (a["v"], a["t"]) for a in t["arms"]), t["otherwise"]))
        elif k == "goto":
            out.append("    goto bb%d" % t["target"])
        elif k == "drop":
            out.append("    drop(%s) -> bb%d" % (fmt_place(t["p"], body), t["target"]))
        elif k == "assert":
            out.append("    assert(%s == %s, %s) -> bb%d" % (fmt_op(t["cond"], body), t["expected"], t["msg"], t["target"]))
        elif k == "yield":
            out.append("    yield -> bb%d" % t["target"])
        else:
            out.append("    %s" % k)
    return "\n".join(out)
