"""extract -> canonicalise private names -> normalise shape: the program every rule sees."""
import json
import os

from . import canon, extract, facts, normalize

HERE = os.path.dirname(os.path.abspath(__file__))
KEEP_FILE = os.path.join(os.path.dirname(os.path.dirname(HERE)), "baseline", "functions-a6bc6ede.json")


def keep():
    return set(json.load(open(KEEP_FILE)))


def program(cfg="dev", use_cache=True, repo=None):
    """Returns (Program, tree hash, facts dict (normalised), notes dict)."""
    f, h = extract.facts(cfg, use_cache=use_cache) if repo is None else extract.facts(cfg, use_cache=use_cache, repo=repo)
    f, canon_notes = canon.canonicalize(f)
    f, norm_notes = normalize.normalize(f, keep())
    return facts.Program(f), h, f, {"canon": canon_notes, "normalize": norm_notes}
