"""extract -> canonicalise private names -> normalise shape: the program every rule sees."""
import json
import os

from . import canon, extract, facts, normalize

HERE = os.path.dirname(os.path.abspath(__file__))
KEEP_FILE = os.path.join(os.path.dirname(os.path.dirname(HERE)), "baseline", "functions-a6bc6ede.json")


# Private helpers of the pinned tree that are spliced into their callers like any later-extracted helper: the rules are
# stated over the callers, so inlining / renaming / re-splitting these helpers in the source changes nothing.
SPLICE_BASELINE = {
    canon.SQLITE + "::Txn::get_version_impl": "query helper of the two version lookups",
    canon.SERVER + "::api::ServerState::client_id_header::badrequest": "error constructor local to the header helper",
    canon.SQLITE + "::SqliteStorage::new_connection": "opens the connection for SqliteStorage::new and Storage::txn",
    canon.SERVER + "::api::server_error_to_actix": "ServerError -> actix error mapping (the handlers' outcome tables decide the statuses)",
    canon.SERVER + "::api::failure_to_ise": "anyhow error -> 500 mapping of the creation block",
    canon.SERVER + "::api::api_scope": "the nested scope of the four protocol routes (judged as part of WebServer::config's registration tree)",
}


def keep():
    return set(json.load(open(KEEP_FILE))) - set(SPLICE_BASELINE)


def keep_types():
    """The structs / enums of the pinned tree: the rules know them by name, so they are never split into fields (N10)."""
    return set(json.load(open(canon.ITEMS_FILE))["adts"])


def program(cfg="dev", use_cache=True, repo=None):
    """Returns (Program, tree hash, facts dict (normalised), notes dict)."""
    f, h = extract.facts(cfg, use_cache=use_cache) if repo is None else extract.facts(cfg, use_cache=use_cache, repo=repo)
    f, canon_notes = canon.canonicalize(f)
    f, norm_notes = normalize.normalize(f, keep(), keep_types())
    return facts.Program(f), h, f, {"canon": canon_notes, "normalize": norm_notes}
