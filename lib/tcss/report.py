"""Obligations, violations, known findings, evidence files."""
import json
import os
import time

VERIF = os.path.dirname(os.path.dirname(os.path.dirname(os.path.abspath(__file__))))
EVIDENCE_DIR = os.environ.get("TCSS_EVIDENCE_DIR") or os.path.join(VERIF, "evidence")
REPLAY_DIR = os.path.join(EVIDENCE_DIR, "replay")
KNOWN = os.path.join(VERIF, "known_findings.json")


class Ob:
    """One obligation instance: rule id + instance key (never a line number)."""

    __slots__ = ("rule", "key", "ok", "detail", "where", "sample", "nontrivial")

    def __init__(self, rule, key, ok, detail, where=None, sample=None, nontrivial=True):
        self.rule = rule
        self.key = tuple(str(k) for k in key)
        self.ok = bool(ok)
        self.detail = detail
        self.where = where
        self.sample = sample
        self.nontrivial = nontrivial

    def ident(self):
        return [self.rule] + list(self.key)

    def to_json(self):
        d = {"rule": self.rule, "key": list(self.key), "status": "discharged" if self.ok else "VIOLATED",
             "detail": self.detail}
        if self.where:
            d["where"] = self.where
        if self.sample is not None:
            d["object"] = self.sample
        return d


class Report:
    def __init__(self, prop, tier, level, seed=0):
        self.prop = prop
        self.tier = tier
        self.level = level
        self.seed = seed
        self.obs = []
        self.t0 = time.time()
        self.analysed = {}
        self.notes = []
        self.assumptions = []
        self.trusted = []
        self.explanation = ""
        self.rule_text = ""
        self.extra = {}
        self.exhaustive = None
        self.tag = ""

    def ob(self, rule, key, ok, detail, where=None, sample=None, nontrivial=True):
        o = Ob(rule + self.tag, key, ok, detail, where, sample, nontrivial)
        if not o.ok and any((not x.ok) and x.ident() == o.ident() for x in self.obs):
            return False  # same instance already reported
        self.obs.append(o)
        return o.ok

    def fail(self, rule, key, detail, where=None, sample=None):
        return self.ob(rule, key, False, detail, where, sample)

    def floor(self, rule, what, found, minimum, where=None):
        """Instance-count floor: a rule matching fewer instances than were confirmed by hand fails closed."""
        return self.ob(rule + ".FLOOR", (what,), found >= minimum,
                       "%s: found %d instance(s), floor %d" % (what, found, minimum), where, nontrivial=False)

    def note(self, s):
        self.notes.append(s)

    # ------------------------------------------------------------------
    def finish(self):
        """Apply known findings, write evidence + replay files, print result lines, return exit code."""
        known = load_known()
        os.makedirs(REPLAY_DIR, exist_ok=True)
        violations = []
        known_hits = []
        for o in self.obs:
            if o.ok:
                continue
            k = match_known(known, self.prop, o)
            if k is not None:
                known_hits.append((o, k))
            else:
                violations.append(o)
        lines = []
        for o, k in known_hits:
            lines.append("KNOWN-FINDING: property=%s %s [%s]" % (self.prop, k.get("what", o.detail), "/".join(o.ident())))
        # de-duplicate known-finding lines
        seen = set()
        for ln in lines:
            if ln not in seen:
                print(ln)
                seen.add(ln)
        # replay files
        for f in os.listdir(REPLAY_DIR):
            if f.startswith(self.prop + "-"):
                try:
                    os.remove(os.path.join(REPLAY_DIR, f))
                except OSError:
                    pass
        for n, o in enumerate(violations):
            path = os.path.join(REPLAY_DIR, "%s-%d.json" % (self.prop, n))
            with open(path, "w") as fh:
                json.dump({"property": self.prop, "violation": o.to_json(),
                           "reevaluate": "./check %s --tier %s" % (self.prop, self.tier)}, fh, indent=1, default=str)
            print("VIOLATION property=%s replay=%s" % (self.prop, path))
            print("  rule=%s instance=%s%s\n  %s" % (o.rule, "/".join(o.key), (" at " + o.where) if o.where else "", o.detail))
        self.write_evidence(len(violations), [o for o, _ in known_hits])
        return 1 if violations else 0

    def write_evidence(self, nviol, known_obs):
        os.makedirs(EVIDENCE_DIR, exist_ok=True)
        total = len(self.obs)
        discharged = sum(1 for o in self.obs if o.ok)
        distinct = len(set((o.rule,) + o.key for o in self.obs if o.nontrivial))
        samples = []
        per_rule = {}
        for o in self.obs:
            per_rule.setdefault(o.rule, [0, 0])
            per_rule[o.rule][0] += 1
            per_rule[o.rule][1] += 1 if o.ok else 0
        seen_rules = set()
        for o in self.obs:           # one sample per rule first, then failures
            if o.rule not in seen_rules and o.nontrivial:
                seen_rules.add(o.rule)
                samples.append(o.to_json())
        for o in self.obs:
            if not o.ok:
                samples.append(o.to_json())
        cov = {
            "evaluations": total,
            "distinct_nontrivial": distinct,
            "rule": self.rule_text or ("each evaluation is one obligation instance (rule id + function + site descriptor) "
                                       "checked against the facts extracted from /repo's current tree; an instance is "
                                       "non-trivial when it constrains a concrete program construct (floors and positive "
                                       "examples are excluded); distinct = distinct (rule, key) pairs"),
            "samples": samples[:60],
            "obligations": total,
            "discharged": discharged,
            "checker_cmd": "./check %s --tier %s" % (self.prop, self.tier),
            "trusted_base": self.trusted,
            "explanation": self.explanation,
            "per_rule": {k: {"instances": v[0], "discharged": v[1]} for k, v in sorted(per_rule.items())},
            "analysed": self.analysed,
            "known_findings_matched": [o.ident() for o in known_obs],
            "notes": self.notes,
        }
        if self.exhaustive is not None:
            cov["exhaustive"] = self.exhaustive
        cov.update(self.extra)
        ev = {
            "property_id": self.prop,
            "tier": self.tier,
            "seed": self.seed,
            "level": self.level,
            "coverage": cov,
            "assumptions": self.assumptions,
            "wall_s": round(time.time() - self.t0, 3),
            "violations": nviol,
        }
        path = os.path.join(EVIDENCE_DIR, "%s.json" % self.prop)
        tmp = path + ".tmp.%d" % os.getpid()
        with open(tmp, "w") as fh:
            json.dump(ev, fh, indent=1, default=str)
        os.replace(tmp, path)


def load_known():
    if not os.path.exists(KNOWN):
        return []
    with open(KNOWN) as fh:
        return json.load(fh).get("findings", [])


def match_known(known, prop, ob):
    for k in known:
        if k.get("status") != "known":
            continue
        if prop not in k.get("properties", []):
            continue
        if list(k.get("key", [])) == ob.ident():
            return k
    return None


def where(body, bb=None, line=None):
    if line is None and bb is not None:
        line = body.blocks[bb]["term"]["span"]["line"]
    if line is None:
        line = body.span["line"]
    return "%s:%d (%s)" % (body.file(), line, body.deff)
