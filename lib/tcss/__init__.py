"""Static-analysis library for the taskchampion-sync-server verification harness (stdlib only)."""
