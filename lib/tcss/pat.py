"""Structural pattern matching over provenance terms.

Patterns are terms with wildcards:
  ANY            matches anything
  V('x')         binds (and must agree with an earlier binding of) 'x'
  P(fn)          matches when fn(term) is truthy
  OneOf(p1, ..)  first alternative that matches
  call(callee, *argpats)  a ('call', callee, <any bb>, args) term (callee may be a set/tuple of names)
"""


class _Any:
    def __repr__(self):
        return "ANY"


ANY = _Any()


class V:
    def __init__(self, name):
        self.name = name


class Pred:
    def __init__(self, fn):
        self.fn = fn


class OneOf:
    def __init__(self, *alts):
        self.alts = alts


class Call:
    def __init__(self, callee, *args, bb=None):
        self.callee = callee
        self.args = args
        self.bb = bb


def call(callee, *args, bb=None):
    return Call(callee, *args, bb=bb)


def m(p, t, b=None):
    """Match pattern p against term t; returns bindings dict or None."""
    if b is None:
        b = {}
    if p is ANY:
        return b
    if isinstance(p, V):
        if p.name in b:
            return b if b[p.name] == t else None
        b2 = dict(b)
        b2[p.name] = t
        return b2
    if isinstance(p, Pred):
        return b if p.fn(t) else None
    if isinstance(p, OneOf):
        for a in p.alts:
            r = m(a, t, b)
            if r is not None:
                return r
        return None
    if isinstance(p, Call):
        if not (isinstance(t, tuple) and t and t[0] == "call"):
            return None
        cal = p.callee
        if isinstance(cal, str):
            if t[1] != cal:
                return None
        elif cal is not ANY and t[1] not in cal:
            return None
        if p.bb is not None:
            b = m(p.bb, t[2], b)
            if b is None:
                return None
        if p.args == (Ellipsis,):
            return b
        if len(p.args) != len(t[3]):
            return None
        for pa, ta in zip(p.args, t[3]):
            b = m(pa, ta, b)
            if b is None:
                return None
        return b
    if isinstance(p, tuple):
        if not isinstance(t, tuple) or len(p) != len(t):
            return None
        for pa, ta in zip(p, t):
            b = m(pa, ta, b)
            if b is None:
                return None
        return b
    return b if p == t else None


# ---- common shapes
def param(name=None):
    return ("param", ANY, ANY if name is None else name)


def const(defsuffix=None, val=None):
    def f(t):
        if not (isinstance(t, tuple) and t and t[0] == "const"):
            return False
        if defsuffix is not None and not (t[1] or "").endswith(defsuffix):
            return False
        if val is not None and t[2] != val:
            return False
        return True
    return Pred(f)


def field(base, name):
    return ("field", base, name)


def ok(p):
    return ("ok", p)


def err(p):
    return ("err", p)


def adt(path_suffix, variant, *fields):
    """Aggregate of an ADT variant; fields are (name, pattern) in order, or Ellipsis."""
    def tag_ok(tag):
        return (isinstance(tag, tuple) and tag[0] == "adt" and (tag[1] == path_suffix or tag[1].endswith("::" + path_suffix))
                and tag[2] == variant)
    if fields == (Ellipsis,):
        return ("agg", Pred(tag_ok), ANY)
    return ("agg", Pred(tag_ok), tuple((n, fp) for n, fp in fields))


def tup(*items):
    return ("agg", "tuple", tuple((str(i), it) for i, it in enumerate(items)))
