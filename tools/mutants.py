"""Scripted semantic mutants (checker-sensitivity battery).  Each: edits = [(file, old, new)] with `old`
occurring exactly once; props = properties whose check must report it; expect = substring of the rule id
that must appear in the report."""
MUTANTS = {}


def mut(mid, props, edits, expect, note=""):
    MUTANTS[mid] = {"props": props, "edits": edits, "expect": expect, "note": note}


SRV = "core/src/server.rs"
SQL = "sqlite/src/lib.rs"
MEM = "core/src/inmemory.rs"
AV = "server/src/api/add_version.rs"
AS = "server/src/api/add_snapshot.rs"
GCV = "server/src/api/get_child_version.rs"
GS = "server/src/api/get_snapshot.rs"
API = "server/src/api/mod.rs"
LIB = "server/src/lib.rs"
BIN = "server/src/bin/taskchampion-sync-server.rs"

# ---- C02 / S-CAS
mut("cas-weaken-nil", ["C02", "C01", "C08"], [(SRV, "            && parent_version_id != client.latest_version_id\n        {\n            log::debug!(\"add_version request rejected",
     "            && parent_version_id != client.latest_version_id\n            && parent_version_id != NIL_VERSION_ID\n        {\n            log::debug!(\"add_version request rejected")],
    "S-CAS", "guard additionally accepts parent == NIL")
mut("cas-id-from-request", ["C02"], [(SRV, "let version_id = Uuid::new_v4();", "let version_id = if parent_version_id == NIL_VERSION_ID { Uuid::new_v4() } else { parent_version_id };")],
    "S-CAS", "id derived from the request")
mut("cas-parent-rederived", ["C02", "C01"], [(SRV, "txn.add_version(version_id, parent_version_id, history_segment)?;", "txn.add_version(version_id, client.latest_version_id, history_segment)?;")],
    "S-CAS", "parent re-derived from latest")
mut("cas-no-commit", ["C02", "C04", "C05"], [(SRV, "        txn.add_version(version_id, parent_version_id, history_segment)?;\n        txn.commit()?;", "        txn.add_version(version_id, parent_version_id, history_segment)?;\n        let _ = txn.commit();")],
    "S-TXN3", "commit result ignored")
mut("cas-reject-wrong-payload", ["C02"], [(SRV, "AddVersionResult::ExpectedParentVersion(client.latest_version_id),", "AddVersionResult::ExpectedParentVersion(parent_version_id),")],
    "S-CAS", "conflict names the wrong version")

# ---- C09 / S-SCOPE / S-TXN2 / S-CLIENTID
mut("scope-snapshot-by-version", ["C09"], [(SQL, "\"SELECT snapshot, snapshot_version_id FROM clients WHERE client_id = ?\",\n                params![&StoredUuid(self.client_id)],",
     "\"SELECT snapshot, snapshot_version_id FROM clients WHERE snapshot_version_id = ?\",\n                params![&StoredUuid(version_id)],")],
    "S-SCOPE", "snapshot data looked up by version id instead of client id")
mut("scope-mem-key", ["C09"], [(MEM, "            .get(&(self.client_id, version_id))\n            .cloned())\n    }\n\n    fn add_version", "            .get(&(version_id, version_id))\n            .cloned())\n    }\n\n    fn add_version")],
    "S-SCOPE", "in-memory key built without the client id")
mut("begin-deferred", ["C03", "C09", "C02", "C01"], [(SQL, "con.execute(\"BEGIN IMMEDIATE\", [])?;", "con.execute(\"BEGIN\", [])?;")],
    "S-TXN2", "deferred transaction")
mut("handler-client-from-path", ["C09", "C16"], [(GCV, ".get_child_version(client_id, parent_version_id)", ".get_child_version(parent_version_id, parent_version_id)")],
    "S-CLIENTID", "path id used as client id")
mut("scope-update-all-clients", ["C09"], [(SQL, "               versions_since_snapshot = versions_since_snapshot + 1\n             WHERE client_id = ?\",\n                params![StoredUuid(version_id), StoredUuid(self.client_id),],",
     "               versions_since_snapshot = versions_since_snapshot + 1\n             WHERE client_id = ? OR latest_version_id = ?\",\n                params![StoredUuid(version_id), StoredUuid(self.client_id), StoredUuid(parent_version_id)],")],
    "S-SCOPE", "update not scoped to the client only")

# ---- D1 revert (the defect repaired by 0cc2468 must be reported again if it returns)
mut("d1-revert", ["C01", "C03", "C07"], [(AV, "                if txn.get_client().map_err(failure_to_ise)?.is_none() {\n                    txn.new_client(NIL_VERSION_ID).map_err(failure_to_ise)?;\n                    txn.commit().map_err(failure_to_ise)?;\n                }",
     "                txn.new_client(NIL_VERSION_ID).map_err(failure_to_ise)?;\n                txn.commit().map_err(failure_to_ise)?;")],
    "S-NEWCLIENT", "client creation without absence re-check (original defect D1)")
mut("d1-inverted-check", ["C01", "C03", "C07"], [(AV, "if txn.get_client().map_err(failure_to_ise)?.is_none() {", "if txn.get_client().map_err(failure_to_ise)?.is_some() {")],
    "S-NEWCLIENT", "creation when the client exists")
