"""Scripted semantic mutants (checker-sensitivity battery).  Each: edits = [(file, old, new)] with `old`
occurring exactly once; props = properties whose check must report it; expect = substring of the rule id
that must appear in the report."""
MUTANTS = {}


def mut(mid, props, edits, expect, note=""):
    MUTANTS[mid] = {"props": props, "edits": edits, "expect": expect, "note": note}


SRV = "core/src/server.rs"
SQL = "sqlite/src/lib.rs"
MEM = "core/src/inmemory.rs"
AV = "server/src/api/add_version.rs"
AS = "server/src/api/add_snapshot.rs"
GCV = "server/src/api/get_child_version.rs"
GS = "server/src/api/get_snapshot.rs"
API = "server/src/api/mod.rs"
LIB = "server/src/lib.rs"
BIN = "server/src/bin/taskchampion-sync-server.rs"

# ---- C02 / S-CAS
mut("cas-weaken-nil", ["C02", "C01", "C08"], [(SRV, "            && parent_version_id != client.latest_version_id\n        {\n            log::debug!(\"add_version request rejected",
     "            && parent_version_id != client.latest_version_id\n            && parent_version_id != NIL_VERSION_ID\n        {\n            log::debug!(\"add_version request rejected")],
    "S-CAS", "guard additionally accepts parent == NIL")
mut("cas-id-from-request", ["C02"], [(SRV, "        // invent a version ID\n        let version_id = Uuid::new_v4();", "        // invent a version ID\n        let version_id = if parent_version_id == NIL_VERSION_ID { Uuid::new_v4() } else { parent_version_id };")],
    "S-CAS", "id derived from the request")
mut("cas-parent-rederived", ["C02", "C01"], [(SRV, "txn.add_version(version_id, parent_version_id, history_segment)?;", "txn.add_version(version_id, client.latest_version_id, history_segment)?;")],
    "S-CAS", "parent re-derived from latest")
mut("cas-no-commit", ["C02", "C04", "C05"], [(SRV, "        txn.add_version(version_id, parent_version_id, history_segment)?;\n        txn.commit()?;", "        txn.add_version(version_id, parent_version_id, history_segment)?;\n        let _ = txn.commit();")],
    "S-TXN3", "commit result ignored")
mut("cas-reject-wrong-payload", ["C02"], [(SRV, "AddVersionResult::ExpectedParentVersion(client.latest_version_id),", "AddVersionResult::ExpectedParentVersion(parent_version_id),")],
    "S-CAS", "conflict names the wrong version")

# ---- C09 / S-SCOPE / S-TXN2 / S-CLIENTID
mut("scope-snapshot-by-version", ["C09"], [(SQL, "\"SELECT snapshot, snapshot_version_id FROM clients WHERE client_id = ?\",\n                params![&StoredUuid(self.client_id)],",
     "\"SELECT snapshot, snapshot_version_id FROM clients WHERE snapshot_version_id = ?\",\n                params![&StoredUuid(version_id)],")],
    "S-SCOPE", "snapshot data looked up by version id instead of client id")
mut("scope-mem-key", ["C09"], [(MEM, "            .get(&(self.client_id, version_id))\n            .cloned())\n    }\n\n    fn add_version", "            .get(&(version_id, version_id))\n            .cloned())\n    }\n\n    fn add_version")],
    "S-SCOPE", "in-memory key built without the client id")
mut("begin-deferred", ["C03", "C09", "C02", "C01"], [(SQL, "con.execute(\"BEGIN IMMEDIATE\", [])?;", "con.execute(\"BEGIN\", [])?;")],
    "S-TXN2", "deferred transaction")
mut("handler-client-from-path", ["C09", "C16"], [(GCV, ".get_child_version(client_id, parent_version_id)", ".get_child_version(parent_version_id, parent_version_id)")],
    "S-CLIENTID", "path id used as client id")
mut("scope-update-all-clients", ["C09"], [(SQL, "               versions_since_snapshot = versions_since_snapshot + 1\n             WHERE client_id = ?\",\n                params![StoredUuid(version_id), StoredUuid(self.client_id),],",
     "               versions_since_snapshot = versions_since_snapshot + 1\n             WHERE client_id = ? OR latest_version_id = ?\",\n                params![StoredUuid(version_id), StoredUuid(self.client_id), StoredUuid(parent_version_id)],")],
    "S-SCOPE", "update not scoped to the client only")

# ---- D1 revert (the defect repaired by 0cc2468 must be reported again if it returns)
mut("d1-revert", ["C01", "C03", "C07"], [(AV, "                if txn.get_client().map_err(failure_to_ise)?.is_none() {\n                    txn.new_client(NIL_VERSION_ID).map_err(failure_to_ise)?;\n                    txn.commit().map_err(failure_to_ise)?;\n                }",
     "                txn.new_client(NIL_VERSION_ID).map_err(failure_to_ise)?;\n                txn.commit().map_err(failure_to_ise)?;")],
    "S-NEWCLIENT", "client creation without absence re-check (original defect D1)")
mut("d1-inverted-check", ["C01", "C03", "C07"], [(AV, "if txn.get_client().map_err(failure_to_ise)?.is_none() {", "if txn.get_client().map_err(failure_to_ise)?.is_some() {")],
    "S-NEWCLIENT", "creation when the client exists")

# ---- C14
mut("http-low-emits-high", ["C14"], [(AV, "rb.append_header((SNAPSHOT_REQUEST_HEADER, \"urgency=low\"));", "rb.append_header((SNAPSHOT_REQUEST_HEADER, \"urgency=high\"));")], "C14", "Low urgency reported as high")
mut("http-low-emits-nothing", ["C14"], [(AV, "                    SnapshotUrgency::Low => {\n                        rb.append_header((SNAPSHOT_REQUEST_HEADER, \"urgency=low\"));\n                    }", "                    SnapshotUrgency::Low => {}")], "C14", "Low urgency not reported")
mut("http-headers-swapped", ["C14"], [(GCV, ".append_header((VERSION_ID_HEADER, version_id.to_string()))\n            .append_header((PARENT_VERSION_ID_HEADER, parent_version_id.to_string()))", ".append_header((VERSION_ID_HEADER, parent_version_id.to_string()))\n            .append_header((PARENT_VERSION_ID_HEADER, version_id.to_string()))")], "C14", "id headers swapped")
mut("http-gone-as-404", ["C14"], [(GCV, "Err(error::ErrorGone(\"version has been deleted\"))", "Err(error::ErrorNotFound(\"version has been deleted\"))")], "C14", "gone reported as not-found")
mut("http-nosuchclient-500", ["C14"], [(API, "ServerError::NoSuchClient => error::ErrorNotFound(err),", "ServerError::NoSuchClient => error::ErrorInternalServerError(err),")], "C14", "unknown client -> 500")
mut("http-missing-ctype", ["C14"], [(GS, "            .content_type(SNAPSHOT_CONTENT_TYPE)\n", "")], "C14", "snapshot content type missing")
mut("http-conflict-wrong-header", ["C14"], [(AV, "rb.append_header((PARENT_VERSION_ID_HEADER, parent_version_id.to_string()));", "rb.append_header((VERSION_ID_HEADER, parent_version_id.to_string()));")], "C14", "conflict uses X-Version-Id")
mut("http-conflict-names-request-parent", ["C14"], [(AV, "            Ok((AddVersionResult::ExpectedParentVersion(parent_version_id), _)) => {", "            Ok((AddVersionResult::ExpectedParentVersion(_), _)) => {")], "C14", "conflict header names the *requested* parent (shadowing removed)")
mut("http-route-method2", ["C14"], [(GS, "#[get(\"/v1/client/snapshot\")]", "#[actix_web::post(\"/v1/client/snapshot\")]")], "C14", "wrong method")

# ---- C15
mut("size-ge", ["C15"], [(AV, "if (body.len() + chunk.len()) > MAX_SIZE {", "if (body.len() + chunk.len()) >= MAX_SIZE {")], "C15.BOUND", "limit itself refused")
mut("size-limits-differ", ["C15"], [(AS, "const MAX_SIZE: usize = 100 * 1024 * 1024;", "const MAX_SIZE: usize = 10 * 1024 * 1024;")], "C15.BOUND", "limits differ")
mut("size-check-removed", ["C15"], [(AS, "        if (body.len() + chunk.len()) > MAX_SIZE {\n            return Err(error::ErrorBadRequest(\"Snapshot over maximum allowed size\"));\n        }\n", "")], "C15", "no size check")
mut("header-unwrap", ["C15"], [(API, "let client_id = client_id_hdr.to_str().map_err(|_| badrequest())?;", "let client_id = client_id_hdr.to_str().unwrap();")], "C15.NOPANIC", "panic on non-text header")
mut("refusal-500", ["C15"], [(AV, "return Err(error::ErrorBadRequest(\"Empty body\"));", "return Err(error::ErrorInternalServerError(\"Empty body\"));")], "C15.REFUSE", "refusal is 5xx")
mut("empty-check-removed", ["C15"], [(AS, "    if body.is_empty() {\n        return Err(error::ErrorBadRequest(\"No snapshot supplied\"));\n    }\n", "")], "C15", "empty body accepted")
mut("ctype-check-after-op", ["C15"], [(AS, "    if req.content_type() != SNAPSHOT_CONTENT_TYPE {\n        return Err(error::ErrorBadRequest(\"Bad content-type\"));\n    }\n", "")], "C15.CTYPE", "content type unchecked")

# ---- C16
mut("allowlist-log-only", ["C16"], [(API, "                    return Err(error::ErrorForbidden(\"unknown x-client-id\"));", "                    log::warn!(\"unknown x-client-id\");")], "C16", "helper logs instead of refusing")
mut("allowlist-dropped", ["C16", "C17"], [(LIB, "                server: Server::new(config, storage),\n                client_id_allowlist,", "                server: Server::new(config, storage),\n                client_id_allowlist: client_id_allowlist.and(None),")], "C16.WIRE", "list dropped at construction")
mut("allowlist-bypass-endpoint", ["C16", "C09"], [(GS, "let client_id = server_state.client_id_header(&req)?;", "let client_id = req.headers().get(\"X-Client-Id\").and_then(|h| h.to_str().ok()).and_then(|s| uuid::Uuid::parse_str(s).ok()).ok_or_else(|| error::ErrorBadRequest(\"bad x-client-id\"))?;")], "C16", "endpoint parses the header itself")
mut("allowlist-inverted", ["C16"], [(API, "if !allow_list.contains(&client_id) {", "if allow_list.contains(&client_id) {")], "C16.HELPER", "membership inverted")

# ---- C20
mut("cache-health-route", ["C20"], [(BIN, ".configure(|cfg| server.config(cfg))", ".configure(|cfg| server.config(cfg))\n            .route(\"/health\", actix_web::web::get().to(|| async { \"ok\" }))")], "C20.ONLY", "route outside the scope")
mut("cache-directive-no-cache", ["C20"], [(LIB, "(\"Cache-Control\", \"no-store, max-age=0\")", "(\"Cache-Control\", \"no-cache, max-age=0\")")], "C20.WRAP", "directive allows storage")
mut("cache-wrap-removed", ["C20"], [(LIB, "                .wrap(\n                    middleware::DefaultHeaders::new().add((\"Cache-Control\", \"no-store, max-age=0\")),\n                )\n", "")], "C20.WRAP", "wrap removed")
mut("cache-handler-override", ["C20"], [(GS, ".content_type(SNAPSHOT_CONTENT_TYPE)", ".content_type(SNAPSHOT_CONTENT_TYPE)\n            .append_header((\"Cache-Control\", \"max-age=3600\"))")], "C20.NOOVERRIDE", "handler sets own cache-control")

# ---- C10
mut("snap-window-4", ["C10"], [(SRV, "const SNAPSHOT_SEARCH_LEN: i32 = 5;", "const SNAPSHOT_SEARCH_LEN: i32 = 4;")], "C10", "window 4")
mut("snap-window-6", ["C10"], [(SRV, "const SNAPSHOT_SEARCH_LEN: i32 = 5;", "const SNAPSHOT_SEARCH_LEN: i32 = 6;")], "C10", "window 6")
mut("snap-lt-zero", ["C10"], [(SRV, "if search_len <= 0 || vid == NIL_VERSION_ID {", "if search_len < 0 || vid == NIL_VERSION_ID {")], "C10", "off by one exit test")
mut("snap-drop-g0", ["C10"], [(SRV, "        if Some(version_id) == last_snapshot {\n            log::debug!(\"rejecting snapshot for version {version_id}: already exists\");\n            return Ok(());\n        }\n", "")], "C10", "G0 removed")
mut("snap-drop-g2", ["C10"], [(SRV, "            if Some(vid) == last_snapshot {\n                // the new snapshot is older than the last snapshot, so ignore it\n                log::debug!(\"rejecting snapshot for version {version_id}: newer snapshot already exists or no such version\");\n                return Ok(());\n            }\n", "")], "C10", "G2 removed: snapshot may move backwards")
mut("snap-drop-nil", ["C10"], [(SRV, "if vid == version_id && version_id != NIL_VERSION_ID {", "if vid == version_id {")], "C10", "nil snapshot accepted")
mut("snap-store-latest", ["C10", "C11"], [(SRV, "            Snapshot {\n                version_id,\n                timestamp: Utc::now(),", "            Snapshot {\n                version_id: client.latest_version_id,\n                timestamp: Utc::now(),")], "C10", "stores latest instead of v")
mut("snap-counter-not-reset", ["C10", "C12"], [(SRV, "                versions_since: 0,\n            },\n            data,", "                versions_since: last_snapshot.map(|_| 1).unwrap_or(0),\n            },\n            data,")], "C10", "counter not reset")
mut("snap-decrement-first", ["C10"], [(SRV, "        loop {\n            if vid == version_id && version_id != NIL_VERSION_ID {", "        loop {\n            search_len -= 1;\n            if vid == version_id && version_id != NIL_VERSION_ID {")], "C10", "double decrement")
mut("snap-decline-resets-counter", ["C10", "C18"], [(SRV, "                log::warn!(\"rejecting snapshot for version {version_id}: version is too old or no such version\");\n                return Ok(());", "                log::warn!(\"rejecting snapshot for version {version_id}: version is too old or no such version\");\n                txn.set_snapshot(Snapshot { version_id: vid, timestamp: Utc::now(), versions_since: 0 }, vec![])?;\n                txn.commit()?;\n                return Ok(());")], "C1", "decline path writes")

# ---- C11
mut("snap-two-statements", ["C11"], [(SQL, "               versions_since_snapshot = ?,\n               snapshot = ?\n             WHERE client_id = ?\",\n                params![\n                    &StoredUuid(snapshot.version_id),\n                    snapshot.timestamp.timestamp(),\n                    snapshot.versions_since,\n                    data,\n                    &StoredUuid(self.client_id),\n                ],\n            )\n            .context(\"Error creating/updating snapshot\")?;",
     "               versions_since_snapshot = ?\n             WHERE client_id = ?\",\n                params![\n                    &StoredUuid(snapshot.version_id),\n                    snapshot.timestamp.timestamp(),\n                    snapshot.versions_since,\n                    &StoredUuid(self.client_id),\n                ],\n            )\n            .context(\"Error creating/updating snapshot\")?;\n        self.con.execute(\"COMMIT\", [])?;\n        self.con.execute(\"BEGIN IMMEDIATE\", [])?;\n        self.con.execute(\"UPDATE clients SET snapshot = ? WHERE client_id = ?\", params![data, &StoredUuid(self.client_id)])?;")],
    "C11", "metadata and data in two transactions")
mut("snap-cols-swapped", ["C11"], [(SQL, "let snapshot_timestamp: Option<i64> = r.get(1)?;\n                    let versions_since_snapshot: Option<u32> = r.get(2)?;", "let snapshot_timestamp: Option<i64> = r.get(2)?;\n                    let versions_since_snapshot: Option<u32> = r.get(1)?;")], "C11.META", "columns swapped")
mut("snap-crosscheck-removed", ["C11"], [(SQL, "            if v != version_id {\n                return Err(anyhow::anyhow!(\"unexpected snapshot_version_id\"));\n            }\n", "            let _ = v;\n")], "C11.READ", "cross-check removed")
mut("snap-data-second-txn", ["C11", "C03"], [(SRV, "            txn.get_snapshot_data(snap.version_id)?\n                .map(|data| (snap.version_id, data))", "            { drop(txn); let mut txn2 = self.storage.txn(client_id)?; txn2.get_snapshot_data(snap.version_id)? }\n                .map(|data| (snap.version_id, data))")], "C11", "data read in a second transaction")
mut("snap-millis", ["C11", "C19"], [(SQL, "snapshot.timestamp.timestamp(),", "snapshot.timestamp.timestamp_millis(),")], "C11.WRITE", "milliseconds written")

# ---- C12
mut("d2-revert-versions", ["C12"], [(SRV, "        let high = config\n            .snapshot_versions\n            .saturating_add(config.snapshot_versions / 2);", "        let high = config.snapshot_versions * 3 / 2;")], "C12.NOFAIL", "original defect D2")
mut("thr-saturating-mul", ["C12"], [(SRV, "        let high = config\n            .snapshot_days\n            .saturating_add(config.snapshot_days / 2);", "        let high = config.snapshot_days.saturating_mul(3) / 2;")], "C12.ORDER", "saturating_mul(3)/2 drops below the target for large targets")
mut("thr-wrapping", ["C12"], [(SRV, "        let high = config\n            .snapshot_days\n            .saturating_add(config.snapshot_days / 2);", "        let high = config.snapshot_days.wrapping_mul(3) / 2;")], "C12.ORDER", "wrapping arithmetic")
mut("thr-double", ["C12"], [(SRV, "        let high = config\n            .snapshot_days\n            .saturating_add(config.snapshot_days / 2);", "        let high = config.snapshot_days.saturating_add(config.snapshot_days);")], "C12.FACTOR", "high threshold is 2x")
mut("urg-min", ["C12"], [(SRV, "std::cmp::max(time_urgency, version_urgency),", "std::cmp::min(time_urgency, version_urgency),")], "C12.MAX", "min for max")
mut("urg-swapped-arms", ["C12"], [(SRV, "        if days >= high {\n            SnapshotUrgency::High\n        } else if days >= config.snapshot_days {\n            SnapshotUrgency::Low", "        if days >= high {\n            SnapshotUrgency::Low\n        } else if days >= config.snapshot_days {\n            SnapshotUrgency::High")], "C12.SHAPE", "outcomes swapped")
mut("cnt-sqlite-no-increment", ["C12", "C13", "C02"], [(SQL, "               latest_version_id = ?,\n               versions_since_snapshot = versions_since_snapshot + 1\n", "               latest_version_id = ?\n")], "C02.CNT", "sqlite forgets the counter")
mut("cnt-mem-no-increment", ["C12", "C13"], [(MEM, "            if let Some(ref mut snap) = client.snapshot {\n                snap.versions_since += 1;\n            }\n", "")], "C02.CNT", "in-memory forgets the counter")
mut("urg-reread-client", ["C12"], [(SRV, "        // calculate the urgency\n        let time_urgency = match client.snapshot {", "        // calculate the urgency\n        let client = self.storage.txn(client_id)?.get_client()?.ok_or(ServerError::NoSuchClient)?;\n        let time_urgency = match client.snapshot {")], "C12.MAX", "urgency from a re-read client")

# ---- C05
mut("err-commit-ignored-snapshot", ["C05", "C04"], [(SRV, "            data,\n        )?;\n        txn.commit()?;\n        Ok(())", "            data,\n        )?;\n        let _ = txn.commit();\n        Ok(())")], "S-TXN3", "commit error ignored")
mut("err-set-snapshot-ok", ["C05"], [(SRV, "            data,\n        )?;\n        txn.commit()?;\n        Ok(())", "            data,\n        )\n        .ok();\n        txn.commit()?;\n        Ok(())")], "C05.ERR", ".ok() on set_snapshot")
mut("err-sqlite-commit-swallowed", ["C05", "C04"], [(SQL, "        self.con.execute(\"COMMIT\", [])?;\n        Ok(())", "        if let Err(e) = self.con.execute(\"COMMIT\", []) {\n            let _ = e;\n        }\n        Ok(())")], "C05.ERR", "COMMIT failure swallowed in the backend")
mut("err-other-to-400", ["C05", "C14"], [(API, "ServerError::Other(err) => error::ErrorInternalServerError(err),", "ServerError::Other(err) => error::ErrorBadRequest(err),")], "C05.MAP", "storage failure reported as 400")
mut("err-ack-before-commit", ["C05", "C04", "C02"], [(SRV, "        txn.add_version(version_id, parent_version_id, history_segment)?;\n        txn.commit()?;\n\n        // calculate the urgency", "        txn.add_version(version_id, parent_version_id, history_segment)?;\n        if txn.commit().is_err() {\n            log::warn!(\"commit failed\");\n        }\n\n        // calculate the urgency")], "S-TXN3", "success acknowledged although commit failed")
mut("err-insert-ignored", ["C05"], [(SQL, "        .context(\"Error adding version\")?;\n        self.con", "        .context(\"Error adding version\").ok();\n        self.con")], "C05.ERR", "INSERT failure ignored, latest still moved")
mut("err-forget-txn", ["C05"], [(SRV, "            return Ok((\n                AddVersionResult::ExpectedParentVersion(client.latest_version_id),", "            std::mem::forget(txn);\n            return Ok((\n                AddVersionResult::ExpectedParentVersion(client.latest_version_id),")], "C05.DROP", "transaction (and its lock) leaked on the conflict path")

# ---- C17
mut("cfg-default-config", ["C17"], [(BIN, "    let config = ServerConfig {\n        snapshot_days: server_args.snapshot_days,\n        snapshot_versions: server_args.snapshot_versions,\n    };", "    let config = ServerConfig::default();")], "C17.CFG", "parsed snapshot targets ignored")
mut("cfg-first-address-only", ["C17"], [(BIN, "    for listen_address in server_args.listen_addresses {\n        log::info!(\"Serving on {}\", listen_address);\n        http_server = http_server.bind(listen_address)?\n    }", "    if let Some(listen_address) = server_args.listen_addresses.into_iter().next() {\n        log::info!(\"Serving on {}\", listen_address);\n        http_server = http_server.bind(listen_address)?\n    }")], "C17.LISTEN", "only the first address is bound")
mut("cfg-allowlist-none", ["C17", "C16"], [(BIN, "        config,\n        server_args.client_id_allowlist,", "        config,\n        server_args.client_id_allowlist.and(None),")], "C17.LIST", "allow-list replaced by None")
mut("cfg-datadir-ignored", ["C17"], [(BIN, "SqliteStorage::new(server_args.data_dir)?,", "SqliteStorage::new(std::env::temp_dir())?,")], "C17.DIR", "data dir ignored")
mut("cfg-env-name", ["C17"], [(BIN, ".env(\"SNAPSHOT_DAYS\")", ".env(\"SNAPSHOTS_DAYS\")")], "C17.ARGS", "wrong env name")
mut("cfg-allowlist-default", ["C17", "C16"], [(BIN, "                .get_many(\"allow-client-id\")\n                .map(|ids| ids.copied().collect()),", "                .get_many(\"allow-client-id\")\n                .map(|ids| ids.copied().collect())\n                .or_else(|| Some(HashSet::new())),")], "C17.ARGS", "absent list means allow nobody")
mut("cfg-bind-not-kept", ["C17"], [(BIN, "        http_server = http_server.bind(listen_address)?\n    }\n    http_server.run().await?;", "        http_server = http_server.bind(listen_address)?\n    }\n    HttpServer::new(|| App::new()).run().await?;")], "C17.LISTEN", "run on a different builder")

# ---- C13 / C04 / C19 / C06
mut("ddl-drop-on-open", ["C13", "C04", "C19"], [(SQL, "        let queries = vec![\n", "        let queries = vec![\n                \"DROP TABLE IF EXISTS versions;\",\n")], "C13.IDEMPOTENT", "schema dropped at open")
mut("ddl-unconditional", ["C13"], [(SQL, "\"CREATE INDEX IF NOT EXISTS versions_by_parent ON versions (parent_version_id);\"", "\"CREATE INDEX versions_by_parent ON versions (parent_version_id);\"")], "C13.IDEMPOTENT", "reopen fails")
mut("pragma-sync-off", ["C04"], [(SQL, "        con.query_row(\"PRAGMA journal_mode=WAL\", [], |_row| Ok(()))\n            .context(\"Setting journal_mode=WAL\")?;", "        con.query_row(\"PRAGMA journal_mode=WAL\", [], |_row| Ok(()))\n            .context(\"Setting journal_mode=WAL\")?;\n        con.execute(\"PRAGMA synchronous=OFF\", [])?;")], "C04.PRAGMA", "synchronous off")
mut("pragma-journal-memory", ["C04"], [(SQL, "PRAGMA journal_mode=WAL", "PRAGMA journal_mode=MEMORY")], "C04.PRAGMA", "journal in memory")
mut("commit-in-middle", ["C04", "C03", "C05"], [(SQL, "        .context(\"Error adding version\")?;\n        self.con", "        .context(\"Error adding version\")?;\n        self.con.execute(\"COMMIT\", [])?;\n        self.con.execute(\"BEGIN IMMEDIATE\", [])?;\n        self.con")], "S-TXN2", "intermediate commit between insert and latest-move")
mut("fmt-uuid-simple", ["C19"], [(SQL, "let s = self.0.to_string();", "let s = self.0.simple().to_string();")], "C19.ENC", "ids written without hyphens")
mut("fmt-file-name", ["C19", "C17"], [(SQL, "directory.as_ref().join(\"taskchampion-sync-server.sqlite3\")", "directory.as_ref().join(\"taskchampion-sync-server-v2.sqlite3\")")], "C19.FILE", "new file name")
mut("fmt-column-renamed", ["C19"], [(SQL, "CREATE TABLE IF NOT EXISTS versions (version_id STRING PRIMARY KEY, client_id STRING, parent_version_id STRING, history_segment BLOB);", "CREATE TABLE IF NOT EXISTS versions (version_id STRING PRIMARY KEY, client_id STRING, parent_version_id STRING, history_segment BLOB, created INTEGER);")], "C19.SCHEMA", "new column without migration")
mut("fmt-ts-nonoptional", ["C19", "C11"], [(SQL, "let snapshot_timestamp: Option<i64> = r.get(1)?;", "let snapshot_timestamp: Option<i64> = Some(r.get::<_, i64>(1)?);")], "C19", "NULL timestamp not tolerated")
mut("pay-lossy", ["C06"], [(AV, ".add_version(client_id, parent_version_id, body.to_vec())", ".add_version(client_id, parent_version_id, String::from_utf8_lossy(&body).into_owned().into_bytes())")], "C06", "lossy utf8 on the path")
mut("pay-read-string", ["C06", "C19"], [(SQL, "history_segment: r.get(\"history_segment\")?,", "history_segment: r.get::<_, String>(\"history_segment\")?.into_bytes(),")], "C06.BLOB", "read as text")
mut("pay-slice", ["C06"], [(AS, "        body.extend_from_slice(&chunk);", "        body.extend_from_slice(&chunk[..chunk.len().min(65536)]);")], "C06.ACCUM", "chunk truncated")
mut("pay-skip-chunk", ["C06"], [(AV, "        body.extend_from_slice(&chunk);", "        if chunk.len() == 1 {\n            continue;\n        }\n        body.extend_from_slice(&chunk);")], "C06.ACCUM", "one-byte chunks skipped")
mut("pay-bind-text", ["C06", "C19"], [(SQL, "                StoredUuid(parent_version_id),\n                history_segment\n            ]", "                StoredUuid(parent_version_id),\n                String::from_utf8_lossy(&history_segment).into_owned()\n            ]")], "C06.BLOB", "bound as text")

# ---- handler -> operation argument wiring
mut("hargs-parent-from-client", ["C02", "C09", "C14"], [(AV, ".add_version(client_id, parent_version_id, body.to_vec())", ".add_version(client_id, client_id, body.to_vec())")], "H-ARGS", "client id used as the parent version id")
mut("hargs-snapshot-swapped", ["C09", "C10", "C14"], [(AS, ".add_snapshot(client_id, version_id, body.to_vec())", ".add_snapshot(version_id, client_id, body.to_vec())")], "S-CLIENTID", "client id and version id swapped (both Uuid)")
mut("nostate-cache-in-server", ["C09", "C03", "C07"], [(SRV, "pub struct Server {\n    config: ServerConfig,", "pub struct Server {\n    last_seen: std::sync::Mutex<std::collections::HashMap<Uuid, Uuid>>,\n    config: ServerConfig,"), (SRV, "        Self {\n            config,\n            storage: Box::new(storage),\n        }", "        Self {\n            last_seen: Default::default(),\n            config,\n            storage: Box::new(storage),\n        }")], "C03.NOSTATE", "shared mutable state added to Server")

# ---- breaks hidden INSIDE an independently written refactoring (neutral patch first, then the break): the shape normaliser
# must not normalise a violation away
import os as _os
_NP = _os.path.join(_os.path.dirname(_os.path.dirname(_os.path.abspath(__file__))), "neutral_patches")


def _np(n):
    return ("@patch", _os.path.join(_NP, n + ".diff"), None)


mut("comp-apierror-into-400", ["C05", "C14"], [_np("WC2"), (API, "    fn from(err: ApiError) -> Self {\n        err.0\n    }", "    fn from(err: ApiError) -> Self {\n        error::ErrorBadRequest(err.0.to_string())\n    }")],
    "C05.MAP", "ApiError newtype: the framework-boundary conversion answers 400 for everything")
mut("comp-apierror-from-servererror-404", ["C05", "C14"], [_np("WC2"), (API, "    fn from(err: ServerError) -> Self {\n        ApiError(server_error_to_actix(err))\n    }", "    fn from(err: ServerError) -> Self {\n        ApiError(error::ErrorNotFound(err.to_string()))\n    }")],
    "C05.MAP", "ApiError newtype: the `?` conversion of ServerError answers 404 for storage failures")
mut("comp-lookup-enum-swapped", ["C01"], [_np("WB4"), (SQL, "VersionLookup::ById => \"SELECT version_id, parent_version_id, history_segment FROM versions WHERE version_id = ? AND client_id = ?\"", "VersionLookup::ById => \"SELECT version_id, parent_version_id, history_segment FROM versions WHERE parent_version_id = ? AND client_id = ?\"")],
    "C01.KEY", "enum-selected SQL text: the by-id lookup selects by parent")
mut("comp-uuid-header-absent-is-nil", ["C16", "C09"], [_np("WB1"), (API, "uuid_header(req, CLIENT_ID_HEADER, badrequest)?.ok_or_else(badrequest)?;", "uuid_header(req, CLIENT_ID_HEADER, badrequest)?.unwrap_or_else(Uuid::nil);")],
    "S-CLIENTID", "header helper: an absent client id becomes the nil id")
mut("comp-uuid-header-malformed-is-nil", ["C09", "C15"], [_np("WB1"), (API, "    let uuid = Uuid::parse_str(value).map_err(|_| bad())?;\n    Ok(Some(uuid))", "    match Uuid::parse_str(value) {\n        Ok(uuid) => Ok(Some(uuid)),\n        Err(_) => Ok(Some(Uuid::nil())),\n    }")],
    "S-CLIENTID", "header helper: a malformed client id becomes the nil id")
mut("comp-sqlcontext-result-dropped", ["C05", "C04"], [_np("WC3"), (SQL, ".sql_context(\"Error creating/updating snapshot\")?;", ".sql_context(\"Error creating/updating snapshot\").ok();")],
    "C05.ERR", "extension trait: the snapshot UPDATE's failure is discarded")
_CAP = "        if history_segment.len() > 16 * 1024 * 1024 {\n            anyhow::bail!(\"history segment too large\");\n        }\n"
mut("failmode-handler-extra-400", ["C15", "C02", "C14"], [(AV, "    if body.is_empty() {", "    if parent_version_id.is_nil() && body.len() > 16 * 1024 * 1024 {\n        return Err(error::ErrorBadRequest(\"initial version too large\"));\n    }\n\n    if body.is_empty() {")],
    "C15.REFUSE", "a further 400 refusal in the add-version handler for a reason the protocol does not know (silent in all 20 checks before round 13)")
mut("failmode-sqlite-size-cap", ["C13", "C06", "C15", "C02"], [(SQL, "    ) -> anyhow::Result<()> {\n        self.con.execute(\n            \"INSERT INTO versions", "    ) -> anyhow::Result<()> {\n" + _CAP + "        self.con.execute(\n            \"INSERT INTO versions")],
    "S-FAILMODES", "a size cap in the SQLite add_version (silent in all 20 checks before round 13)")
mut("failmode-inmemory-size-cap-first", ["C13", "C06", "C15", "C02"], [(MEM, "    ) -> anyhow::Result<()> {\n        let version = Version {", "    ) -> anyhow::Result<()> {\n" + _CAP + "        let version = Version {")],
    "S-FAILMODES", "a size cap at the top of the in-memory add_version, before any mutation (silent in all 20 checks before round 13)")
mut("failmode-core-size-cap", ["C02", "C06", "C13", "C15"], [(SRV, "        let mut txn = self.storage.txn(client_id)?;\n        let client = txn.get_client()?.ok_or(ServerError::NoSuchClient)?;\n\n        // check if this version is acceptable",
     "        if history_segment.len() > 16 * 1024 * 1024 {\n            return Err(ServerError::Other(anyhow::anyhow!(\"history segment too large\")));\n        }\n        let mut txn = self.storage.txn(client_id)?;\n        let client = txn.get_client()?.ok_or(ServerError::NoSuchClient)?;\n\n        // check if this version is acceptable")],
    "S-FAILMODES", "a size cap at the top of Server::add_version (silent in all 20 checks before round 13)")
mut("skip-sqlite-add-version-ok", ["C01", "C02", "C06"], [(SQL, "    ) -> anyhow::Result<()> {\n        self.con.execute(\n            \"INSERT INTO versions", "    ) -> anyhow::Result<()> {\n        if history_segment.len() > 16 * 1024 * 1024 {\n            return Ok(());\n        }\n        self.con.execute(\n            \"INSERT INTO versions")],
    "S-OKAFTER", "the SQLite add_version silently drops an oversized segment and returns Ok")
mut("skip-inmemory-add-version-ok", ["C01", "C02", "C06", "C13"], [(MEM, "    ) -> anyhow::Result<()> {\n        let version = Version {", "    ) -> anyhow::Result<()> {\n        if history_segment.len() > 16 * 1024 * 1024 {\n            return Ok(());\n        }\n        let version = Version {")],
    "S-OKAFTER", "the in-memory add_version silently drops an oversized segment and returns Ok")
mut("skip-sqlite-set-snapshot-ok", ["C11", "C10", "C13"], [(SQL, "    fn set_snapshot(&mut self, snapshot: Snapshot, data: Vec<u8>) -> anyhow::Result<()> {\n", "    fn set_snapshot(&mut self, snapshot: Snapshot, data: Vec<u8>) -> anyhow::Result<()> {\n        if data.len() > 64 * 1024 * 1024 {\n            return Ok(());\n        }\n")],
    "S-OKAFTER", "the SQLite set_snapshot silently drops a large snapshot and returns Ok (silent in all 20 checks before round 13)")
mut("skip-schema-when-file-exists", ["C04"], [(SQL, "        for q in queries {\n", "        if !o.db_file.metadata().map(|m| m.len() == 0).unwrap_or(true) {\n            return Ok(o);\n        }\n        for q in queries {\n")],
    "C04.SCHEMA", "SqliteStorage::new skips the idempotent schema statements when the database file is not empty: a half-created schema is never completed")
mut("comp-divisor-const-one", ["C12"], [_np("WB2"), (SRV, "const HIGH_EXTRA_DIVISOR: u8 = 2;", "const HIGH_EXTRA_DIVISOR: u8 = 1;")],
    "C12.FACTOR", "named divisor constant: high threshold at twice the target")
