#!/usr/bin/env python3
"""Writes baseline/functions-<commit>.json: the workspace functions that exist on the pinned tree (canonical def
paths after role-based canonicalisation).  The normaliser (lib/tcss/normalize.py) splices any *other* workspace
function into its callers: the rules know the listed functions by name and treat everything else as inline code.
Run once on the unchanged tree."""
import json, os, sys
HERE = os.path.dirname(os.path.abspath(__file__))
sys.path.insert(0, os.path.join(os.path.dirname(HERE), "lib"))
from tcss import canon, extract
f, h = extract.facts("dev")
f, _ = canon.canonicalize(f)
out = set()
for d in f.values():
    for b in d["bodies"]:
        if b["kind"] in ("Fn", "AssocFn"):
            out.add(b["def"])
p = os.path.join(os.path.dirname(HERE), "baseline", "functions-a6bc6ede.json")
json.dump(sorted(out), open(p, "w"), indent=1)
print(len(out), "functions ->", p)
