"""Behaviour-preserving edits on which every check must stay silent (neutrality battery)."""
NEUTRAL = {}


def neu(nid, edits, note, props=None):
    NEUTRAL[nid] = {"edits": edits, "note": note, "props": props}


SRV = "core/src/server.rs"
SQL = "sqlite/src/lib.rs"
MEM = "core/src/inmemory.rs"
AV = "server/src/api/add_version.rs"
AS = "server/src/api/add_snapshot.rs"
GCV = "server/src/api/get_child_version.rs"
GS = "server/src/api/get_snapshot.rs"
API = "server/src/api/mod.rs"
LIB = "server/src/lib.rs"
BIN = "server/src/bin/taskchampion-sync-server.rs"

neu("rename-locals-add-version", [(SRV, "        // invent a version ID\n        let version_id = Uuid::new_v4();\n        log::debug!(\"add_version request accepted: new version_id: {version_id}\");\n\n        // update the DB\n        txn.add_version(version_id, parent_version_id, history_segment)?;",
     "        // invent a version ID\n        let fresh = Uuid::new_v4();\n        log::debug!(\"add_version request accepted: new version_id: {fresh}\");\n\n        // update the DB\n        txn.add_version(fresh, parent_version_id, history_segment)?;"),
    (SRV, "            AddVersionResult::Ok(version_id),\n            std::cmp::max(time_urgency, version_urgency),", "            AddVersionResult::Ok(fresh),\n            std::cmp::max(time_urgency, version_urgency),")],
    "rename a local")
neu("swap-conjuncts", [(SRV, "        if client.latest_version_id != NIL_VERSION_ID\n            && parent_version_id != client.latest_version_id\n        {", "        if parent_version_id != client.latest_version_id\n            && client.latest_version_id != NIL_VERSION_ID\n        {")],
    "swap the two conjuncts of the acceptance test")
neu("eq-swapped-operands", [(SRV, "            if client.latest_version_id == parent_version_id\n                || client.latest_version_id == NIL_VERSION_ID", "            if NIL_VERSION_ID == client.latest_version_id\n                || parent_version_id == client.latest_version_id")],
    "swap operands and disjuncts in get_child_version")
neu("positive-form-accept", [(SRV, "        if client.latest_version_id != NIL_VERSION_ID\n            && parent_version_id != client.latest_version_id\n        {\n            log::debug!(\"add_version request rejected: mismatched latest_version_id\");\n            return Ok((\n                AddVersionResult::ExpectedParentVersion(client.latest_version_id),\n                SnapshotUrgency::None,\n            ));\n        }",
     "        let acceptable = client.latest_version_id == NIL_VERSION_ID\n            || parent_version_id == client.latest_version_id;\n        if !acceptable {\n            log::debug!(\"add_version request rejected: mismatched latest_version_id\");\n            return Ok((\n                AddVersionResult::ExpectedParentVersion(client.latest_version_id),\n                SnapshotUrgency::None,\n            ));\n        }")],
    "acceptance test computed into a bool first (== / || form)")
neu("match-instead-of-if-let", [(SRV, "        if let Some(version) = txn.get_version_by_parent(parent_version_id)? {\n            return Ok(GetVersionResult::Success {\n                version_id: version.version_id,\n                parent_version_id: version.parent_version_id,\n                history_segment: version.history_segment,\n            });\n        }",
     "        match txn.get_version_by_parent(parent_version_id)? {\n            Some(version) => {\n                return Ok(GetVersionResult::Success {\n                    version_id: version.version_id,\n                    parent_version_id: version.parent_version_id,\n                    history_segment: version.history_segment,\n                })\n            }\n            None => {}\n        }")],
    "if let -> match")
neu("extra-logging", [(SRV, "        let mut txn = self.storage.txn(client_id)?;\n        let client = txn.get_client()?.ok_or(ServerError::NoSuchClient)?;\n\n        // If a version with parentVersionId", "        log::debug!(\"get_child_version(client_id: {client_id})\");\n        let mut txn = self.storage.txn(client_id)?;\n        let client = txn.get_client()?.ok_or(ServerError::NoSuchClient)?;\n        log::trace!(\"client latest = {}\", client.latest_version_id);\n\n        // If a version with parentVersionId"),
    (GS, "    let client_id = server_state.client_id_header(&req)?;\n", "    let client_id = server_state.client_id_header(&req)?;\n    log::debug!(\"get_snapshot for {client_id}\");\n")],
    "add logging")
neu("sql-reformat", [(SQL, "\"SELECT snapshot, snapshot_version_id FROM clients WHERE client_id = ?\"", "\"select snapshot,\\n   snapshot_version_id\\n from clients\\n where client_id = ?\""),
    (SQL, "\"INSERT INTO versions (version_id, client_id, parent_version_id, history_segment) VALUES(?, ?, ?, ?)\"", "\"INSERT INTO versions (version_id, client_id, parent_version_id, history_segment)\\n             VALUES (?1, ?2, ?3, ?4)\"")],
    "reformat / re-case SQL, numbered placeholders")
neu("reorder-match-arms", [(GCV, "        Ok(GetVersionResult::NotFound) => Err(error::ErrorNotFound(\"no such version\")),\n        Ok(GetVersionResult::Gone) => Err(error::ErrorGone(\"version has been deleted\")),", "        Ok(GetVersionResult::Gone) => Err(error::ErrorGone(\"version has been deleted\")),\n        Ok(GetVersionResult::NotFound) => Err(error::ErrorNotFound(\"no such version\")),")],
    "reorder match arms")
neu("rename-private-fields", [(MEM, "    written: bool,\n    committed: bool,\n}", "    dirty: bool,\n    done: bool,\n}"), (MEM, "            written: false,\n            committed: false,", "            dirty: false,\n            done: false,"),
    (MEM, "        self.written = true;\n        Ok(())\n    }\n\n    fn set_snapshot", "        self.dirty = true;\n        Ok(())\n    }\n\n    fn set_snapshot"),
    (MEM, "        self.guard.snapshots.insert(self.client_id, data);\n        self.written = true;", "        self.guard.snapshots.insert(self.client_id, data);\n        self.dirty = true;"),
    (MEM, "        self.written = true;\n        Ok(())\n    }\n\n    fn commit", "        self.dirty = true;\n        Ok(())\n    }\n\n    fn commit"),
    (MEM, "        self.committed = true;", "        self.done = true;"), (MEM, "        if self.written && !self.committed {", "        if self.dirty && !self.done {")],
    "rename private bookkeeping fields of InnerTxn")
neu("unrelated-pub-fn", [(SRV, "    /// Convenience method to get a transaction for the embedded storage.", "    /// The configuration this server was built with.\n    pub fn config(&self) -> &ServerConfig {\n        &self.config\n    }\n\n    /// Convenience method to get a transaction for the embedded storage.")],
    "add an unrelated accessor")
neu("question-mark-to-match", [(SRV, "        let mut txn = self.storage.txn(client_id)?;\n        let client = txn.get_client()?.ok_or(ServerError::NoSuchClient)?;\n\n        Ok(if let Some(snap) = client.snapshot {",
     "        let mut txn = self.storage.txn(client_id)?;\n        let client = match txn.get_client()? {\n            Some(c) => c,\n            None => return Err(ServerError::NoSuchClient),\n        };\n\n        Ok(if let Some(snap) = client.snapshot {")],
    "ok_or()? -> explicit match in get_snapshot")
neu("while-loop-respelled", [(AS, "    while let Some(chunk) = payload.next().await {\n        let chunk = chunk?;", "    loop {\n        let chunk = match payload.next().await {\n            Some(c) => c?,\n            None => break,\n        };")],
    "while let -> loop/match/break in the body accumulation")
neu("explicit-return-style", [(API, "            Ok(client_id)\n        } else {\n            Err(badrequest())\n        }", "            return Ok(client_id);\n        }\n        Err(badrequest())")],
    "early return in client_id_header")
neu("const-inlined-limit", [(AV, "const MAX_SIZE: usize = 100 * 1024 * 1024;", "const MAX_SIZE: usize = 104_857_600;")], "limit written differently")
neu("urgency-match-to-if", [(AV, "                match snap_urgency {\n                    SnapshotUrgency::None => {}\n                    SnapshotUrgency::Low => {\n                        rb.append_header((SNAPSHOT_REQUEST_HEADER, \"urgency=low\"));\n                    }\n                    SnapshotUrgency::High => {\n                        rb.append_header((SNAPSHOT_REQUEST_HEADER, \"urgency=high\"));\n                    }\n                };",
     "                if snap_urgency == SnapshotUrgency::Low {\n                    rb.append_header((SNAPSHOT_REQUEST_HEADER, \"urgency=low\"));\n                } else if snap_urgency == SnapshotUrgency::High {\n                    rb.append_header((SNAPSHOT_REQUEST_HEADER, \"urgency=high\"));\n                }")],
    "match on urgency -> if/else-if on ==")
neu("helper-extracted-guard", [(SRV, "        if client.latest_version_id != NIL_VERSION_ID\n            && parent_version_id != client.latest_version_id\n        {\n            log::debug!(\"add_version request rejected", "        if !acceptable_parent(&client, parent_version_id) {\n            log::debug!(\"add_version request rejected"),
    (SRV, "/// A server implementing the TaskChampion sync protocol.", "/// Whether a new version with the given parent may be appended to this client's chain.\nfn acceptable_parent(client: &crate::storage::Client, parent_version_id: VersionId) -> bool {\n    client.latest_version_id == NIL_VERSION_ID || parent_version_id == client.latest_version_id\n}\n\n/// A server implementing the TaskChampion sync protocol.")],
    "acceptance test extracted into a helper function (needs predicate inlining)")

_LOOP_AV = "    let mut body = web::BytesMut::new();\n    while let Some(chunk) = payload.next().await {\n        let chunk = chunk?;\n        // limit max size of in-memory payload\n        if (body.len() + chunk.len()) > MAX_SIZE {\n            return Err(error::ErrorBadRequest(\"overflow\"));\n        }\n        body.extend_from_slice(&chunk);\n    }\n"
_LOOP_AS = "    let mut body = web::BytesMut::new();\n    while let Some(chunk) = payload.next().await {\n        let chunk = chunk?;\n        // limit max size of in-memory payload\n        if (body.len() + chunk.len()) > MAX_SIZE {\n            return Err(error::ErrorBadRequest(\"Snapshot over maximum allowed size\"));\n        }\n        body.extend_from_slice(&chunk);\n    }\n"
_HELPER = "/// Read a request body in its entirety, refusing to buffer more than `max_size` bytes.\npub(crate) async fn read_body(mut payload: web::Payload, max_size: usize) -> Result<web::BytesMut> {\n    use futures::StreamExt;\n    let mut body = web::BytesMut::new();\n    while let Some(chunk) = payload.next().await {\n        let chunk = chunk?;\n        if (body.len() + chunk.len()) > max_size {\n            return Err(error::ErrorBadRequest(\"body over maximum allowed size\"));\n        }\n        body.extend_from_slice(&chunk);\n    }\n    Ok(body)\n}\n\npub(crate) fn api_scope() -> Scope {"
neu("read-body-helper", [
    (AV, _LOOP_AV, "    let body = crate::api::read_body(payload, MAX_SIZE).await?;\n"),
    (AV, "    mut payload: web::Payload,", "    payload: web::Payload,"),
    (AV, "use futures::StreamExt;\n", ""),
    (AS, _LOOP_AS, "    let body = crate::api::read_body(payload, MAX_SIZE).await?;\n"),
    (AS, "    mut payload: web::Payload,", "    payload: web::Payload,"),
    (AS, "use futures::StreamExt;\n", ""),
    (API, "pub(crate) fn api_scope() -> Scope {", _HELPER)],
    "the duplicated body-reading loop extracted (unchanged) into a shared async helper")

neu("rename-private-fns", [
    (API, "    fn client_id_header(&self, req: &HttpRequest) -> Result<ClientId> {", "    fn authenticated_client(&self, req: &HttpRequest) -> Result<ClientId> {"),
    (AV, "server_state.client_id_header(&req)?", "server_state.authenticated_client(&req)?"),
    (AS, "server_state.client_id_header(&req)?", "server_state.authenticated_client(&req)?"),
    (GCV, "server_state.client_id_header(&req)?", "server_state.authenticated_client(&req)?"),
    (GS, "server_state.client_id_header(&req)?", "server_state.authenticated_client(&req)?"),
    (SQL, "    fn new_connection(&self) -> anyhow::Result<Connection> {", "    fn connect(&self) -> anyhow::Result<Connection> {"),
    (SQL, "        let con = o.new_connection()?;", "        let con = o.connect()?;"),
    (SQL, "        let con = self.new_connection()?;", "        let con = self.connect()?;"),
    (SQL, "    fn get_version_impl(\n", "    fn query_version(\n"),
    (SQL, "        self.get_version_impl(\n            \"SELECT version_id, parent_version_id, history_segment FROM versions WHERE parent_version_id = ? AND client_id = ?\",", "        self.query_version(\n            \"SELECT version_id, parent_version_id, history_segment FROM versions WHERE parent_version_id = ? AND client_id = ?\","),
    (SQL, "        self.get_version_impl(\n            \"SELECT version_id, parent_version_id, history_segment FROM versions WHERE version_id = ? AND client_id = ?\",", "        self.query_version(\n            \"SELECT version_id, parent_version_id, history_segment FROM versions WHERE version_id = ? AND client_id = ?\","),
], "rename private helper functions (client_id_header, new_connection, get_version_impl)", props=None)

neu("rename-private-types-and-fields", [
    (SQL, ("all", "Txn"), "SqliteTxn"), (SQL, ("all", "StoredUuid"), "UuidText"), (SQL, ("all", "con"), "conn"), (SQL, ("all", "db_file"), "path"),
    (MEM, ("all", "InnerTxn"), "MemTxn"), (MEM, ("all", "Inner"), "State"), (MEM, ("all", "guard"), "lock"),
    (MEM, ("all", "clients"), "client_records"), (MEM, ("all", "children"), "child_index"),
], "rename private structs (Txn, StoredUuid, InnerTxn, Inner) and private fields (con, db_file, guard, clients, children)")
neu("rename-error-mappers-and-scope", [
    (API, ("all", "server_error_to_actix"), "to_http_error"), (API, ("all", "failure_to_ise"), "internal_error"), (API, ("all", "api_scope"), "protocol_scope"),
    (AV, ("all", "server_error_to_actix"), "to_http_error"), (AV, ("all", "failure_to_ise"), "internal_error"),
    (AS, ("all", "server_error_to_actix"), "to_http_error"), (GCV, ("all", "server_error_to_actix"), "to_http_error"), (GS, ("all", "server_error_to_actix"), "to_http_error"),
    (LIB, ("all", "api_scope"), "protocol_scope"),
], "rename server_error_to_actix / failure_to_ise / api_scope")
neu("rename-server-private-fields", [
    (SRV, "    config: ServerConfig,\n    storage: Box<dyn Storage>,", "    settings: ServerConfig,\n    backend: Box<dyn Storage>,"),
    (SRV, "        Self {\n            config,\n            storage: Box::new(storage),\n        }", "        Self {\n            settings: config,\n            backend: Box::new(storage),\n        }"),
    (SRV, ("all", "self.storage"), "self.backend"), (SRV, ("all", "self.config"), "self.settings"),
    (LIB, ("all", "server_state"), "shared"),
], "rename private fields of Server (storage, config) and WebServer (server_state)")
neu("rename-handler-params", [
    (AV, ("all", "payload"), "stream"), (AV, ("all", "server_state"), "state"), (AV, ("all", "req"), "request"),
    (AS, ("all", "payload"), "stream"),
], "rename handler parameters")

neu("tuple-params", [
    (SQL, "                params![&StoredUuid(self.client_id), &StoredUuid(latest_version_id)],", "                (&StoredUuid(self.client_id), &StoredUuid(latest_version_id)),"),
    (SQL, "                params![StoredUuid(version_id), StoredUuid(self.client_id),],", "                (StoredUuid(version_id), StoredUuid(self.client_id)),"),
], "rusqlite tuple parameters instead of params![]")
neu("let-else-header", [
    (API, "        if let Some(client_id_hdr) = req.headers().get(CLIENT_ID_HEADER) {\n            let client_id = client_id_hdr.to_str().map_err(|_| badrequest())?;\n            let client_id = ClientId::parse_str(client_id).map_err(|_| badrequest())?;\n            if let Some(allow_list) = &self.client_id_allowlist {\n                if !allow_list.contains(&client_id) {\n                    return Err(error::ErrorForbidden(\"unknown x-client-id\"));\n                }\n            }\n            Ok(client_id)\n        } else {\n            Err(badrequest())\n        }",
     "        let Some(client_id_hdr) = req.headers().get(CLIENT_ID_HEADER) else {\n            return Err(badrequest());\n        };\n        let client_id = client_id_hdr.to_str().map_err(|_| badrequest())?;\n        let client_id = ClientId::parse_str(client_id).map_err(|_| badrequest())?;\n        match &self.client_id_allowlist {\n            Some(allow_list) if !allow_list.contains(&client_id) => Err(error::ErrorForbidden(\"unknown x-client-id\")),\n            _ => Ok(client_id),\n        }"),
], "let-else and a match with a guard in client_id_header")
neu("config-chain-split", [
    (LIB, "        cfg.service(\n            web::scope(\"\")\n                .app_data(web::Data::new(self.server_state.clone()))\n                .wrap(\n                    middleware::DefaultHeaders::new().add((\"Cache-Control\", \"no-store, max-age=0\")),\n                )\n                .service(index)\n                .service(api_scope()),\n        );",
     "        let no_store = middleware::DefaultHeaders::new().add((\"Cache-Control\", \"no-store, max-age=0\"));\n        let scope = web::scope(\"\").app_data(web::Data::new(self.server_state.clone()));\n        let scope = scope.wrap(no_store);\n        let scope = scope.service(index).service(api_scope());\n        cfg.service(scope);"),
], "WebServer::config builder chain split into let-bindings")
neu("sql-benign-variants", [
    (SQL, "\"SELECT snapshot, snapshot_version_id FROM clients WHERE client_id = ?\"", "\"SELECT snapshot, snapshot_version_id FROM clients WHERE client_id = ? LIMIT 1\""),
    (SQL, "               snapshot_version_id = ?,\n               snapshot_timestamp = ?,\n               versions_since_snapshot = ?,\n               snapshot = ?\n             WHERE client_id = ?\",\n                params![\n                    &StoredUuid(snapshot.version_id),\n                    snapshot.timestamp.timestamp(),\n                    snapshot.versions_since,\n                    data,\n                    &StoredUuid(self.client_id),\n                ],",
     "               snapshot = ?,\n               versions_since_snapshot = ?,\n               snapshot_timestamp = ?,\n               snapshot_version_id = ?\n             WHERE client_id = ?\",\n                params![\n                    data,\n                    snapshot.versions_since,\n                    snapshot.timestamp.timestamp(),\n                    &StoredUuid(snapshot.version_id),\n                    &StoredUuid(self.client_id),\n                ],"),
], "LIMIT 1 added; SET columns (and their parameters) reordered")
neu("urgency-before-commit", [
    (SRV, "        txn.add_version(version_id, parent_version_id, history_segment)?;\n        txn.commit()?;\n\n        // calculate the urgency\n        let time_urgency = match client.snapshot {\n            None => SnapshotUrgency::High,\n            Some(Snapshot { timestamp, .. }) => {\n                SnapshotUrgency::for_days(&self.config, (Utc::now() - timestamp).num_days())\n            }\n        };\n",
     "        // calculate the urgency\n        let time_urgency = match client.snapshot {\n            None => SnapshotUrgency::High,\n            Some(Snapshot { timestamp, .. }) => {\n                SnapshotUrgency::for_days(&self.config, (Utc::now() - timestamp).num_days())\n            }\n        };\n\n        txn.add_version(version_id, parent_version_id, history_segment)?;\n        txn.commit()?;\n"),
], "time urgency computed (from the already-read record) before the write instead of after")
neu("fresh-id-early", [
    (SRV, "        let mut txn = self.storage.txn(client_id)?;\n        let client = txn.get_client()?.ok_or(ServerError::NoSuchClient)?;\n\n        // check if this version is acceptable, under the protection of the transaction",
     "        // invent a version ID\n        let version_id = Uuid::new_v4();\n        let mut txn = self.storage.txn(client_id)?;\n        let client = txn.get_client()?.ok_or(ServerError::NoSuchClient)?;\n\n        // check if this version is acceptable, under the protection of the transaction"),
    (SRV, "        // invent a version ID\n        let version_id = Uuid::new_v4();\n        log::debug!(\"add_version request accepted", "        log::debug!(\"add_version request accepted"),
], "fresh id generated before the transaction is opened")
neu("unrelated-flag-and-field", [
    (BIN, "        .arg(\n            arg!(--\"snapshot-days\" <NUM> \"Target number of days between snapshots\")", "        .arg(arg!(--quiet \"Log less\").env(\"QUIET\").action(ArgAction::SetTrue))\n        .arg(\n            arg!(--\"snapshot-days\" <NUM> \"Target number of days between snapshots\")"),
], "an unrelated command-line flag")
neu("checks-reordered", [
    (GCV, "    let parent_version_id = path.into_inner();\n    let client_id = server_state.client_id_header(&req)?;", "    let client_id = server_state.client_id_header(&req)?;\n    let parent_version_id = path.into_inner();"),
    (AS, "    // check content-type\n    if req.content_type() != SNAPSHOT_CONTENT_TYPE {\n        return Err(error::ErrorBadRequest(\"Bad content-type\"));\n    }\n\n    let client_id = server_state.client_id_header(&req)?;\n", "    let client_id = server_state.client_id_header(&req)?;\n\n    // check content-type\n    if req.content_type() != SNAPSHOT_CONTENT_TYPE {\n        return Err(error::ErrorBadRequest(\"Bad content-type\"));\n    }\n"),
], "client-id extraction moved before the other pre-checks")
neu("handler-loop-respelled", [
    (AV, "    loop {\n        return match server_state\n            .server\n            .add_version(client_id, parent_version_id, body.to_vec())\n        {",
     "    let mut created = false;\n    loop {\n        let outcome = server_state\n            .server\n            .add_version(client_id, parent_version_id, body.to_vec());\n        log::trace!(\"add_version attempt (client created: {created})\");\n        return match outcome {"),
    (AV, "                    txn.commit().map_err(failure_to_ise)?;\n                }\n                continue;", "                    txn.commit().map_err(failure_to_ise)?;\n                    created = true;\n                }\n                continue;"),
], "operation result bound to a local before the match; an extra local flag")

neu("decline-conditions-merged", [
    (SRV, "            search_len -= 1;\n            if search_len <= 0 || vid == NIL_VERSION_ID {\n                // this should not happen in normal operation, so warn about it\n                log::warn!(\"rejecting snapshot for version {version_id}: version is too old or no such version\");\n                return Ok(());\n            }\n\n            // get the parent version ID\n            if let Some(parent) = txn.get_version(vid)? {\n                vid = parent.parent_version_id;\n            } else {\n                // this version does not exist; \"this should not happen\" but if it does,\n                // we don't need a snapshot earlier than the missing version.\n                log::warn!(\"rejecting snapshot for version {version_id}: newer versions have already been deleted\");\n                return Ok(());\n            }",
     "            search_len -= 1;\n            let parent = if search_len <= 0 || vid == NIL_VERSION_ID {\n                None\n            } else {\n                txn.get_version(vid)?\n            };\n            match parent {\n                Some(parent) => vid = parent.parent_version_id,\n                None => {\n                    log::warn!(\"rejecting snapshot for version {version_id}: too old, no such version, or history pruned\");\n                    return Ok(());\n                }\n            }"),
], "two decline exits of add_snapshot merged into one (same conditions)")

_URG_MATCH = "                match snap_urgency {\n                    SnapshotUrgency::None => {}\n                    SnapshotUrgency::Low => {\n                        rb.append_header((SNAPSHOT_REQUEST_HEADER, \"urgency=low\"));\n                    }\n                    SnapshotUrgency::High => {\n                        rb.append_header((SNAPSHOT_REQUEST_HEADER, \"urgency=high\"));\n                    }\n                };"
_URG_CALL = "                if let Some(value) = crate::api::snapshot_request_value(snap_urgency) {\n                    rb.append_header((SNAPSHOT_REQUEST_HEADER, value));\n                }"
neu("urgency-header-helper-match", [
    (AV, _URG_MATCH, _URG_CALL),
    (API, "pub(crate) fn api_scope() -> Scope {", "/// Value of the X-Snapshot-Request header for an urgency, if any.\npub(crate) fn snapshot_request_value(urgency: taskchampion_sync_server_core::SnapshotUrgency) -> Option<&'static str> {\n    use taskchampion_sync_server_core::SnapshotUrgency;\n    match urgency {\n        SnapshotUrgency::None => None,\n        SnapshotUrgency::Low => Some(\"urgency=low\"),\n        SnapshotUrgency::High => Some(\"urgency=high\"),\n    }\n}\n\npub(crate) fn api_scope() -> Scope {"),
], "X-Snapshot-Request value computed by a helper (match on the urgency)")
neu("urgency-header-helper-thresholds", [
    (AV, _URG_MATCH, _URG_CALL),
    (API, "pub(crate) fn api_scope() -> Scope {", "/// Value of the X-Snapshot-Request header for an urgency, if any.\npub(crate) fn snapshot_request_value(urgency: taskchampion_sync_server_core::SnapshotUrgency) -> Option<&'static str> {\n    use taskchampion_sync_server_core::SnapshotUrgency;\n    if urgency >= SnapshotUrgency::High {\n        Some(\"urgency=high\")\n    } else if urgency >= SnapshotUrgency::Low {\n        Some(\"urgency=low\")\n    } else {\n        None\n    }\n}\n\npub(crate) fn api_scope() -> Scope {"),
], "X-Snapshot-Request value computed by a helper (ordered thresholds, correct)")

neu("option-sentinel-refactor", [
    (SRV, "/// A server implementing the TaskChampion sync protocol.", "/// The \"no version\" sentinel as an Option.\nfn some_version(version_id: VersionId) -> Option<VersionId> {\n    if version_id == NIL_VERSION_ID {\n        None\n    } else {\n        Some(version_id)\n    }\n}\n\n/// A server implementing the TaskChampion sync protocol."),
    (SRV, "            if client.latest_version_id == parent_version_id\n                || client.latest_version_id == NIL_VERSION_ID\n            {\n                GetVersionResult::NotFound\n            } else {\n                GetVersionResult::Gone\n            },",
     "            match (\n                some_version(client.latest_version_id),\n                some_version(parent_version_id),\n            ) {\n                (None, _) => GetVersionResult::NotFound,\n                (Some(latest), Some(parent)) if latest == parent => GetVersionResult::NotFound,\n                (Some(_), Some(_)) => GetVersionResult::Gone,\n                (Some(_), None) => GetVersionResult::Gone,\n            },"),
    (SRV, "        if client.latest_version_id != NIL_VERSION_ID\n            && parent_version_id != client.latest_version_id\n        {\n            log::debug!(\"add_version request rejected: mismatched latest_version_id\");\n            return Ok((\n                AddVersionResult::ExpectedParentVersion(client.latest_version_id),\n                SnapshotUrgency::None,\n            ));\n        }",
     "        if let Some(latest_version_id) = some_version(client.latest_version_id) {\n            if parent_version_id != latest_version_id {\n                log::debug!(\"add_version request rejected: mismatched latest_version_id\");\n                return Ok((\n                    AddVersionResult::ExpectedParentVersion(latest_version_id),\n                    SnapshotUrgency::None,\n                ));\n            }\n        }"),
], "NIL sentinel comparisons replaced by a helper returning Option and matches on it (equivalent in both operations)")


# ---- independently written behaviour-preserving refactorings (sub-agents given only the repository; see
# neutral_patches/*.README.md): each is a unified diff that builds, is clippy-clean and passes the 65 tests unchanged.
import glob as _glob
import os as _os
_PD = _os.path.join(_os.path.dirname(_os.path.dirname(_os.path.abspath(__file__))), "neutral_patches")
_PATCH_NOTES = {
    "NA1": "core: urgency computation extracted to Server::snapshot_urgency", "NA2": "core: if-let / let-else / guarded match restructuring",
    "NA3": "core: private const, fns and locals renamed", "NA4": "core: generic threshold helper, Ord::max",
    "NB1": "sqlite: snapshot_from_columns helper out of the row closure", "NB2": "sqlite: get_snapshot_data with let-else + bail",
    "NB3": "sqlite: query helper renamed, client_id parameter dropped", "NB4": "sqlite: map/map_err idioms, array instead of vec!",
    "NC1": "inmemory: let-else control flow", "NC2": "inmemory: Inner::empty() and key() helpers", "NC3": "inmemory: private fields renamed",
    "NC4": "inmemory: HashMap::entry, is_some_and, and_then+cloned", "ND1": "add_snapshot: async body-reading helper",
    "ND2": "add_version: loop { match } restructured with break values", "ND3": "add_version: header value mapping function",
    "ND4": "handlers: try_next().await? and renamed private consts", "NE1": "api: let-else + match guard in client_id_header",
    "NE2": "get_child_version: map_err closure + separate match", "NE3": "get_snapshot: response helper + map/ok_or_else",
    "NE4": "api: private items renamed", "NF1": "lib: default_headers() helper, locals", "NF2": "bin: private fn and fields renamed",
    "NF3": "bin: argument-builder helper fns", "NF4": "bin: destructuring let, try_fold over listen addresses",
    "OA1": "sqlite: new_connection inlined into its two callers", "OA2": "api: failure_to_ise inlined (ErrorInternalServerError passed directly)",
    "OA3": "lib: api_scope() inlined into WebServer::config", "OA4": "bin: print_error turned into a closure",
    "OB1": "core: Client destructured once, one match for both urgencies", "OB2": "inmemory: key type alias, named key locals",
    "OB3": "sqlite: helper parameter dropped, row tuple -> private struct", "OB4": "add_version: server reference and header value hoisted",
    "OC1": "core: ok_or(..)? -> let-else returning NoSuchClient; nested match in get_snapshot", "OC2": "inmemory: ensure!/bail!, error constructor fn, let-else",
    "OC3": "sqlite: tail expressions, match + ensure! instead of map/transpose", "OC4": "api: ok_or_else, guarded match, error constructor fn",
    "OD1": "sqlite: create_schema() helper", "OD2": "sqlite: named_params! with :name placeholders", "OD3": "sqlite: row mappers as named functions, columns by name",
    "OD4": "sqlite: SQL text consts, client_id_param() helper", "OE1": "add_version: response-building helpers", "OE2": "add_snapshot: content-type and size-check helpers",
    "OE3": "read handlers: builder held in a local, statement by statement", "OE4": "bin/lib: build_server() and header-middleware helpers",
    "OF1": "core: snapshot walk as while loop (De Morgan), match", "OF2": "core: one match in a private for_snapshot()", "OF3": "core: private ParentCheck enum for both operations",
    "OF4": "inmemory: key() helper, match instead of if-let",
    "PA1": "core: one match in a private for_snapshot()", "PA2": "sqlite: helper parameter dropped, row mapper as named method", "PA3": "inmemory: Default, let-else, get_version_by_parent delegates to get_version",
    "PA4": "api: shared read_body(payload, max, msg) helper", "PB1": "api: shared read_body helper (variant)", "PB2": "add_version: plain retry loop, response helper",
    "PB3": "core: for_snapshot() helper (variant)", "PB4": "sqlite: helper parameter dropped, direct returns, three-arm match", "PC1": "inmemory: two bools -> private TxnState enum, Default",
    "PC2": "sqlite: private ClientRow + impl From<ClientRow> for Client", "PC3": "add_version: private extension trait for the header value", "PC4": "bin: impl From<&ServerArgs> for ServerConfig",
    "PD1": "core: single-expression get_child_version, merged matches, match with None first", "PD2": "inmemory: if/else instead of early returns, Drop split", "PD3": "sqlite: hoisted query list, regrouped tuple, inverted check",
    "PD4": "api: missing header first, guarded match, reordered disjoint arms", "PE1": "core: SnapshotUrgency moved to a private module urgency.rs", "PE2": "sqlite: StoredUuid moved to stored_uuid.rs",
    "PE3": "api: header constants and error converters moved to submodules", "PE4": "bin: command()/ServerArgs moved into mod args", "PF1": "sqlite: schema loop as try_for_each over an array; hyphenated().to_string()",
    "PF2": "bin: allow-list built by a loop, map(Clone::clone), try_fold", "PF3": "add_version: loop/match over the stream, hyphenated()/format! header values",
    "PF4": "core: snapshot walk as `for remaining in (0..N).rev()` with a found flag",
    "RA1": "core: get_child_version as one guarded match, let-else in get_snapshot", "RA2": "inmemory: Default, InnerTxn::new constructor, Drop as assert",
    "RA3": "core: misleading locals renamed, id aliases used consistently", "RA4": "core: shared client_txn() prologue returning (txn, client)",
    "RB1": "sqlite: path handling in new(), DB_FILE_NAME constant", "RB2": "sqlite: snapshot_from_columns helper", "RB3": "sqlite: Txn::begin constructor issuing BEGIN IMMEDIATE",
    "RB4": "sqlite: contextualised query result returned directly", "RC1": "handlers: Path parameter named after the id, dereferenced at use", "RC2": "server: web::Data<ServerState> instead of Data<Arc<..>>",
    "RC3": "bin: one small function per clap argument", "RC4": "lib: WebServer::new/config as named lets, NO_CACHING tuple constant", "RD1": "core: accepts_parent predicate + guarded match + snapshot_urgency helper (combined)",
    "RD2": "sqlite: client_from_row fn + direct returns + let-else + parameter dropped (combined)", "RD3": "api: error-mapping fn, header value fn, create_client_if_absent helper (combined)",
    "RD4": "inmemory: key() helper, match, delegation to get_version, let-else (combined)", "RE1": "api: client_id_header as a free fn taking (&ServerState, &HeaderMap)",
    "RE2": "core: urgency classifiers take the scalar threshold instead of &ServerConfig", "RE3": "sqlite: helper returns rusqlite::Result, callers add the context", "RE4": "bin: ServerArgs::new takes &ArgMatches",
    "RF1": "core: 13 tiny everyday touches (derives, inline, trace logs, bail!, a.max(b), as_mut)", "RF2": "sqlite: 13 tiny touches (Self, inlined temps, array, params!, bail!)",
    "RF3": "api/lib: 14 tiny touches (as_ref, debug logs, parentheses, annotations, Arc::clone)", "RF4": "bin: 8 tiny touches (imports, docs, derives, turbofish, debug logs)",
    "TA1": "core: pure is_conflict / classify_missing_child extracted for testability", "TA2": "sqlite: pure db_path / snapshot_from_parts", "TA3": "api: parse_client_id(Option<&HeaderValue>) split from the allow-list check, snapshot_header()",
    "TA4": "bin: pure server_config(&ServerArgs)", "TC1": "inmemory: entry API, single guard deref, #[inline]", "TC2": "core: one urgency match, loop-invariant hoisted out of the walk",
    "TC3": "sqlite: prepare_cached + Statement::query_row inside and_then", "TC4": "api: Vec::from(body), #[inline]/#[cold]", "TD1": "core: map_or_else, [a, b].contains(&x), Some(x).filter(..), map_or with ? in the closure",
    "TD2": "inmemory: ok_or_else/filter chain, and_then, get_mut().ok_or_else", "TD3": "sqlite: zip().zip().map(), then_some().ok_or_else(), direct result chains", "TD4": "api: and_then(..ok()) header chain, is_some_and, then_some(()).ok_or_else",
    "TE1": "core: explicit matches for ok_or/?, if-a>b-else for max, mutable Option instead of map", "TE2": "inmemory: explicit match arms re-wrapping Some(v.clone())", "TE3": "sqlite: explicit no-row arm instead of optional(), Err(e).context(..)",
    "TE4": "api: explicit matches instead of map_err+?, loop/match over the stream", "TF1": "core: add_snapshot split; walk in check_snapshot_version() returning Accept/Decline", "TF2": "core: add_version split into append_version() and snapshot_urgency()",
    "TF3": "add_version handler: read_body() and create_missing_client() helpers", "TF4": "sqlite: initialize(con) and client_from_row() split out",
    "UA1": "core: id aliases used consistently", "UA2": "core: impl From<Version> for GetVersionResult, version.into()", "UA3": "core: generic for_age<T: PartialOrd> shared by both classifiers",
    "UA4": "core: map_or(High, ..) per urgency, a.max(b)", "UB1": "inmemory: let-else, delegation to get_version", "UB2": "inmemory: bail!/ensure! throughout", "UB3": "inmemory: client()/client_mut() accessors",
    "UB4": "inmemory: InnerTxn -> InMemoryTxn, guard -> inner", "UC1": "sqlite: stored_client_id() accessor", "UC2": "sqlite: shortened type paths via imports", "UC3": "sqlite: tail expressions instead of let+Ok",
    "UC4": "sqlite: locals and closure parameters renamed", "UD1": "add_version: create_client_if_absent() helper", "UD2": "add_version: retry-only loop with break value, then map_err+match", "UD3": "api: SharedServerState type alias",
    "UD4": "api: is_client_allowed() predicate method", "UE1": "api: one shared MAX_BODY_SIZE constant", "UE2": "api: SharedServerState alias in handlers", "UE3": "lib: http::header::CACHE_CONTROL constant for the header name",
    "UE4": "lib: compile-time banner string for GET /", "UF1": "bin: ServerArgs::server_config()", "UF2": "bin: remove_one / remove_many instead of get_* + clone", "UF3": "bin: ServerArgs destructured in main",
    "UF4": "bin: generic required::<T>() accessor",
    "WA1": "core: pedantic-lint fixes (Self, const fn, derive Eq, assert!)", "WA2": "sqlite: pedantic-lint fixes (Self, &self for get_version_impl)", "WA3": "api: pub(crate) -> pub in private modules",
    "WA4": "bin: inline format args", "WB1": "api: uuid_header(req, name, bad: fn() -> Error) helper returning Result<Option<Uuid>>", "WB2": "core: HIGH_EXTRA_DIVISOR const + generic for_age",
    "WB3": "add_snapshot: BodyLimit struct with async read()", "WB4": "sqlite: VersionLookup enum selecting the query text", "WC1": "api: error constructor functions",
    "WC2": "api: ApiError newtype with From impls, handlers return Result<_, ApiError>", "WC3": "sqlite: private SqlContext extension trait", "WC4": "api: message literals as private consts",
    "XA1": "api: ResultExt::or_actix() extension trait", "XA2": "api: IntoActixError trait replacing the two mapping functions", "XA3": "add_version: NewClientError enum + ensure_client() using plain `?`",
    "XA4": "api: let-else early returns in client_id_header, match in get_snapshot", "XB1": "core: find_snapshot_version(&mut dyn StorageTxn) -> SnapshotSearch", "XB2": "core: search loop as while !found with an up-counter",
    "XB3": "core: for_thresholds<T> + snapshot_urgency(Option<&Snapshot>)", "XB4": "inmemory: key() helper + let-else flattening", "XC1": "api: check_content_type + async read_body helpers",
    "XC2": "add_version: attempt_add_version() -> Attempt enum", "XC3": "api: local builder variables + header-insertion functions", "XC4": "add_snapshot: BodyBuffer struct with async fill_from / push / into_inner",
    "XD1": "sqlite: schema statements as a const array, VersionKey::select_sql() const fn", "XD2": "sqlite: row mappers as named functions", "XD3": "sqlite: Txn::modify<P: Params>() helper",
    "XD4": "sqlite: initialize()/set_journal_mode()/create_schema(), Txn::begin()", "XE1": "api: constants moved to api/headers.rs", "XE2": "core: SnapshotUrgency moved to snapshot_urgency.rs",
    "XE3": "sqlite: schema set-up moved to schema.rs", "XE4": "lib: index + no-store headers moved to root.rs", "XF1": "core: SnapshotAge trait (one_and_a_half) + generic for_age + map_or",
    "XF2": "api: BodyLimit newtype const + read() with fn-pointer overflow constructor", "XF3": "sqlite: From<StoredUuid> for Uuid, named mappers, zip/then_some", "XF4": "inmemory: derive Default, let-else, matches!, and_then",
    "RYA": "repaired seed: VersionRef(Option<VersionId>) newtype", "RYB": "repaired seed: known() + ParentCheck enum", "RYC": "repaired seed: Write enum + table-driven Txn::write",
    "RYD": "repaired seed: Placement enum with payloads", "RYE": "repaired seed: VersionKey/VersionRow + redundant owned_by filter", "RYE2": "repaired seed: VersionKey/VersionRow",
    "RYF": "repaired seed: Ancestry iterator struct for the snapshot walk", "RYG": "repaired seed: SnapshotAge struct + DaysSince trait", "RYH": "repaired seed: Failure error type implementing ResponseError",
    "RYI": "repaired seed: BodyKind enum, ALL.into_iter().find()", "RYJ": "repaired seed: for_client continuation-passing helper",
    "RZB": "repaired seed: Session { txn, client } + Change enum + conclude()", "RZC": "repaired seed: creating_client(op) retry helper + register_client",
    "RZD": "repaired seed: routes from an ApiPath / endpoint() table instead of the route macros", "RZF": "repaired seed: SNAPSHOT_COLS via format! + positional SnapshotCols",
    "RZG": "repaired seed: ServerConfig::with_* builders + ServerArgs helpers", "RZH": "repaired seed: ParentRequest::run generic retry helper",
    "RVA": "repaired seed: TxnExt blanket extension trait with client() / finish()", "RVB": "repaired seed: Submission / Attempt extracted from the add-version handler",
    "RVF": "repaired seed: Lookup enum as the value of the add_snapshot search loop", "RVG": "repaired seed: SnapshotRequest newtype + MIN_REQUESTED_URGENCY const",
    "RVH": "repaired seed: ProtocolHeader trait, const value table, extension trait on HttpResponseBuilder",
    "MA1": "round 14: get_client(txn) helper for the four operations", "MA2": "round 14: snapshot_is_acceptable() -> Result<bool> split out of add_snapshot", "MA3": "round 14: one match for the add_version urgency", "MA4": "round 14: guard clauses in get_snapshot / get_child_version",
    "MB1": "round 14: bail! / imported anyhow macros", "MB2": "round 14: and_then chain in get_version_by_parent", "MB3": "round 14: client() / client_mut() helpers returning Result", "MB4": "round 14: let-else guard + Version built later in add_version",
    "MC1": "round 14: named row-mapping functions", "MC2": "round 14: const SCHEMA: [&str; 3]", "MC3": "round 14: direct returns / three-arm match in get_snapshot_data", "MC4": "round 14: single-expression StoredUuid conversions, uniform params![]",
    "MD1": "round 14: shared async read_body helper", "MD2": "round 14: TryStreamExt::try_next", "MD3": "round 14: MAX_*_SIZE constants moved to api/mod.rs", "MD4": "round 14: Vec::from(body) once, match tail",
    "ME1": "round 14: client_id_header flattened to combinators (is_some_and)", "ME2": "round 14: parse_client_id_header + check_client_id_allowed helpers", "ME3": "round 14: map_err first, then match in the GET handlers", "ME4": "round 14: failure_to_ise renamed and reused",
    "MF1": "round 14: ServerArgs::server_config + destructuring in main", "MF2": "round 14: try_fold over listen addresses", "MF3": "round 14: CACHE_CONTROL const + default_headers()", "MF4": "round 14: remove_one / remove_many in ServerArgs::new",
    "QA1": "round 11: from_thresholds generic helper", "QA2": "round 11: one match over client.snapshot", "QA3": "round 11: snapshot_version_is_recent() -> Result<bool>", "QA4": "round 11: accepts_parent_version predicate",
    "QB1": "round 11: derive Default for Inner", "QB2": "round 11: and_then chain in get_version_by_parent", "QB3": "round 11: client()/client_mut() helpers", "QB4": "round 11: let-else + bail! guard clauses",
    "QC1": "round 11: SCHEMA_QUERIES const slice", "QC2": "round 11: get_version_impl without client_id parameter", "QC3": "round 11: explicit match in get_snapshot_data", "QC4": "round 11: client_from_row named mapper",
    "QD1": "round 11: shared read_body helper", "QD2": "round 11: combinator chain in client_id_header", "QD3": "round 11: value-producing retry loop", "QD4": "round 11: let-else / map_err first in GET handlers",
    "QE1": "round 11: DEFAULT_CACHE_CONTROL / VERSION constants + default_headers()", "QE2": "round 11: remove_one / remove_many", "QE3": "round 11: try_fold over listen addresses", "QE4": "round 11: ServerArgs::server_config()",
    "QF1": "round 11: one match over client.snapshot", "QF2": "round 11: shared read_body helper", "QF3": "round 11: get_version_impl without client_id parameter", "QF4": "round 11: guard clauses in client_id_header",
    "WD1": "core: junior tidy-up of server.rs", "WD2": "sqlite: junior tidy-up", "WD3": "api: junior tidy-up of handlers", "WD4": "bin: junior tidy-up",
}
for _p in sorted(_glob.glob(_os.path.join(_PD, "*.diff"))):
    _n = _os.path.basename(_p)[:-5]
    neu("patch-" + _n, [("@patch", _p, None)], "independent refactoring: " + _PATCH_NOTES.get(_n, _n))
