#!/usr/bin/env python3
"""seed_keep.py <worktree> <seed-id> <property> <demo-relpath> -- <needs> -- <ran> -- <caught-by>
Stores a confirmed seeded change under /verif/seeded/<seed-id>/ (patch.diff, demo, README, meta.json)."""
import json, os, shutil, sys
wt, sid, prop, demo = sys.argv[1:5]
rest = " ".join(sys.argv[5:]).split(" -- ")  # NB: field texts must not contain " -- "
rest = [r.strip() for r in rest if r.strip()]
needs, ran, caught = (rest + ["", "", ""])[:3]
dst = os.path.join("/verif/seeded", sid)
os.makedirs(dst, exist_ok=True)
shutil.copy(os.path.join(wt, "SEED", "patch.diff"), os.path.join(dst, "patch.diff"))
if os.path.exists(os.path.join(wt, "SEED", "README.md")):
    shutil.copy(os.path.join(wt, "SEED", "README.md"), os.path.join(dst, "README.agent.md"))
shutil.copy(os.path.join(wt, demo), os.path.join(dst, os.path.basename(demo)))
meta = {"id": sid, "breaks_property": prop, "demo_file": os.path.basename(demo), "demo_placement": demo,
        "needs_to_manifest": needs, "what_was_run": ran, "caught_by": caught,
        "base_commit": os.popen("git -C /repo rev-parse --short HEAD").read().strip(),
        "origin": "independent sub-agent given only the property text and a scratch worktree"}
json.dump(meta, open(os.path.join(dst, "meta.json"), "w"), indent=1)
print("kept", dst)
