#!/bin/bash
# usage: seed_run.sh <patch.diff> [props...]   applies the patch to /repo, runs the checks, reverts at once
set -u
P=$1; shift
PROPS=${@:-$(seq -f "C%02g" 1 20)}
git -C /repo apply "$P" || exit 2
for p in $PROPS; do
  out=$(cd /verif && TCSS_EVIDENCE_DIR=/tmp/tcss-seed-ev ./check $p 2>&1)
  code=$?
  echo "$p exit=$code $(echo "$out" | grep -E '^  rule=' | sed 's/ at .*//' | cut -c1-150 | head -3 | tr '\n' '|')"
done
git -C /repo checkout -- . ; git -C /repo status --short | head -3
rm -rf /tmp/tcss-seed-ev
