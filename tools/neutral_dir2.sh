#!/bin/bash
# usage: neutral_dir2.sh <scratch repo dir>  -- both build configurations (thorough tier without the batteries); prints alarms only
D=$1
cd /verif
EV=$(mktemp -d)
for p in $(seq -f "C%02g" 1 20); do
  TCSS_NO_BATTERY=1 TCSS_DEV_CACHE=1 TCSS_REPO=$D TCSS_EVIDENCE_DIR=$EV ./check $p --tier thorough 2>&1 | grep "^  rule=" | cut -c1-200 | sed "s|^|$(basename $(dirname $D)) $p :: |"
done | sort -u | head -20
rm -rf $EV
echo "done $(basename $(dirname $D))"
