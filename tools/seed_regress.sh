#!/bin/bash
# Re-run every kept seeded change against the check of the property it breaks (applies each patch to /repo, runs the
# check, reverts at once).  Every line must show exit=1.  Do not run while another check is running: /repo is edited.
cd /verif
fail=0
for sdir in $(ls seeded); do
  p=$(python3 -c "import json;print(json.load(open('/verif/seeded/$sdir/meta.json'))['breaks_property'])")
  out=$(/verif/tools/seed_run.sh /verif/seeded/$sdir/patch.diff $p 2>&1 | head -1 | cut -c1-140)
  echo "$sdir: $out"
  case "$out" in *"exit=1"*) ;; *) fail=1;; esac
done
exit $fail
