#!/usr/bin/env python3
"""Generate MANIFEST.json from the rule modules (level, trusted base, explanation, assumptions)."""
import importlib
import json
import os
import sys

HERE = os.path.dirname(os.path.abspath(__file__))
VERIF = os.path.dirname(HERE)
sys.path.insert(0, os.path.join(VERIF, "lib"))
sys.path.insert(0, VERIF)

TECH = {
    "C01": "MIR guarded-effect analysis + SQL statement model + who-may-call (inductive invariant obligations)",
    "C02": "MIR guarded-effect product analysis: guard formula over id-equality valuations, argument provenance",
    "C03": "typestate/effect analysis: one exclusive txn per op, check-then-act atomicity, shared-state type scan",
    "C04": "SQL statement model + must-pass-through (commit dominates ack) + pragma allow-table",
    "C05": "Result-consumption dataflow over every Result-valued call + error-to-status map extraction",
    "C06": "provenance (backward slice) of payload bytes through an identity-transport table; typed SQL binds/reads",
    "C07": "SQL verb / map-mutator effect analysis + who-may-call",
    "C08": "exhaustive decision-table comparison of two functions over a finite set of equality atoms",
    "C09": "key-scoping analysis of every SQL statement and map access + client-id provenance",
    "C10": "guarded-effect analysis of the bounded walk + induction-variable trip count",
    "C11": "SQL write-set / read-set model + provenance of (id, bytes) pair + guard on cross-check",
    "C12": "interval x linear-bound abstract interpretation of threshold arithmetic + comparison-chain shape",
    "C13": "sibling cross-check of effect summaries of the two StorageTxn impls + idempotent-DDL rule",
    "C14": "outcome -> response table extraction (path-sensitive builder/mutator log) vs protocol table",
    "C15": "path-sensitive exit classification (4xx constructors before storage) + bounded-append guard + panic-site scan",
    "C16": "dominance of the allow-list test over every storage-reaching call on every registered route + helper decision table",
    "C17": "argument provenance in main + clap option registry agreement",
    "C18": "effect reachability: no write-class call on any path to a read/reject/decline/refusal exit",
    "C19": "on-disk format descriptor extraction and comparison with the pinned release's descriptor",
    "C20": "service-registration registry: every registration inside the no-store-wrapped scope",
}
DESIGN_REF = {p: "DESIGN.md section 6 / %s" % p for p in TECH}


def main():
    checks = []
    for n in range(1, 21):
        pid = "C%02d" % n
        mod = importlib.import_module("rules." + pid)
        checks.append({
            "property_id": pid,
            "quick_cmd": "./check %s --tier quick" % pid,
            "thorough_cmd": "./check %s --tier thorough" % pid,
            "evidence_file": "/verif/evidence/%s.json" % pid,
            "replay_cmd_template": "./check %s --replay {path}" % pid,
            "engine": "tcss-static",
            "level_claimed": {
                "category": mod.LEVEL,
                "text": mod.EXPLANATION + (". Decided statically from the compiler's MIR of /repo's current tree on every run; "
                                          "holds for every input/schedule/history because each obligation is a statement about all paths of the program."),
                "design_ref": DESIGN_REF[pid],
            },
            "level_note": "Trusted base: " + "; ".join(getattr(mod, "TRUSTED", [])) +
                          (". Not decided: " + "; ".join(getattr(mod, "ASSUMPTIONS", [])) if getattr(mod, "ASSUMPTIONS", None) else ""),
            "technique": "static analysis: " + TECH[pid],
        })
    man = {
        "version": 1,
        "setup_cmd": "python3 lib/tcss/extract.py dev rel",
        "hooks": {
            "guard": "--cfg gothenburgbitfactory_taskchampion_sync_server_verif",
            "enable": "none needed: the checks analyse /repo as it is (no instrumentation); the guard name is reserved and unused",
            "baseline_off_cmd": "cd /repo && cargo test --workspace --no-fail-fast --offline",
            "source_commits": [],
            "add_only": True,
        },
        "engines": [
            {"name": "tcss-facts", "path": "driver/", "serves_properties": sorted(TECH),
             "kind_free_text": "rustc_private driver (nightly) run as RUSTC_WORKSPACE_WRAPPER under cargo check; dumps mir_built MIR with resolved callees, field names, constants, spans as JSON facts"},
            {"name": "tcss-static", "path": "lib/tcss/ + rules/ + check", "serves_properties": sorted(TECH),
             "kind_free_text": "python3 (stdlib only): provenance, guarded-effect product analysis, SQL statement model, effect summaries, interval/linear-bound abstract interpretation, Result-consumption; one rule module per property"},
            {"name": "selftest", "path": "tools/", "serves_properties": sorted(TECH),
             "kind_free_text": "checker-sensitivity battery (scripted semantic mutants in scratch copies) and neutrality battery (behaviour-preserving edits); run by the thorough tier and ./selftest"},
        ],
        "checks": checks,
        "notes": "Two genuine defects were found and repaired in /repo with fix: commits 0cc2468 (D1) and fc3b3a7 (D2); see known_findings.json and DESIGN.md section 7.",
        "not_applicable": [],
    }
    with open(os.path.join(VERIF, "MANIFEST.json"), "w") as fh:
        json.dump(man, fh, indent=1)
    print("MANIFEST.json written: %d checks" % len(checks))


if __name__ == "__main__":
    main()
