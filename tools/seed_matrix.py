#!/usr/bin/env python3
"""seed_matrix.py [out.json] -- developer audit: every kept seeded change against ALL 20 checks (scratch copies of a pristine
tree; /repo is not touched).  Prints, per seed, the checks that report it; used to find properties whose check does not
compose an obligation its argument relies on (a change that breaks P but is reported only by Q's check)."""
import json, os, shutil, subprocess, sys, tempfile
from concurrent.futures import ThreadPoolExecutor
SRC = os.environ.get("TCSS_REPO_SRC", "/repo")
PROPS = ["C%02d" % i for i in range(1, 21)]
def one(sid):
    d = tempfile.mkdtemp(prefix="mx-")
    try:
        dst = os.path.join(d, "repo")
        shutil.copytree(SRC, dst, ignore=shutil.ignore_patterns("target", ".git"))
        r = subprocess.run(["git", "apply", os.path.join("/verif/seeded", sid, "patch.diff")], cwd=dst, capture_output=True, text=True)
        if r.returncode:
            return sid, {"error": r.stderr[-300:]}
        out = {}
        for p in PROPS:
            ev = os.path.join(d, "ev"); os.makedirs(ev, exist_ok=True)
            env = dict(os.environ, TCSS_REPO=dst, TCSS_EVIDENCE_DIR=ev, TCSS_NO_BATTERY="1", TCSS_DEV_CACHE="1")
            r = subprocess.run(["/verif/check", p], env=env, capture_output=True, text=True)
            rules = sorted({l.split("rule=")[1].split()[0] for l in r.stdout.splitlines() if l.startswith("  rule=")})
            if r.returncode:
                out[p] = rules or ["?"]
        return sid, out
    finally:
        shutil.rmtree(d, ignore_errors=True)
def main():
    seeds = sorted(os.listdir("/verif/seeded"))
    res = {}
    with ThreadPoolExecutor(int(os.environ.get("TCSS_JOBS", "8"))) as ex:
        for sid, out in ex.map(one, seeds):
            res[sid] = out
            tgt = json.load(open("/verif/seeded/%s/meta.json" % sid))["breaks_property"]
            print("%-55s target=%s reported-by: %s" % (sid, tgt, " ".join(sorted(out))), flush=True)
    if len(sys.argv) > 1:
        json.dump(res, open(sys.argv[1], "w"), indent=1)
main()
