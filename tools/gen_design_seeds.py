#!/usr/bin/env python3
"""Fill the SEED* placeholders / regenerate section 12 of DESIGN.md from seeded/*/meta.json."""
import glob, json, os, re
VERIF = os.path.dirname(os.path.dirname(os.path.abspath(__file__)))
p = os.path.join(VERIF, "DESIGN.md")
s = open(p).read()
metas = [json.load(open(f)) for f in sorted(glob.glob(os.path.join(VERIF, "seeded", "*", "meta.json")))]
missed = [m for m in metas if "MISSED" in m["caught_by"]]
rows = ["Every change below (i) compiles, (ii) passes the 65 baseline tests unedited, (iii) has a demonstration (kept beside the patch) that fails",
        "with the change and passes without it -- all three confirmed by me with `tools/seed_verify.sh` in the agent's scratch worktree --",
        "and was then applied to `/repo` (`tools/seed_run.sh`: `git apply`, run the checks, `git checkout -- .`). None is committed in `/repo`.",
        "",
        "%d changes kept: **%d reported at once by the check of the property they target, %d missed at first** (marked MISSED; each led to a new or" % (len(metas), len(metas) - len(missed), len(missed)),
        "extended rule, after which it is reported).", "",
        "| seeded change | breaks | what it needs to manifest | reported by |", "|---|---|---|---|"]
for m in metas:
    rows.append("| `%s` | %s | %s | %s |" % (m["id"], m["breaks_property"], m["needs_to_manifest"].replace("|", "/"), m["caught_by"].replace("|", "/")))
table = "\n".join(rows)
if "SEEDTABLE" in s:
    s = s.replace("SEEDTABLE", "<!-- seeds:begin -->\n" + table + "\n<!-- seeds:end -->")
else:
    s = re.sub(r"<!-- seeds:begin -->.*<!-- seeds:end -->", lambda _: "<!-- seeds:begin -->\n" + table + "\n<!-- seeds:end -->", s, flags=re.S)
st = ("<!-- seedstat -->%d independently produced breaking changes are kept under\n> `seeded/` (section 12): %d were reported at once by the check of the property they target, %d were missed at first and\n"
      "> led to new or extended rules (see section 12 for which).<!-- /seedstat -->" % (len(metas), len(metas) - len(missed), len(missed)))
if "SEEDCOUNT" in s:
    a = s.index("SEEDCOUNT independently")
    b = s.index("(see section 12 for which).") + len("(see section 12 for which).")
    s = s[:a] + st + s[b:]
else:
    s = re.sub(r"<!-- seedstat -->.*<!-- /seedstat -->", lambda _: st, s, flags=re.S)
open(p, "w").write(s)
print("DESIGN.md: %d seeds, %d missed at first" % (len(metas), len(missed)))
