#!/bin/bash
# usage: neutral_patch.sh <patch.diff>   -- applies a (supposedly behaviour-preserving) patch to a scratch copy of /repo
# and runs all 20 checks against the copy; prints only the checks that raise an alarm.
P=$(readlink -f "$1")
cd /verif
python3 tools/mutcheck.py --patch "$P" $(seq -f "C%02g" 1 20) 2>&1 | awk '/^== /{cur=$0} /^  rule=/{print cur " :: " substr($0,1,230)}' | sort -u | head -40
echo "done: $1"
