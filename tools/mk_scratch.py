#!/usr/bin/env python3
"""mk_scratch.py (neutral|mutant) <id> <dir>: materialise a scripted edit as a scratch copy of /repo (for debugging)."""
import os, shutil, sys
HERE = os.path.dirname(os.path.abspath(__file__))
sys.path.insert(0, HERE)
import mutcheck
kind, eid, dst = sys.argv[1:4]
if kind == "neutral":
    import neutral
    edits = neutral.NEUTRAL[eid]["edits"]
else:
    import mutants
    edits = mutants.MUTANTS[eid]["edits"]
if os.path.exists(dst):
    shutil.rmtree(dst)
shutil.copytree(mutcheck.REPO, dst, ignore=shutil.ignore_patterns("target", ".git"))
print(mutcheck.apply_edits(dst, edits) or "ok")
