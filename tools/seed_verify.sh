#!/bin/bash
# usage: seed_verify.sh <worktree> <cargo test args for the demo...>
# Confirms a seeded change independently: (1) existing suite passes with the change, (2) the demo fails with it,
# (3) the demo passes without it. The worktree is left with the change applied.
set -u
WT=$1; shift
cd "$WT" || exit 2
export CARGO_TARGET_DIR=$WT/target
git apply --check -R SEED/patch.diff 2>/dev/null || { echo "patch is not applied in the worktree; applying"; git apply SEED/patch.diff || exit 2; }
echo "== (1) existing suite with the change"
cargo test --workspace --offline --no-fail-fast 2>&1 | grep -E "^test result|FAILED|panicked" | grep -v "^test result: ok. 0 passed" | head -40
echo "== (2) demo with the change (expect failure)"
cargo test --offline "$@" 2>&1 | grep -E "^test |^test result" | head -40
git apply -R SEED/patch.diff || exit 2
echo "== (3) demo without the change (expect pass)"
cargo test --offline "$@" 2>&1 | grep -E "^test |^test result" | head -40
git apply SEED/patch.diff
