#!/bin/bash
# usage: neutral_dir.sh <scratch repo dir> [props...]  -- run checks against an existing scratch copy; print alarms only
D=$1; shift
PROPS=${@:-$(seq -f "C%02g" 1 20)}
cd /verif
EV=$(mktemp -d)
for p in $PROPS; do
  TCSS_REPO=$D TCSS_EVIDENCE_DIR=$EV ./check $p 2>&1 | grep "^  rule=" | cut -c1-260 | sed "s/^/$p :: /"
done | sort -u | head -${HEAD:-30}
rm -rf $EV
