#!/usr/bin/env python3
"""Checker self-validation, both directions.

  sensitivity: each scripted semantic mutant (tools/mutants.py) is applied to a scratch copy of /repo's
               current tree and must be REPORTED by the check of every property it is listed for
               (a report naming the expected rule).
  neutrality:  each behaviour-preserving edit (tools/neutral.py) must leave every listed check SILENT.

Scratch copies live under the system temp dir (outside /repo and /verif) and are removed at once.
usage: battery.py sensitivity [PROP ...] | neutrality [PROP ...] | all      (--json for machine output)
"""
import json
import os
import shutil
import subprocess
import sys
import tempfile

HERE = os.path.dirname(os.path.abspath(__file__))
VERIF = os.path.dirname(HERE)
sys.path.insert(0, HERE)
import mutcheck  # noqa: E402


def run_edit(edits, props, tier="quick"):
    d, dst = mutcheck.scratch_copy()
    try:
        why = mutcheck.apply_edits(dst, edits)
        if why:
            return {"status": "skipped", "why": why}
        res = mutcheck.run_checks(dst, props, tier)
    finally:
        shutil.rmtree(d, ignore_errors=True)
    out = {"status": "ran", "props": {}}
    for p, (code, text) in res.items():
        rules = []
        for ln in text.splitlines():
            ln = ln.strip()
            if ln.startswith("rule="):
                rules.append(ln.split()[0][5:] + " " + ln.split("instance=")[1].split(" at ")[0][:120] if "instance=" in ln else ln)
        out["props"][p] = {"exit": code, "rules": rules, "infra": any(r.startswith("INFRA") for r in rules)}
    return out


def sensitivity(props=None, verbose=True):
    import mutants
    results = []
    for mid, mt in mutants.MUTANTS.items():
        ps = [p for p in mt["props"] if props is None or p in props]
        if not ps:
            continue
        r = run_edit(mt["edits"], ps)
        rec = {"mutant": mid, "note": mt["note"], "expect": mt["expect"]}
        if r["status"] == "skipped":
            rec.update(result="skipped", why=r["why"])
        else:
            per = {}
            for p, pr in r["props"].items():
                if pr["infra"]:
                    per[p] = "does-not-build"
                elif pr["exit"] == 1 and any(mt["expect"] in ru for ru in pr["rules"]):
                    per[p] = "detected"
                elif pr["exit"] == 1:
                    per[p] = "detected-by-other-rule"
                else:
                    per[p] = "MISSED"
            rec.update(result=per, rules={p: pr["rules"][:3] for p, pr in r["props"].items()})
        results.append(rec)
        if verbose:
            print("%-34s %s" % (mid, rec["result"]), flush=True)
    return results


JOBS = int(os.environ.get("TCSS_JOBS", "6"))


def neutrality(props=None, verbose=True, sample=None):
    """Items run JOBS at a time (each on its own scratch copy; fact extraction is serialised by the extractor's lock, the
    checks themselves overlap)."""
    import neutral
    from concurrent.futures import ThreadPoolExecutor
    allp = ["C%02d" % i for i in range(1, 21)]
    todo = []
    for nid, nt in neutral.NEUTRAL.items():
        ps = [p for p in (nt.get("props") or allp) if props is None or p in props]
        if ps:
            todo.append((nid, nt, ps))
    if sample is not None:
        # thorough tier of one property: all scripted edits plus a seeded sample of the independent patches (the full set is
        # `tools/battery.py neutrality`); keeps a cold thorough run within minutes
        import random
        seed, n = sample
        scripted = [x for x in todo if not x[0].startswith("patch-")]
        patches = [x for x in todo if x[0].startswith("patch-")]
        rnd = random.Random(seed)
        todo = scripted + sorted(rnd.sample(patches, min(n, len(patches))), key=lambda x: x[0])

    def one(item):
        nid, nt, ps = item
        r = run_edit(nt["edits"], ps)
        rec = {"edit": nid, "note": nt["note"]}
        if r["status"] == "skipped":
            rec.update(result="skipped", why=r["why"])
        else:
            alarms = {p: pr["rules"][:3] for p, pr in r["props"].items() if pr["exit"] != 0}
            rec.update(result="silent" if not alarms else "FALSE-ALARM", alarms=alarms)
        if verbose:
            print("%-34s %s %s" % (nid, rec["result"], rec.get("alarms") or rec.get("why") or ""), flush=True)
        return rec
    with ThreadPoolExecutor(max_workers=max(1, JOBS)) as ex:
        return list(ex.map(one, todo))


if __name__ == "__main__":
    args = [a for a in sys.argv[1:] if not a.startswith("--")]
    mode = args[0] if args else "all"
    props = args[1:] or None
    out = {}
    if mode in ("sensitivity", "all"):
        out["sensitivity"] = sensitivity(props)
    if mode in ("neutrality", "all"):
        out["neutrality"] = neutrality(props)
    if "--json" in sys.argv:
        print(json.dumps(out, indent=1))
    bad = [r for r in out.get("sensitivity", []) if isinstance(r["result"], dict) and "MISSED" in r["result"].values()]
    fa = [r for r in out.get("neutrality", []) if r["result"] == "FALSE-ALARM"]
    print("sensitivity: %d mutants, %d missed; neutrality: %d edits, %d false alarms" % (
        len(out.get("sensitivity", [])), len(bad), len(out.get("neutrality", [])), len(fa)))
    sys.exit(1 if bad or fa else 0)
