#!/usr/bin/env python3
"""Checker-sensitivity helper: apply one scripted semantic mutant to a scratch copy of /repo's
current tree (outside /repo and /verif), run the given checks against the copy, delete the copy.

usage: mutcheck.py <mutant-id> [prop ...]      (mutants are defined in tools/mutants.py)
       mutcheck.py --patch <file.diff> prop ...
"""
import os
import shutil
import subprocess
import sys
import tempfile

HERE = os.path.dirname(os.path.abspath(__file__))
VERIF = os.path.dirname(HERE)
sys.path.insert(0, HERE)
REPO = os.environ.get("TCSS_REPO_SRC", "/repo")


def scratch_copy():
    d = tempfile.mkdtemp(prefix="tcss-mut-")
    dst = os.path.join(d, "repo")
    shutil.copytree(REPO, dst, ignore=shutil.ignore_patterns("target", ".git"))
    return d, dst


def apply_edits(dst, edits):
    """edits: [(relpath, old, new)] -- each `old` must occur exactly once. Returns None or reason."""
    for rel, old, new in edits:
        if rel == "@patch":      # a unified diff (relative to the repository root), e.g. an independently written refactoring
            r = subprocess.run(["patch", "-p1", "-s", "--no-backup-if-mismatch", "-i", old], cwd=dst, capture_output=True, text=True)
            if r.returncode != 0:
                return "patch %s does not apply: %s" % (os.path.basename(old), (r.stdout + r.stderr)[:200])
            continue
        p = os.path.join(dst, rel)
        if not os.path.exists(p):
            return "file missing: " + rel
        s = open(p).read()
        if isinstance(old, tuple) and old[0] == "all":      # rename-style edit: every occurrence (at least one)
            import re as _re
            pat_ = _re.compile(r"(?<![A-Za-z0-9_])" + _re.escape(old[1]) + r"(?![A-Za-z0-9_])")   # whole identifiers / dotted paths
            if not pat_.search(s):
                return "identifier %s does not occur in %s" % (old[1], rel)
            open(p, "w").write(pat_.sub(new, s))
            continue
        if s.count(old) != 1:
            return "anchor text occurs %d times in %s" % (s.count(old), rel)
        open(p, "w").write(s.replace(old, new))
    return None


def run_checks(dst, props, tier="quick"):
    evd = tempfile.mkdtemp(prefix="tcss-ev-")
    res = {}
    try:
        for p in props:
            env = dict(os.environ, TCSS_REPO=dst, TCSS_EVIDENCE_DIR=evd)
            r = subprocess.run([os.path.join(VERIF, "check"), p, "--tier", tier], capture_output=True, text=True, env=env)
            res[p] = (r.returncode, r.stdout + r.stderr)
    finally:
        shutil.rmtree(evd, ignore_errors=True)
    return res


def main():
    args = sys.argv[1:]
    if args[0] == "--patch":
        patch, props = args[1], args[2:]
        d, dst = scratch_copy()
        try:
            r = subprocess.run(["patch", "-p1", "-s", "-i", os.path.abspath(patch)], cwd=dst, capture_output=True, text=True)
            if r.returncode != 0:
                print("patch failed:", r.stdout, r.stderr)
                sys.exit(2)
            res = run_checks(dst, props)
        finally:
            shutil.rmtree(d, ignore_errors=True)
    else:
        import mutants
        mid, props = args[0], args[1:]
        mt = mutants.MUTANTS[mid]
        props = props or mt["props"]
        d, dst = scratch_copy()
        try:
            why = apply_edits(dst, mt["edits"])
            if why:
                print("SKIP", mid, why)
                sys.exit(3)
            res = run_checks(dst, props)
        finally:
            shutil.rmtree(d, ignore_errors=True)
    bad = 0
    for p, (code, out) in res.items():
        print("== %s exit=%d" % (p, code))
        print("\n".join(l for l in out.splitlines() if l.strip())[:3000])
    sys.exit(0)


if __name__ == "__main__":
    main()
