"""C15 - malformed or oversized requests are refused with 4xx and change nothing."""
from rules import http as H
from rules import shared as S
LEVEL = "other"
TRUSTED = ["TB-rustc", "TB-actix (typed extractors refuse malformed ids with 4xx; PayloadError is a 4xx ResponseError; unknown routes)"]
EXPLANATION = ("every pre-storage refusal is a 4xx constructor and precedes any storage access; bounded body accumulation (strict > MAX checked "
               "before each append, same limit in both handlers); typed path ids; panic-free request parsing")


def run(rep, W, ctx):
    H.c15_refuse(rep, W)
    H.c15_bound(rep, W)
    H.c15_typed(rep, W)
    H.c15_nopanic(rep, W)
    H.route_params_plain(rep, W)
    # a malformed X-Client-Id must be REFUSED, not replaced: the id the handlers act on is the parsed header value and nothing
    # else (a header helper that turns a parse failure into a default id accepts a malformed request)
    S.s_clientid(rep, W)
    # "Bodies up to and including the limit are accepted": nothing below the HTTP layer turns a valid request away either
    S.s_failmodes(rep, W)
