"""Shared obligation catalogue (DESIGN.md section 5).  Every function takes (rep, W) and records
obligation instances keyed (rule, function, site descriptor) -- never by line number."""
from tcss import gea as G
from tcss import pat
from tcss import prov as P
from tcss import world as WD
from tcss.pat import ANY, V, call, m
from tcss.report import where

FROM_RESIDUAL = "core::ops::try_trait::FromResidual::from_residual"


# --------------------------------------------------------------------------- helpers
def short_fn(body):
    d = body.deff
    d = d.replace("taskchampion_sync_server_core::", "core::").replace("taskchampion_sync_server_storage_sqlite::", "sqlite::")
    d = d.replace("taskchampion_sync_server::", "server::").replace("actix_web::service::HttpServiceFactory", "HttpServiceFactory")
    return d


def sites_of(body, decl):
    return [(bb, t) for bb, t in body.calls() if t["callee"].get("def") == decl]


def ordinal_key(body, decl, bb):
    """callee#k : ordinal of the call among same-callee sites of the function (in block order)."""
    bbs = [b for b, _ in sites_of(body, decl)]
    return "%s#%d" % (decl.split("::")[-1], bbs.index(bb) if bb in bbs else -1)


ERR_KEEPING = {"anyhow::Context::context", "anyhow::Context::with_context", "core::result::Result::<T, E>::map_err"}


def is_error_exit(term):
    """Exit value built by error propagation or an explicit Err(..)."""
    if term[0] == "call" and term[1] == FROM_RESIDUAL:
        return True
    if term[0] == "agg" and isinstance(term[1], tuple) and term[1][0] == "adt" and term[1][2] == "Err":
        return True
    # `Err(e).context("..")` / `.map_err(..)` applied to a value that is an error already
    if term[0] == "call" and term[1] in ERR_KEEPING and term[3]:
        return is_error_exit(term[3][0])
    return False


def exits(W, body):
    """[(site, term)] for each definition of the return value.  A return place that is merely a copy of a local with
    several definitions (`let r = if .. {Ok(a)} else {Err(b)}; r`, or the result of a spliced helper returned as is)
    is expanded to the definitions of that local, so that each way of producing the result is one exit."""
    pv = W.prov(body)
    out, seen = [], set()

    def expand(l):
        for d in pv.defsites.get(l, []):
            node = pv.node_at(d)
            if d[1] != "T" and node["rv"]["k"] == "use" and node["rv"]["op"]["k"] in ("copy", "move") and not node["rv"]["op"]["p"]["proj"]:
                src = node["rv"]["op"]["p"]["l"]
                hops = 0
                while src not in pv.phi_locals and src > body.arg_count and len(pv.defsites.get(src, [])) == 1 and hops < 6:
                    # a chain of plain moves (`_0 = move _36; _36 = move _37`) down to the local that is defined on several paths
                    d2 = pv.defsites[src][0]
                    n2 = pv.node_at(d2)
                    if d2[1] != "T" and n2["rv"]["k"] == "use" and n2["rv"]["op"]["k"] in ("copy", "move") and not n2["rv"]["op"]["p"]["proj"]:
                        src = n2["rv"]["op"]["p"]["l"]
                        hops += 1
                    else:
                        break
                if src in pv.phi_locals and src > body.arg_count and src not in seen and src not in pv.mutborrow and src not in pv.partial:
                    seen.add(src)
                    expand(src)
                    continue
            out.append((d, pv.def_term(d)))
    expand(0)
    return out


def exit_line(body, site):
    pv_node = body.blocks[site[0]]["term"] if site[1] == "T" else body.blocks[site[0]]["stmts"][site[1]]
    return pv_node["span"]["line"]


def unmut(t):
    while isinstance(t, tuple) and t and t[0] == "mut":
        t = t[3]
    return t


def txn_term_of(W, body):
    """The provenance term of the single transaction opened by `body` (ok payload of its txn call)."""
    pv = W.prov(body)
    out = []
    for decl in (WD.T_TXN, WD.SERVER_TXN):
        for bb, t in sites_of(body, decl):
            out.append((bb, decl, ("ok", pv.def_term((bb, "T")))))
    return out


def variant_atom(term):
    return ("VARIANT", P.strip_ok_preserving(term))


def all_vals(gea, site, formula):
    """True iff the 3-valued formula evaluates to True under every valuation reaching `site`."""
    vs = gea.vals_at(site)
    return bool(vs) and all(G.ev(formula, v) is True for v in vs)


def formula_atoms(f):
    if f is True or f is False:
        return set()
    if f[0] == "is":
        return {f[1]}
    out = set()
    for x in f[1:]:
        out |= formula_atoms(x)
    return out


def failing_vals(gea, site, formula):
    atoms = formula_atoms(formula)
    return [G.show_val({k: v for k, v in val.items() if k in atoms}) for val in gea.vals_at(site) if G.ev(formula, val) is not True]


# --------------------------------------------------------------------------- S-TXN1
def s_txn1(rep, W, body, opener=WD.T_TXN, rule="S-TXN1", nested_check=True):
    """One transaction per protocol operation; every StorageTxn call is on that transaction."""
    fn = short_fn(body)
    pv = W.prov(body)
    opens = sites_of(body, opener)
    ok = rep.ob(rule, (fn, "single-txn"), len(opens) == 1,
                "%s opens %d transaction(s) via %s; exactly one required" % (fn, len(opens), opener.split("::")[-1]),
                where(body), sample={"txn_sites": [body.line_of_block(b) for b, _ in opens]})
    if not ok:
        return None
    bb0, t0 = opens[0]
    args = pv.arg_terms(bb0)
    # the client id the transaction is opened for is the operation's own client-id parameter / header value
    txn = ("ok", pv.def_term((bb0, "T")))
    n = 0
    for bb, t in body.calls():
        d = t["callee"].get("def", "")
        if not d.startswith(WD.STORAGE_TXN + "::"):
            continue
        n += 1
        recv = unmut(pv.arg_terms(bb)[0])      # `txn.as_mut()` handed to a helper makes the local a &mut-borrowed one: same value
        rep.ob(rule, (fn, "recv", ordinal_key(body, d, bb)), recv == unmut(txn),
               "receiver of %s is %s; must be the operation's single transaction %s" % (d.split("::")[-1], P.show(recv), P.show(txn)),
               where(body, bb))
    if not nested_check:
        return {"bb": bb0, "txn": txn, "args": args, "n_trait_calls": n}
    # no second way to reach a transaction: nothing reachable from here (other than the opener itself) opens one
    reach = W.reachable_from(body.key, skip_edges={(body.key, bb0)})
    reach.discard(body.key)
    bad = []
    for k in reach:
        b2 = W.prog.bodies[k]
        if sites_of(b2, WD.T_TXN) or sites_of(b2, WD.SERVER_TXN) or b2.j.get("impl_trait") == WD.STORAGE and b2.deff.endswith("::txn"):
            bad.append(b2.deff)
    rep.ob(rule, (fn, "no-nested-txn"), not bad,
           "functions reachable from %s that open another transaction: %s" % (fn, bad or "none"), where(body))
    return {"bb": bb0, "txn": txn, "args": args, "n_trait_calls": n}


# --------------------------------------------------------------------------- S-TXN3 / S-ACK
def s_txn3(rep, W, body, rule="S-TXN3"):
    """After a write-class call, every non-error continuation passes the success edge of commit;
    nothing is written after commit; at most one commit per transaction."""
    fn = short_fn(body)
    g = W.gea(body)
    pv = W.prov(body)
    writes = [(bb, t) for m_ in WD.WRITE_METHODS for bb, t in sites_of(body, WD.tm(m_))]
    commits = sites_of(body, WD.tm(WD.COMMIT_METHOD))
    ex = exits(W, body)
    success_exit_blocks = {}
    for site, term in ex:
        if not is_error_exit(term):
            success_exit_blocks.setdefault(site[0], []).append((site, term))
    res = {"writes": len(writes), "commits": len(commits)}
    for bb, t in writes:
        d = t["callee"]["def"]
        recv = pv.arg_terms(bb)[0]
        catoms = [variant_atom(pv.def_term((cb, "T"))) for cb, _ in commits if pv.arg_terms(cb)[0] == recv]
        # forward from the write without passing a commit-success state
        starts = set()
        for s in g.states_at_block(bb):
            starts |= g.edges.get(s, set())
        seen = set()
        st = [s for s in starts]
        offending = None
        while st and offending is None:
            x = st.pop()
            if x in seen:
                continue
            seen.add(x)
            val = dict(x[1])
            if any(val.get(a) == frozenset(["ok"]) for a in catoms):
                continue
            if x[0] in success_exit_blocks:
                offending = x
                break
            for y in g.edges.get(x, ()):
                st.append(y)
        rep.ob(rule, (fn, "commit-after", ordinal_key(body, d, bb)), offending is None,
               ("every non-error exit after %s passes the success edge of commit" % d.split("::")[-1]) if offending is None else
               ("a non-error return (line %d) is reachable after %s without a successful commit on the same transaction"
                % (exit_line(body, success_exit_blocks[offending[0]][0][0]), d.split("::")[-1])),
               where(body, bb))
    for cb, ct in commits:
        recv = pv.arg_terms(cb)[0]
        opener_bbs = P.call_sites(recv)
        starts = set()
        for s in g.states_at_block(cb):
            starts |= g.edges.get(s, set())
        seen = set()
        st = list(starts)
        later = []
        while st:
            x = st.pop()
            if x in seen:
                continue
            seen.add(x)
            if x[0] in opener_bbs:
                continue  # a new transaction instance begins here
            tt = body.blocks[x[0]]["term"]
            if tt["k"] == "call":
                d2 = tt["callee"].get("def", "")
                if d2.startswith(WD.STORAGE_TXN + "::") and d2.split("::")[-1] in WD.WRITE_METHODS + (WD.COMMIT_METHOD,):
                    if pv.arg_terms(x[0])[0] == recv:
                        later.append(d2.split("::")[-1])
            for y in g.edges.get(x, ()):
                st.append(y)
        rep.ob(rule, (fn, "nothing-after-commit", ordinal_key(body, WD.tm("commit"), cb)), not later,
               "calls on the same transaction after commit: %s" % (sorted(set(later)) or "none"), where(body, cb))
    return res


def s_ack_handler(rep, W, module, opname, rule="S-ACK"):
    """In a write handler every 2xx response constructor is reached only under the Ok outcome of the Op."""
    body = W.handler(module)
    fn = short_fn(body)
    g = W.gea(body)
    pv = W.prov(body)
    ops = sites_of(body, WD.op(opname))
    if len(ops) != 1:
        rep.fail(rule, (fn, "op-call"), "expected exactly one call of Server::%s, found %d" % (opname, len(ops)), where(body))
        return
    opbb = ops[0][0]
    atom = variant_atom(pv.def_term((opbb, "T")))
    n = 0
    for bb, t in body.calls():
        d = t["callee"].get("def", "")
        if d in STATUS_CTORS and 200 <= STATUS_CTORS[d] < 300:
            n += 1
            f = ("is", atom, "ok")
            rep.ob(rule, (fn, ordinal_key(body, d, bb)), all_vals(g, (bb, "T"), f),
                   "2xx response constructor %s is built only after Server::%s returned Ok; offending valuations: %s"
                   % (d.split("::")[-1], opname, failing_vals(g, (bb, "T"), f)[:2]), where(body, bb))
    rep.floor(rule, fn + " 2xx constructors", n, 1, where(body))


# actix constructor -> status (TB-actix)
STATUS_CTORS = {
    "actix_web::response::http_codes::<impl actix_web::response::response::HttpResponse>::Ok": 200,
    "actix_web::response::http_codes::<impl actix_web::response::response::HttpResponse>::Conflict": 409,
    "actix_web::error::internal::ErrorBadRequest": 400,
    "actix_web::error::internal::ErrorForbidden": 403,
    "actix_web::error::internal::ErrorNotFound": 404,
    "actix_web::error::internal::ErrorGone": 410,
    "actix_web::error::internal::ErrorInternalServerError": 500,
}


# --------------------------------------------------------------------------- S-WMC
# who may call the write-class / commit methods and Server::txn (non-test workspace code)
WMC_TABLE = {
    WD.tm("add_version"): {WD.op("add_version"): "the AddVersion operation is the only appender"},
    WD.tm("set_snapshot"): {WD.op("add_snapshot"): "the AddSnapshot operation is the only snapshot writer"},
    WD.tm("new_client"): {
        "<taskchampion_sync_server::api::add_version::service as actix_web::service::HttpServiceFactory>::register::service::{closure#0}":
            "client auto-creation on first AddVersion (NoSuchClient arm)"},
    WD.tm("commit"): {
        WD.op("add_version"): "commit of the append",
        WD.op("add_snapshot"): "commit of the snapshot",
        "<taskchampion_sync_server::api::add_version::service as actix_web::service::HttpServiceFactory>::register::service::{closure#0}":
            "commit of client auto-creation"},
    WD.SERVER_TXN: {
        "<taskchampion_sync_server::api::add_version::service as actix_web::service::HttpServiceFactory>::register::service::{closure#0}":
            "transaction for client auto-creation"},
}


def s_wmc(rep, W, rule="S-WMC", only=None):
    for decl, allowed in WMC_TABLE.items():
        if only and decl not in only:
            continue
        callers = W.callers_of_decl(decl)
        short = decl.split("::")[-1] if decl != WD.SERVER_TXN else "Server::txn"
        seen = {}
        for b, bb, t in callers:
            seen.setdefault(b.deff, []).append(bb)
        for caller, bbs in sorted(seen.items()):
            okc = caller in allowed
            rep.ob(rule, (short, "caller", short_fn(W.prog.bodies.get(caller) or W.prog.bodies.get("bin:" + caller))), okc and len(bbs) == 1,
                   ("%s calls %s (%d site(s)): %s" % (caller, short, len(bbs), allowed.get(caller, "NOT in the who-may-call table"))),
                   "%s" % caller)
        for caller in allowed:
            rep.ob(rule, (short, "present", caller.split("::register")[0][-60:]), caller in seen,
                   "expected call site of %s in %s %s" % (short, caller, "found" if caller in seen else "is missing (anchor lost)"),
                   nontrivial=False)
    # function items of write-class methods must not escape as values (fn pointers / closures args)
    esc = []
    targets = set()
    for mth in WD.WRITE_METHODS + (WD.COMMIT_METHOD,):
        targets.add(WD.tm(mth))
        for backend in ("inmemory", "sqlite"):
            try:
                targets.add(W.impl_method(backend, mth).deff)
            except WD.Anchor:
                pass
    for b in W.prog.bodies.values():
        for blk in b.blocks:
            if blk["cleanup"]:
                continue
            ops = []
            for s in blk["stmts"]:
                if s["k"] == "assign":
                    ops += _ops_of_rv(s["rv"])
            if blk["term"]["k"] == "call":
                ops += blk["term"]["args"]
            for o in ops:
                if o.get("k") == "const" and o.get("fn") in targets:
                    esc.append((b.deff, o["fn"]))
    rep.ob(rule, ("write-methods", "no-fn-value-escape"), not esc,
           "write-class storage methods used as function values (would bypass the call-site table): %s" % (esc or "none"))


def _ops_of_rv(rv):
    k = rv["k"]
    if k in ("use", "cast", "repeat") and "op" in rv:
        return [rv["op"]]
    if k == "aggregate":
        return list(rv["ops"])
    if k == "binop":
        return [rv["a"], rv["b"]]
    if k == "unop":
        return [rv["a"]]
    return []


# --------------------------------------------------------------------------- client term of an Op
def client_term(W, body, txn):
    """ok(ok(get_client(txn))): the Client record read through the operation's transaction."""
    pv = W.prov(body)
    gcs = sites_of(body, WD.tm("get_client"))
    if len(gcs) != 1:
        return None, None
    bb = gcs[0][0]
    if unmut(pv.arg_terms(bb)[0]) != unmut(txn):
        return None, None
    return ("ok", ("ok", pv.def_term((bb, "T")))), bb


def nil_const_pat():
    return pat.const(defsuffix="::NIL_VERSION_ID")


def find_eq_atom(g, pa, pb):
    """The EQ atom of gea `g` whose two sides match patterns pa / pb (either order), or None."""
    for a in g.atoms:
        if a[0] != "EQ":
            continue
        for x, y in ((a[1], a[2]), (a[2], a[1])):
            if m(pa, x) is not None and m(pb, y) is not None:
                return a
    return None


# --------------------------------------------------------------------------- S-CAS
def s_cas(rep, W, rule="S-CAS"):
    body = W.op("add_version")
    fn = short_fn(body)
    g = W.gea(body)
    pv = W.prov(body)
    tinfo = txn_term_of(W, body)
    if len(tinfo) != 1:
        rep.fail(rule, (fn, "txn"), "cannot identify the single transaction of add_version", where(body))
        return None
    txn = tinfo[0][2]
    client, gcbb = client_term(W, body, txn)
    if client is None:
        rep.fail(rule, (fn, "client"), "add_version does not read the client record exactly once through its transaction", where(body))
        return None
    latest = ("field", client, "latest_version_id")
    parent = ("param", 3, ANY)
    a = find_eq_atom(g, latest, nil_const_pat())
    b = find_eq_atom(g, latest, parent)
    rep.ob(rule, (fn, "atom", "latest==NIL"), a is not None,
           "the acceptance test compares client.latest_version_id with NIL_VERSION_ID" + ("" if a else ": comparison not found"), where(body))
    rep.ob(rule, (fn, "atom", "parent==latest"), b is not None,
           "the acceptance test compares the requested parent with client.latest_version_id" + ("" if b else ": comparison not found"), where(body))
    if a is None or b is None:
        return None
    accept = ("or", ("is", a, True), ("is", b, True))
    reject = ("and", ("is", a, False), ("is", b, False))
    avs = sites_of(body, WD.tm("add_version"))
    if len(avs) != 1:
        rep.fail(rule, (fn, "append-site"), "expected exactly one txn.add_version site, found %d" % len(avs), where(body))
        return None
    avbb = avs[0][0]
    # (i)
    rep.ob(rule, (fn, "i", "append-guarded"), all_vals(g, (avbb, "T"), accept),
           "every valuation reaching txn.add_version satisfies latest==NIL or parent==latest; offending: %s"
           % failing_vals(g, (avbb, "T"), accept)[:2], where(body, avbb),
           sample={"valuations_at_append": [G.show_val({k: v for k, v in val.items() if k in (a, b)}) for val in g.vals_at((avbb, "T"))]})
    # (ii) + (iii): classify non-error exits, per valuation, on the value-resolved exit term (helper-computed values and
    # values bound to locals are substituted, so `if let Some(l) = some_version(latest) {.. ExpectedParentVersion(l)}` reads as latest)
    n_rej = n_ok = 0
    newid = None
    args = pv.arg_terms(avbb)
    seen_sites = {}
    for site, term in exits(W, body):
        if is_error_exit(term):
            continue
        ln = exit_line(body, site)
        for val in g.vals_at(site):
            rt = g.resolve_phis(term, val)
            mm = m(pat.adt("Result", "Ok", ("0", pat.tup(V("res"), V("urg")))), rt)
            kind = None
            if mm is not None:
                r = mm["res"]
                mr = m(pat.adt("AddVersionResult", "ExpectedParentVersion", ("0", V("p"))), r)
                mo = m(pat.adt("AddVersionResult", "Ok", ("0", V("v"))), r)
                if mr is not None:
                    kind = "reject"
                    idx = seen_sites.setdefault((site, "reject"), len([k for k in seen_sites if k[1] == "reject"]) + 1)
                    n_rej = max(n_rej, idx)
                    rep.ob(rule, (fn, "ii", "reject-guarded#%d" % idx), G.ev(reject, val) is True,
                           "the ExpectedParentVersion outcome is returned only when latest!=NIL and parent!=latest; offending: %s"
                           % G.show_val({k: v for k, v in val.items() if k in (a, b)}), where(body, line=ln))
                    rep.ob(rule, (fn, "ii", "reject-payload#%d" % idx), mr["p"] == latest,
                           "ExpectedParentVersion carries %s; must be the client's current latest_version_id" % P.show(mr["p"]), where(body, line=ln))
                elif mo is not None:
                    kind = "ok"
                    idx = seen_sites.setdefault((site, "ok"), len([k for k in seen_sites if k[1] == "ok"]) + 1)
                    n_ok = max(n_ok, idx)
                    newid = mo["v"]
                    rep.ob(rule, (fn, "iii", "ok-after-append#%d" % idx), g.must_precede(avbb, site[0]),
                           "the accepted outcome is returned only on paths through txn.add_version", where(body, line=ln))
                    rep.ob(rule, (fn, "iv", "ok-payload#%d" % idx), len(args) == 4 and mo["v"] == g.resolve_phis(args[1], val),
                           "AddVersionResult::Ok carries %s; must be the id passed to txn.add_version (%s)"
                           % (P.show(mo["v"]), P.show(args[1]) if len(args) > 1 else "?"), where(body, line=ln))
                    if G.ev(accept, val) is not True:
                        rep.fail(rule, (fn, "iii", "ok-under-reject"), "accepted outcome reachable when the guard does not hold: %s"
                                 % G.show_val({k: v for k, v in val.items() if k in (a, b)}), where(body, line=ln))
            if kind is None:
                rep.fail(rule, (fn, "iii", "third-outcome"), "non-error exit that is neither Ok(version) nor ExpectedParentVersion: %s" % P.show(rt), where(body, line=ln))
    rep.floor(rule, "add_version reject exits", n_rej, 1, where(body))
    rep.floor(rule, "add_version accept exits", n_ok, 1, where(body))
    # (iv) argument identity
    if len(args) == 4:
        rep.ob(rule, (fn, "iv", "fresh-id"), m(call("uuid::v4::<impl uuid::Uuid>::new_v4"), args[1]) is not None,
               "version id passed to storage is %s; must be the result of Uuid::new_v4()" % P.show(args[1]), where(body, avbb))
        rep.ob(rule, (fn, "iv", "parent-arg"), m(parent, args[2]) is not None,
               "parent passed to storage is %s; must be the requested parent parameter" % P.show(args[2]), where(body, avbb))
        rep.ob(rule, (fn, "iv", "payload-arg"), m(("param", 4, ANY), args[3]) is not None,
               "payload passed to storage is %s; must be the submitted history segment parameter" % P.show(args[3]), where(body, avbb))
    return {"a": a, "b": b, "accept": accept, "reject": reject, "client": client, "latest": latest, "avbb": avbb}


# --------------------------------------------------------------------------- S-NEWCLIENT
def s_newclient(rep, W, rule="S-NEWCLIENT"):
    """Clients are created only if absent, and the absence check and the creation share one transaction."""
    n = 0
    for b, bb, t in W.callers_of_decl(WD.tm("new_client")):
        n += 1
        fn = short_fn(b)
        g = W.gea(b)
        pv = W.prov(b)
        args = pv.arg_terms(bb)
        recv = args[0]
        key = ordinal_key(b, WD.tm("new_client"), bb)
        # an absence check on the same transaction
        gcs = [gb for gb, _ in sites_of(b, WD.tm("get_client")) if pv.arg_terms(gb)[0] == recv]
        if not gcs:
            rep.fail(rule, (fn, key, "absent-check"),
                     "new_client is called without any get_client() absence check on the same transaction: "
                     "the existence check (in an earlier transaction) and the creation are not atomic", where(b, bb))
        else:
            atoms = [("VARIANT", ("ok", pv.def_term((gb, "T")))) for gb in gcs]
            f = ("or",) + tuple(("is", a, "err") for a in atoms)
            rep.ob(rule, (fn, key, "absent-check"), all_vals(g, (bb, "T"), f),
                   "new_client is reachable only when get_client() on the same transaction returned None; offending: %s"
                   % failing_vals(g, (bb, "T"), f)[:2], where(b, bb))
        rep.ob(rule, (fn, key, "nil-latest"), len(args) == 2 and m(nil_const_pat(), args[1]) is not None,
               "new client is created with latest = %s; must be NIL_VERSION_ID" % (P.show(args[1]) if len(args) > 1 else "?"), where(b, bb))
    rep.floor(rule, "new_client call sites", n, 1)


# =========================================================================== storage back ends
from tcss import effects as E      # noqa: E402
from tcss import sqlmodel as SM    # noqa: E402

_SQL_CACHE = {}


def sql_world(W):
    """(exec sites, unmodelled rusqlite calls, unclassified rusqlite calls, statement instances)"""
    k = id(W)
    if k not in _SQL_CACHE:
        ss, un, uc = SM.sites(W)
        _SQL_CACHE[k] = (ss, un, uc, E.sql_instances(W, ss))
    return _SQL_CACHE[k]


def self_field(name):
    return ("field", ("param", 1, ANY), name)


def stored_uuid(inner):
    return pat.adt("StoredUuid", "StoredUuid", ("0", inner))


# --------------------------------------------------------------------------- A5 hygiene
def s_sql_closed(rep, W, rule="S-SQL"):
    """Closed world for SQL: every rusqlite call is classified, every SQL text is a known constant that
    parses in the recognised dialect, and no SQL-looking constant exists outside an execution site."""
    ss, un, uc, inst = sql_world(W)
    rep.ob(rule, ("rusqlite-api", "classified"), not uc,
           "rusqlite calls outside the classification table: %s" % ([(b.deff, d) for b, _, d in uc] or "none"))
    rep.ob(rule, ("rusqlite-api", "modelled"), not un,
           "rusqlite calls that execute SQL through an API the statement model does not follow: %s"
           % ([(b.deff, d) for b, _, d in un] or "none"))
    texts = set()
    for s in ss:
        key = (short_fn(s.body), ordinal_key(s.body, s.api, s.bb))
        rep.ob(rule, key + ("static-text",), s.texts is not None,
               "SQL text of this execution site is %s" % ("a set of %d constant(s)" % len(s.texts) if s.texts is not None
                                                           else "not statically known (dynamic SQL): " + P.show(s.sql_term)), s.where())
        rep.ob(rule, key + ("parses",), not s.errors, "statement(s) parse in the recognised dialect; errors: %s" % (s.errors or "none"), s.where())
        rep.ob(rule, key + ("params",), s.params is not None, "bound parameters are a literal array (%s)"
               % ("%d element(s)" % len(s.params) if s.params is not None else "not recognised"), s.where(), nontrivial=False)
        for st in s.stmts:
            texts.add(st["text"])
            if st["verb"] == "CREATE TABLE" and st.get("ddl") and st["ddl"].get("columns") and all(isinstance(c_, dict) and "decl" in c_ for c_ in st["ddl"]["columns"]):
                # a column constraint (NOT NULL, CHECK, DEFAULT, UNIQUE, REFERENCES ..) refuses or rewrites rows that the storage
                # contract allows, that the in-memory back end accepts, and that databases created earlier already hold
                extra = [(c_["name"], c_["decl"]) for c_ in st["ddl"]["columns"] if c_["decl"].upper().split() not in ([c_["type"].upper()], [c_["type"].upper(), "PRIMARY", "KEY"])]
                rep.ob(rule, key + ("ddl-no-column-constraints", str(st["table"])), not extra,
                       "column declarations beyond `<type>` / `<type> PRIMARY KEY` in %s %s: %s" % (st["verb"], st["table"], extra or "none"), s.where(), nontrivial=False)
            nsel = len([w_ for w_ in st["text"].upper().replace("(", " ( ").split() if w_ == "SELECT"])
            rep.ob(rule, key + ("no-subselect", st["verb"] + ":" + str(st["table"])), nsel <= (1 if st["verb"] == "SELECT" else 0),
                   "%d SELECT keyword(s) in one %s statement: a sub-select reads rows that the scope / key obligations of the outer statement do not cover (outside the modelled dialect: fail closed)"
                   % (nsel, st["verb"]), s.where(), nontrivial=False)
            if s.params is not None:
                rep.ob(rule, key + ("arity", st["verb"] + ":" + str(st["table"])), st["nparams"] == len(s.params),
                       "%d placeholder(s) vs %d bound parameter(s)" % (st["nparams"], len(s.params)), s.where(), nontrivial=False)
    stray = []
    for b, txt in SM.all_sql_like_constants(W, WD.SQLITE):
        norm = " ".join(txt.split())
        if norm not in texts:
            stray.append((b.deff, norm[:60]))
    rep.ob(rule, ("sql-constants", "all-executed-statements-known"), not stray,
           "SQL-looking string constants that are not the text of a modelled execution site: %s" % (stray or "none"))
    rep.floor(rule, "SQL execution sites", len(ss), 8)
    rep.floor(rule, "SQL statements", sum(len(s.stmts) for s in ss), 10)
    s_uuidcodec(rep, W)
    return ss, inst


# --------------------------------------------------------------------------- S-UUIDCODEC
HYPHENATED = "text:hyphenated-lowercase (Uuid::to_string)"
PARSED = "text:any-textual-form (ValueRef::as_str + Uuid::parse_str)"
_NON_HYPHENATED = ("simple", "urn", "braced", "as_simple", "as_urn", "as_braced", "as_bytes", "to_bytes_le", "as_u128")


def uuid_encoder_classes(W):
    """How StoredUuid::to_sql renders an id, per success exit (error exits do not bind a value)."""
    b = W.prog.body("<%s::StoredUuid as rusqlite::types::to_sql::ToSql>::to_sql" % WD.SQLITE) or W.prog.one(r"StoredUuid as rusqlite::.*ToSql>::to_sql$")
    if b is None:
        return None, None
    out = []
    for site, term in exits(W, b):
        if is_error_exit(term):
            continue
        calls_ = [x[1] for x in P.walk(term) if x[0] == "call"]
        if "alloc::string::ToString::to_string" in calls_ and not any(c.split("::")[-1] in _NON_HYPHENATED for c in calls_):
            src = [x for x in P.walk(term) if x[0] == "call" and x[1] == "alloc::string::ToString::to_string"]
            if src and src[0][3][0] == ("field", ("param", 1, "self"), "0"):
                out.append(HYPHENATED)
            else:
                out.append("text:to_string(%s)" % P.show(src[0][3][0]) if src else "other")
        else:
            out.append("other:" + (",".join(c.split("::")[-1] for c in calls_) or P.show(term)[:60]))
    return b, out


def uuid_decoder_classes(W):
    b = W.prog.one(r"StoredUuid as rusqlite::.*FromSql>::column_result$")
    if b is None:
        return None, None
    out = []
    for site, term in exits(W, b):
        if is_error_exit(term):
            continue
        calls_ = [x[1] for x in P.walk(term) if x[0] == "call"]
        if "uuid::parser::<impl uuid::Uuid>::parse_str" in calls_ and "rusqlite::types::value_ref::ValueRef::<'a>::as_str" in calls_:
            out.append(PARSED)
        else:
            out.append("other:" + (",".join(c.split("::")[-1] for c in calls_) or P.show(term)[:60]))
    return b, out


def s_uuidcodec(rep, W, rule="S-UUIDCODEC"):
    """Every equality the SQL statements rely on (`client_id = ?`, `parent_version_id = ?`, the PRIMARY KEY) compares the
    TEXT the id encoder produced: the statement-level obligations (C01.KEY, S-SCOPE, C08, ..) say *which* id is bound and
    presuppose that equal ids give equal non-NULL text and different ids different text.  So: on every success exit
    StoredUuid::to_sql yields `self.0.to_string()` (one injective text form, never NULL -- `x = NULL` matches nothing), and
    column_result parses the text it is given on every success exit (no value is invented for NULL / other storage classes)."""
    eb, enc = uuid_encoder_classes(W)
    rep.ob(rule, ("uuid", "encoder"), bool(enc) and all(c == HYPHENATED for c in enc),
           "StoredUuid::to_sql success exits yield: %s (required on every exit: the hyphenated text of self.0 -- one injective, "
           "non-NULL form, so that `col = ?` holds exactly for the id that was stored)" % enc, where(eb) if eb is not None else None)
    db, dec = uuid_decoder_classes(W)
    rep.ob(rule, ("uuid", "decoder"), bool(dec) and all(c == PARSED for c in dec),
           "StoredUuid::column_result success exits yield: %s (required on every exit: Uuid::parse_str of the column's text)" % dec,
           where(db) if db is not None else None)
    # .. and every id that was stored can be read back: the decoder fails only when the column is not text or the text is not
    # a UUID, the encoder never (ids of any version / variant are legal: a client chooses the parent of its first version)
    for nm, b_ in (("decoder", db), ("encoder", eb)):
        if b_ is None:
            continue
        bad = []
        for site, rt, val, kind in exit_kinds(W, b_, lambda t: "err" if is_error_exit(t) else "ok"):
            if kind != "err":
                continue
            okx = nm == "decoder" and any(a[0] == "VARIANT" and a[1][0] == "call" and a[1][1].endswith(("as_str", "parse_str")) and vs == frozenset(["err"])
                                          for a, vs in val.items())
            if not okx:
                bad.append((exit_line(b_, site), G.show_val(val)[:140]))
        rep.ob(rule, ("uuid", nm, "fails-only-on-unparsable-text"), not bad,
               "%s error exits under other conditions than as_str / parse_str failing: %s" % (nm, bad[:2] or "none"),
               where(b_, line=bad[0][0]) if bad else where(b_), nontrivial=False)


# --------------------------------------------------------------------------- S-MEMATOMIC
def s_mematomic(rep, W, rule="S-MEMATOMIC"):
    """The in-memory back end has no rollback: whatever a method has written before it fails stays written (the SQLite
    transaction is rolled back when it is dropped).  So an error exit of an in-memory method must either precede every
    mutation of the store, or be one of the tabled duplicate-key exits (`insert(..)` returned the previous value), which the
    protocol layer makes unreachable (fresh version id; the parent is the latest version, which has no child: S-CAS + Inv).
    Any other failure after a mutation is a refused request that changed state (C18), a latest pointer naming a version
    that was never stored (C01), and a failure mode the SQLite back end does not have (C13)."""
    n = 0
    for mth in WD.ALL_METHODS:
        b = W.impl_method("inmemory", mth)
        g = W.gea(b)
        ops, stores = E.inmem_summary(W, b)
        mut = sorted({o.bb for o in ops if o.write and o.method != "get_mut"} | {s.site[0] for s in stores if not is_flag_store(W, s)})
        k = 0
        seen = {}
        for site, rt, val, kind in exit_kinds(W, b, lambda t: "err" if is_error_exit(t) else "ok"):
            if kind != "err":
                continue
            if site not in seen:
                seen[site] = k
                k += 1
            dup = any(a[0] == "VARIANT" and a[1][0] == "call" and a[1][1] == E.HM + "insert" and vs == frozenset(["ok"]) for a, vs in val.items())
            after = []
            for mb in mut:
                starts = set()
                for st in g.states_at_block(mb):
                    starts |= g.edges.get(st, set())
                if any(x[0] == site[0] for x in g.forward(starts)):
                    after.append(mb)
            n += 1
            rep.ob(rule, (short_fn(b), "error-exit#%d" % seen[site], "before-any-mutation-or-duplicate-key"), not after or dup,
                   "error exit at line %d is %s%s" % (exit_line(b, site), "reachable after the mutation(s) at line(s) %s" % [b.line_of_block(x) for x in after] if after else "not preceded by a mutation",
                                                       " under a duplicate-key insert (tabled: unreachable from the protocol layer)" if dup and after else ""),
                   where(b, line=exit_line(b, site)))
    rep.floor(rule, "in-memory error exits examined", n, 5)


# --------------------------------------------------------------------------- S-OKAFTER
def s_okafter(rep, W, rule="S-OKAFTER"):
    """A storage method that returns Ok has done its work: on the SQLite side every statement of the method was executed
    successfully on every path to an Ok return; on the in-memory side every map write is passed by every Ok return.  (The twin
    of S-FAILMODES: a new *success* exit that skips the write acknowledges something that was not stored.)"""
    if getattr(rep, "_okafter_done", None) == rep.tag:
        return
    rep._okafter_done = rep.tag
    ss, un, uc, inst = sql_world(W)
    n = 0
    for mth in WD.ALL_METHODS:
        b = W.impl_method("sqlite", mth)
        g = W.gea(b)
        pv = W.prov(b)
        oks = [site for site, term in exits(W, b) if not is_error_exit(term)]
        for i in inst:
            if i.stmt is None or i.owner.key != b.key or i.site.body.key != b.key or i.stmt["verb"] == "SELECT":
                continue        # (a SELECT's rows are the method's result: it cannot be skipped unnoticed -- C01.KEY / C11.READ)
            n += 1
            atom = variant_atom(pv.def_term((i.site.bb, "T")))
            rep.ob(rule, ("sqlite", mth, i.stmt["verb"] + ":" + str(i.stmt.get("table"))), all(all_vals(g, s_, ("is", atom, "ok")) for s_ in oks),
                   "sqlite %s returns Ok only after its %s on %s succeeded" % (mth, i.stmt["verb"], i.stmt.get("table")), i.where(), nontrivial=False)
        mb = W.impl_method("inmemory", mth)
        gm = W.gea(mb)
        ops, _stores = E.inmem_summary(W, mb)
        moks = [site for site, term in exits(W, mb) if not is_error_exit(term)]
        for o in ops:
            if not o.write or o.method == "get_mut":
                continue
            n += 1
            rep.ob(rule, ("inmemory", mth, "%s.%s" % (o.logical, o.method)), not any(avoids_block_reaching(gm, o.bb, s_[0], lambda v: True) for s_ in moks),
                   "in-memory %s returns Ok only after %s.%s" % (mth, o.logical, o.method), where(mb, o.bb), nontrivial=False)
    rep.floor(rule, "statements / map writes examined", n, 8)


# --------------------------------------------------------------------------- S-FAILMODES
STORAGE_FAIL_TABLE = {
    "new_client": {"callee-failed", "record-exists"},
    "set_snapshot": {"callee-failed", "record-absent"},
    "add_version": {"callee-failed", "record-absent", "duplicate-key"},
    "get_client": {"callee-failed"},
    "get_snapshot_data": {"callee-failed", "record-absent", "no-snapshot", "version-mismatch"},
    "get_version_by_parent": {"callee-failed"},
    "get_version": {"callee-failed"},
    "commit": {"callee-failed"},
    "txn": {"callee-failed"},
}
_EXTERNAL_FALLIBLE = ("rusqlite::", "std::sync::", "anyhow::")


def failure_reasons(val, layer):
    """The reasons, among the tabled ones, for which a path with condition `val` fails."""
    out = set()
    for a, vs in val.items():
        if len(vs) != 1:
            continue
        v = next(iter(vs))
        if a[0] == "VARIANT" and a[1][0] == "call":
            c = a[1][1]
            if layer == "op":
                if v == "err" and (c == WD.T_TXN or c.startswith(WD.STORAGE_TXN + "::")):
                    out.add("storage-failed")
            else:
                if v == "err" and c.startswith(_EXTERNAL_FALLIBLE):
                    out.add("callee-failed")
                if v == "err" and c in (E.HM + "get", E.HM + "get_mut"):
                    out.add("record-absent")
                if v == "ok" and c == E.HM + "insert":
                    out.add("duplicate-key")
                if v == "ok" and c in (E.HM + "get", E.HM + "get_mut"):
                    out.add("record-exists")        # `if self.client().is_some() { bail }` in new_client
        elif a[0] == "VARIANT" and v == "err":
            t = a[1]
            if layer == "op" and t[0] == "ok" and t[1][0] == "call" and t[1][1] == WD.tm("get_client"):
                out.add("no-such-client")
            if layer != "op" and t[0] == "field" and t[2] == "snapshot":
                out.add("no-snapshot")
        elif a[0] == "PRED" and v is True and a[1].endswith("::contains_key") and layer != "op":
            out.add("record-exists")
        elif a[0] == "EQ" and v is False and layer != "op" and any(x[0] == "param" for x in a[1:3]):
            out.add("version-mismatch")
    return out


def s_failmodes(rep, W, rule="S-FAILMODES", ops=None, methods=None):
    """No failure mode beyond the tabled ones, below the HTTP layer.  The statements quantify over every request and payload
    ("accepted exactly when ..", "every payload up to the size limit", "the same history gives the same responses on every
    back end"), so a request may fail inside the library only because storage failed or the client is unknown, and a storage
    method only because its engine failed or for the tabled record conditions (client absent / already there, duplicate
    key, snapshot absent or of another version).  An error exit under any other path condition -- a size cap, a rejected id
    value, a state-dependent refusal -- is a new way for a valid request to be answered 500."""
    n = 0
    scoped = ops is not None or methods is not None      # a property about one operation composes that operation's part only
    for opn in (ops if ops is not None else ("add_version", "get_child_version", "add_snapshot", "get_snapshot")):
        b = W.op(opn)
        bad = []
        for site, rt, val, kind in exit_kinds(W, b, lambda t: "err" if is_error_exit(t) else "ok"):
            if kind != "err":
                continue
            n += 1
            if not failure_reasons(val, "op"):
                bad.append((exit_line(b, site), G.show_val(val)[:160]))
        rep.ob(rule, (short_fn(b), "error-exits-tabled"), not bad,
               "Server::%s fails only when a storage call failed or the client is unknown; other failing paths: %s" % (opn, bad[:2] or "none"),
               where(b, line=bad[0][0]) if bad else where(b))
    impls = [(be, mth, W.impl_method(be, mth)) for be in ("sqlite", "inmemory") for mth in WD.ALL_METHODS if methods is None or mth in methods]
    impls += [(be, "txn", W.impl_storage_txn(be)) for be in ("sqlite", "inmemory")]
    for be, mth, b in impls:
        bad = []
        for site, rt, val, kind in exit_kinds(W, b, lambda t: "err" if is_error_exit(t) else "ok"):
            if kind != "err":
                continue
            n += 1
            if not (failure_reasons(val, "storage") & STORAGE_FAIL_TABLE[mth]):
                bad.append((exit_line(b, site), G.show_val(val)[:160]))
        rep.ob(rule, (be, mth, "error-exits-tabled"), not bad,
               "%s %s fails only for: %s; other failing paths: %s" % (be, mth, sorted(STORAGE_FAIL_TABLE[mth]), bad[:2] or "none"),
               where(b, line=bad[0][0]) if bad else where(b))
    # row-mapping closures of the SQLite back end: a row fails to map only because a column read failed
    for b in W.prog.bodies.values():
        if b.unit != WD.SQLITE + "-lib" or b.kind != "Closure":
            continue
        bad = []
        for site, rt, val, kind in exit_kinds(W, b, lambda t: "err" if is_error_exit(t) else "ok"):
            if kind != "err":
                continue
            n += 1
            if "callee-failed" not in failure_reasons(val, "storage"):
                bad.append((exit_line(b, site), G.show_val(val)[:160]))
        if bad:
            rep.fail(rule, ("sqlite", short_fn(b), "closure-error-exits-tabled"),
                     "a closure of the SQLite back end fails under a condition other than a failed rusqlite call: %s" % bad[:2], where(b, line=bad[0][0]))
    rep.floor(rule, "error exits examined", n, 8 if scoped else 25)


# --------------------------------------------------------------------------- S-TXN2
def s_txn2(rep, W, rule="S-TXN2"):
    ss, un, uc, inst = sql_world(W)
    # ---- SQLite
    body = W.impl_storage_txn("sqlite")
    fn = short_fn(body)
    g = W.gea(body)
    pv = W.prov(body)
    succ = [(s, t) for s, t in exits(W, body) if not is_error_exit(t)]
    rep.ob(rule, (fn, "single-success-exit"), len(succ) == 1, "%d non-error exit(s)" % len(succ), where(body))
    begin_sites = [s for s in ss if s.body.key == body.key and any(st["verb"] == "BEGIN" for st in s.stmts)]
    for site, term in succ:
        mm = m(pat.adt("Result", "Ok", ("0", pat.adt("Txn", "Txn", ("con", V("con")), ("client_id", V("cid"))))), term)
        if mm is None:
            rep.fail(rule, (fn, "returns-Txn"), "success value is %s; expected Ok(Box::new(Txn{con, client_id}))" % P.show(term), where(body))
            continue
        con = unmut(mm["con"])
        # (the connection helper of the pinned tree is spliced, see load.SPLICE_BASELINE: the open call is seen here)
        fresh = m(("ok", call("rusqlite::Connection::open", self_field("db_file"))), con) is not None and con[1][2] in pv.live
        rep.ob(rule, (fn, "fresh-connection"), fresh,
               "the transaction's connection is %s; must be a connection opened by this very call (not cached or shared)" % P.show(con), where(body))
        rep.ob(rule, (fn, "client-id"), m(("param", 2, ANY), mm["cid"]) is not None,
               "Txn.client_id is %s; must be the client_id parameter" % P.show(mm["cid"]), where(body))
        okb = False
        for bs in begin_sites:
            st = [x for x in bs.stmts if x["verb"] == "BEGIN"][0]
            same = unmut(bs.conn) == con
            excl = st.get("mode") in ("IMMEDIATE", "EXCLUSIVE")
            atom = variant_atom(pv.def_term((bs.bb, "T")))
            dom = all_vals(g, site, ("is", atom, "ok"))
            rep.ob(rule, (fn, "begin-exclusive"), excl, "transaction begins with BEGIN %s; IMMEDIATE or EXCLUSIVE required "
                   "(a deferred transaction lets two requests both read the old latest)" % st.get("mode"), bs.where())
            rep.ob(rule, (fn, "begin-same-connection"), same, "BEGIN is issued on %s; the returned connection is %s" % (P.show(bs.conn), P.show(con)), bs.where())
            rep.ob(rule, (fn, "begin-dominates-ok"), dom, "the Ok return is reached only after BEGIN succeeded", bs.where())
            okb = okb or (same and excl and dom)
        rep.ob(rule, (fn, "begin-present"), bool(begin_sites), "%d BEGIN statement(s) in Storage::txn" % len(begin_sites), where(body))
    # transaction-control statements: BEGIN only in txn, COMMIT only in commit, nothing else anywhere
    commit_body = W.impl_method("sqlite", "commit")
    for i in inst:
        if i.stmt is None or i.stmt["verb"] not in ("BEGIN", "COMMIT", "ROLLBACK"):
            continue
        v = i.stmt["verb"]
        okp = (v == "BEGIN" and i.owner.key == body.key) or (v == "COMMIT" and i.owner.key == commit_body.key)
        rep.ob(rule, ("txn-control", v, short_fn(i.owner)), okp,
               "%s issued in %s; BEGIN belongs to Storage::txn only and COMMIT to StorageTxn::commit only" % (v, i.owner.deff), i.where())
    cs = [i for i in inst if i.stmt and i.stmt["verb"] == "COMMIT" and i.owner.key == commit_body.key]
    rep.ob(rule, (short_fn(commit_body), "issues-COMMIT"), len(cs) == 1 and m(self_field("con"), unmut(cs[0].site.conn)) is not None,
           "commit() issues COMMIT on self.con (%d COMMIT site(s))" % len(cs), where(commit_body))
    if cs:
        gc = W.gea(commit_body)
        atom = variant_atom(W.prov(commit_body).def_term((cs[0].site.bb, "T")))
        for site, term in exits(W, commit_body):
            if not is_error_exit(term):
                rep.ob(rule, (short_fn(commit_body), "ok-after-COMMIT"), all_vals(gc, site, ("is", atom, "ok")),
                       "commit() returns Ok only after the COMMIT statement succeeded", where(commit_body))
    # every other statement of a Txn method runs on self.con
    for i in inst:
        if i.owner.j.get("impl_trait") == WD.STORAGE_TXN and i.stmt is not None:
            rep.ob(rule, (short_fn(i.owner), "on-self.con", i.stmt["verb"] + ":" + str(i.stmt["table"])),
                   m(self_field("con"), unmut(i.site.conn)) is not None,
                   "statement runs on %s; must be the transaction's own connection self.con" % P.show(i.site.conn), i.where(), nontrivial=False)
    # no Drop impl that could commit; Txn owns its connection by value
    drops = [i for i in W.prog.impls if i.get("trait") == "core::ops::drop::Drop" and i["unit"].startswith(WD.SQLITE)]
    rep.ob(rule, ("sqlite", "no-Drop-impl"), not drops, "Drop impls in the sqlite crate: %s" % ([d["self_ty"] for d in drops] or "none"))
    txn_adt = W.prog.adt("Txn")
    conf = [f for f in (txn_adt["variants"][0]["fields"] if txn_adt else []) if f["name"] == "con"]
    rep.ob(rule, ("sqlite::Txn", "owns-connection"), bool(conf) and conf[0]["ty"] == "rusqlite::Connection",
           "Txn.con has type %s; must be an owned rusqlite::Connection (dropping the txn closes it, rolling back)" % (conf[0]["ty"] if conf else "?"))
    # ---- in-memory
    mb = W.impl_storage_txn("inmemory")
    fnm = short_fn(mb)
    for site, term in exits(W, mb):
        if is_error_exit(term):
            continue
        mm0 = m(pat.adt("Result", "Ok", ("0", pat.adt("InnerTxn", "InnerTxn", Ellipsis))), term)
        mm = None
        if mm0 is not None:
            # fields identified by type, not by name
            inner = [x for x in P.walk(term) if x[0] == "agg" and isinstance(x[1], tuple) and x[1][1].endswith("::InnerTxn")][0]
            ftypes = {f["name"]: f["ty"] for f in (W.prog.adt("inmemory::InnerTxn") or {"variants": [{"fields": []}]})["variants"][0]["fields"]}
            vals_ = dict(inner[2])
            cids = [n_ for n_, ty_ in ftypes.items() if ty_ == "uuid::Uuid"]
            gs = [n_ for n_, ty_ in ftypes.items() if ty_.startswith("std::sync::poison::mutex::MutexGuard<")]
            if len(cids) == 1 and len(gs) == 1:
                mm = {"cid": vals_.get(cids[0]), "g": vals_.get(gs[0])}
        if mm is None:
            rep.fail(rule, (fnm, "returns-InnerTxn"), "success value is %s" % P.show(term), where(mb))
            continue
        locks = P.calls_in(mm["g"], "std::sync::poison::mutex::Mutex::<T>::lock")
        rep.ob(rule, (fnm, "holds-lock"), len(locks) == 1 and m(("field", ("param", 1, ANY), "0"), locks[0][3][0]) is not None,
               "InnerTxn.guard is %s; must be the guard of self.0.lock() held for the transaction's lifetime" % P.show(mm["g"]), where(mb))
        rep.ob(rule, (fnm, "client-id"), m(("param", 2, ANY), mm["cid"]) is not None, "InnerTxn.client_id is %s" % P.show(mm["cid"]), where(mb))
    ims = W.prog.adt("inmemory::InMemoryStorage")
    ftypes = [f["ty"] for f in ims["variants"][0]["fields"]] if ims else []
    rep.ob(rule, ("inmemory::InMemoryStorage", "single-mutex"), len(ftypes) == 1 and ftypes[0].startswith("std::sync::poison::mutex::Mutex<"),
           "InMemoryStorage fields: %s; all state must sit behind one Mutex" % ftypes)
    itx = W.prog.adt("inmemory::InnerTxn")
    gty = [f["ty"] for f in itx["variants"][0]["fields"] if f["name"] == "guard"] if itx else []
    rep.ob(rule, ("inmemory::InnerTxn", "guard-field"), bool(gty) and gty[0].startswith("std::sync::poison::mutex::MutexGuard<"),
           "InnerTxn.guard has type %s" % (gty[0] if gty else "?"))
    # every map access in InnerTxn methods goes through self.guard
    nacc = 0
    for mth in WD.ALL_METHODS:
        b = W.impl_method("inmemory", mth)
        ops, stores = E.inmem_summary(W, b)
        for o in ops:
            nacc += 1
            recv = W.prov(b).arg_terms(o.bb)[0]
            rep.ob(rule, (short_fn(b), "via-guard", "%s.%s#%d" % (o.field, o.method, [x.bb for x in ops if x.field == o.field and x.method == o.method].index(o.bb))),
                   m(("field", self_field("guard"), ANY), recv) is not None,
                   "map access on %s; must go through self.guard" % P.show(recv), where(b, o.bb), nontrivial=False)
    rep.floor(rule, "in-memory map accesses", nacc, 10)
    statics = [s for s in W.prog.statics]
    rep.ob(rule, ("workspace", "no-statics"), not statics, "static items in the workspace: %s" % ([s["def"] for s in statics] or "none"))


def self_only():
    return ("param", 1, ANY)


# --------------------------------------------------------------------------- S-APPENDONLY
def s_appendonly(rep, W, rule="S-APPENDONLY"):
    ss, un, uc, inst = sql_world(W)
    n = 0
    for i in inst:
        st = i.stmt
        if st is None or st["table"] != "versions":
            continue
        n += 1
        v = st["verb"]
        okv = v in ("SELECT", "CREATE TABLE", "CREATE INDEX") or (v == "INSERT" and st["conflict"] is None)
        rep.ob(rule, ("sql", short_fn(i.owner), v + (" OR " + st["conflict"] if st["conflict"] else "")), okv,
               "statement on table versions: %s -- only SELECT and plain INSERT may touch version records" % st["text"][:90], i.where())
    rep.floor(rule, "statements on table versions", n, 4)
    tables, _ = SM.schema(ss)
    vid = tables.get("versions", {}).get("version_id")
    rep.ob(rule, ("sql", "versions.version_id", "primary-key"), bool(vid) and vid["pk"],
           "versions.version_id is declared %s; PRIMARY KEY makes a duplicate insert fail instead of shadowing" % (vid["decl"] if vid else "missing"))
    # positive example: the rule does match a destructive statement
    ex = SM.SQL.parse("DELETE FROM versions WHERE client_id = ?")
    rep.ob(rule, ("selfcheck", "positive-example"), ex["verb"] == "DELETE" and ex["table"] == "versions",
           "built-in positive example (DELETE FROM versions) is recognised as destructive", nontrivial=False)
    # in-memory maps
    nins = 0
    for mth in WD.ALL_METHODS:
        b = W.impl_method("inmemory", mth)
        g = None
        ops, stores = E.inmem_summary(W, b)
        for o in ops:
            rep.ob(rule, ("mem", short_fn(b), "known-map-op", o.method), o.known and o.logical is not None,
                   "HashMap::%s on field %s (%s)" % (o.method, o.field, o.logical or "not one of Inner's four maps"), where(b, o.bb), nontrivial=False)
            if o.logical not in ("versions", "children"):
                continue
            if o.write:
                okw = o.method == "insert" and mth == "add_version"
                rep.ob(rule, ("mem", short_fn(b), o.logical + "." + o.method), okw,
                       "write to the %s map via %s in %s; only insert in add_version is allowed" % (o.logical, o.method, mth), where(b, o.bb))
                if okw:
                    nins += 1
                    g = g or W.gea(b)
                    # the displaced-value result must lead to an error return
                    atom = ("VARIANT", o.term)
                    bad = []
                    for site, term in exits(W, b):
                        if is_error_exit(term):
                            continue
                        for val in g.vals_at(site):
                            if val.get(atom) != frozenset(["err"]):
                                bad.append(G.show_val({atom: val.get(atom)} if atom in val else {}))
                    rep.ob(rule, ("mem", short_fn(b), o.logical + ".insert", "duplicate-is-error"), not bad,
                           "Ok is returned only when %s.insert displaced nothing (a duplicate key is an error); offending: %s" % (o.logical, bad[:1]),
                           where(b, o.bb))
        for s in stores:
            root = E.guard_root(s.target)
            if root[0] == "call" and root[1].startswith(E.HM):
                # store through a map lookup result: must not be into versions/children
                recv = root[3][0]
                fname = recv[2] if recv[0] == "field" else None
                logical = E.inner_fields(W).get(fname, (None, None))[1]
                rep.ob(rule, ("mem", short_fn(b), "in-place", str(logical)), logical not in ("versions", "children"),
                       "in-place mutation through %s" % P.show(s.target), where(b, line=s.line))
    rep.floor(rule, "in-memory version/child inserts", nins, 2)


# --------------------------------------------------------------------------- S-SCOPE
def s_scope(rep, W, rule="S-SCOPE"):
    ss, un, uc, inst = sql_world(W)
    ndml = 0
    cid = stored_uuid(self_field("client_id"))
    for i in inst:
        st = i.stmt
        if st is None or st["table"] not in ("clients", "versions"):
            continue
        v = st["verb"]
        if v in ("SELECT", "UPDATE", "DELETE"):
            ndml += 1
            ks = [e for c, e in st["where"] if c == "client_id" and e[0] == "param"]
            okw = bool(ks) and st["where_simple"] and m(cid, i.param(ks[0][1]) or ("unknown",)) is not None
            rep.ob(rule, ("sql", short_fn(i.owner), v + ":" + st["table"]), okw,
                   "%s on %s is scoped by `client_id = ?` bound to self.client_id: %s" % (
                       v, st["table"], "yes" if okw else "NO (where=%s, bound=%s)" % (st["where"], P.show(i.param(ks[0][1])) if ks and i.param(ks[0][1]) else None)),
                   i.where(), sample={"statement": st["text"], "where": [(c, str(e)) for c, e in st["where"]]})
        elif v == "INSERT":
            ndml += 1
            ks = [e for c, e in st["writes"] if c == "client_id" and e[0] == "param"]
            okw = bool(ks) and m(cid, i.param(ks[0][1]) or ("unknown",)) is not None
            rep.ob(rule, ("sql", short_fn(i.owner), v + ":" + st["table"]), okw,
                   "INSERT into %s writes column client_id from self.client_id: %s" % (st["table"], "yes" if okw else "NO"), i.where())
    rep.floor(rule, "scoped DML statements", ndml, 6)
    # uniqueness constraints are shared state too: a UNIQUE key that does not contain client_id lets one client's rows make
    # another client's insert fail.  Tabled exception: versions.version_id PRIMARY KEY (ids are server-generated v4 uuids,
    # never chosen by a client: S-CAS iv + TB-uuid) and clients.client_id itself.
    for i in inst:
        st = i.stmt
        if st is None:
            continue
        if st["verb"] == "CREATE INDEX" and st["ddl"].get("unique"):
            rep.ob(rule, ("sql", "unique-index", st["ddl"]["index"]), "client_id" in st["ddl"]["columns"],
                   "UNIQUE index %s on %s%s: a uniqueness constraint must include client_id, otherwise rows of different clients collide"
                   % (st["ddl"]["index"], st["table"], tuple(st["ddl"]["columns"])), i.where())
        if st["verb"] == "CREATE TABLE":
            for cdef in st["ddl"]["columns"]:
                if (cdef["pk"] or cdef["unique"]) and (st["table"], cdef["name"]) not in (("clients", "client_id"), ("versions", "version_id")):
                    rep.fail(rule, ("sql", "unique-column", "%s.%s" % (st["table"], cdef["name"])),
                             "column %s.%s is declared %s: a per-column uniqueness constraint is global across clients" % (st["table"], cdef["name"], cdef["decl"]), i.where())
    nacc = 0
    for mth in WD.ALL_METHODS:
        b = W.impl_method("inmemory", mth)
        ops, stores = E.inmem_summary(W, b)
        counts = {}
        for o in ops:
            if o.key is None:
                continue
            nacc += 1
            k = "%s.%s" % (o.field, o.method)
            counts[k] = counts.get(k, 0) + 1
            if o.logical in ("clients", "snapshots"):
                okk = m(self_field("client_id"), o.key) is not None
            else:
                okk = m(pat.tup(self_field("client_id"), ANY), o.key) is not None
            rep.ob(rule, ("mem", short_fn(b), "%s#%d" % (k, counts[k] - 1)), okk,
                   "key of %s.%s is %s; its client component must be self.client_id" % (o.field, o.method, P.show(o.key)), where(b, o.bb))
    rep.floor(rule, "in-memory keyed map accesses", nacc, 10)
    # the client_id field of a transaction object is only set at construction
    for ty, backend in (("Txn", "sqlite"), ("InnerTxn", "inmemory")):
        writers = []
        for b in W.prog.bodies.values():
            pv = W.prov(b)
            for site, place, node in pv.stores:
                tgt = pv.apply_proj(pv.local_term(place["l"]), place["proj"])
                if tgt[0] == "field" and tgt[2] == "client_id" and place["proj"][-1].get("adt", "").endswith(ty):
                    writers.append(b.deff)
            for l, sites_ in pv.partial.items():
                for s_ in sites_:
                    node = pv.node_at(s_)
                    pl = node["p"] if "p" in node else node.get("dest")
                    if pl and pl["proj"] and pl["proj"][-1].get("name") == "client_id" and pl["proj"][-1].get("adt", "").endswith(ty):
                        writers.append(b.deff)
        rep.ob(rule, (backend, ty + ".client_id", "never-reassigned"), not writers,
               "assignments to %s.client_id after construction: %s" % (ty, writers or "none"))
        # constructions of the struct: only in Storage::txn
        ctors = []
        for b in W.prog.bodies.values():
            for blk in b.blocks:
                if blk["cleanup"]:
                    continue
                for s_ in blk["stmts"]:
                    if s_["k"] == "assign" and s_["rv"]["k"] == "aggregate" and s_["rv"].get("adt", "").endswith("::" + ty):
                        ctors.append(b.key)
        want = W.impl_storage_txn(backend).key
        rep.ob(rule, (backend, ty, "constructed-only-in-txn"), ctors == [want],
               "%s is constructed in %s; only Storage::txn may build it (with the caller's client id)" % (ty, ctors))


# --------------------------------------------------------------------------- S-CLIENTID
def s_clientid(rep, W, rule="S-CLIENTID"):
    """The client id of every Server::* call in a handler is the Ok payload of client_id_header(state, req)."""
    n = 0
    hdr_calls = 0
    for mod in WD.HANDLER_MODULES:
        body = W.handler(mod)
        fn = short_fn(body)
        pv = W.prov(body)
        hs = sites_of(body, WD.CLIENT_ID_HEADER_FN)
        rep.ob(rule, (fn, "one-header-call"), len(hs) == 1, "%d call(s) of client_id_header" % len(hs), where(body))
        if len(hs) != 1:
            continue
        hdr_calls += 1
        cid = ("ok", pv.def_term((hs[0][0], "T")))
        hargs = pv.arg_terms(hs[0][0])
        # the header map the helper reads, expressed in the handler's own terms (the helper may take the request or its
        # header map): must be the headers of the request being served
        hb_ = W.body(WD.CLIENT_ID_HEADER_FN)
        srcs = []
        for bb2, t2 in hb_.calls():
            if t2["callee"].get("def") == "actix_http::header::map::HeaderMap::get":
                srcs.append(E.subst_params(W.prov(hb_).arg_terms(bb2)[0], {i + 1: a for i, a in enumerate(hargs)}))
        okreq = bool(srcs) and all(m(call("actix_web::request::HttpRequest::headers", ("upvar", ANY, ANY)), x) is not None for x in srcs)
        rep.ob(rule, (fn, "header-of-this-request"), okreq,
               "client_id_header reads the header map %s (must be the headers of the request being served)" % [P.show(x) for x in srcs], where(body, hs[0][0]), nontrivial=False)
        for bb, t in body.calls():
            d = t["callee"].get("def", "")
            if d.startswith(WD.SERVER_TY + "::"):
                n += 1
                a = pv.arg_terms(bb)
                rep.ob(rule, (fn, ordinal_key(body, d, bb), "client-arg"), len(a) > 1 and a[1] == cid,
                       "client id passed to Server::%s is %s; must be the validated header value %s" % (d.split("::")[-1], P.show(a[1]) if len(a) > 1 else "?", P.show(cid)),
                       where(body, bb))
    rep.floor(rule, "Server::* call sites in handlers", n, 4)
    # the helper: Ok payload is parse_str(to_str(headers.get(CLIENT_ID_HEADER)))
    hb = W.body(WD.CLIENT_ID_HEADER_FN)
    fn = short_fn(hb)
    nok = 0
    for site, term in exits(W, hb):
        if is_error_exit(term):
            continue
        nok += 1
        want = pat.adt("Result", "Ok", ("0", ("ok", call("uuid::parser::<impl uuid::Uuid>::parse_str",
                ("ok", call("http::header::value::HeaderValue::to_str",
                            ("ok", call("actix_http::header::map::HeaderMap::get",
                                        pat.OneOf(call("actix_web::request::HttpRequest::headers", ("param", ANY, ANY)), ("param", ANY, ANY)),
                                        pat.const(val="X-Client-Id")))))))))
        rep.ob(rule, (fn, "ok-payload"), m(want, term) is not None,
               "client_id_header returns %s; must be Uuid::parse_str(headers[\"X-Client-Id\"].to_str())" % P.show(term), where(hb))
    rep.floor(rule, "client_id_header Ok exits", nok, 1)


# =========================================================================== more shared obligations
def exit_kinds(W, body, classify):
    """[(site, resolved term, valuation, kind)] for every (exit, valuation); multi-def temporaries in
    the exit value are resolved path-sensitively."""
    g = W.gea(body)
    out = []
    for site, term in exits(W, body):
        for val in g.vals_at(site):
            rt = g.resolve_phis(term, val)
            out.append((site, rt, val, classify(rt)))
    return out


def compatible(val, assignment):
    """A partial valuation is compatible with a total assignment of some atoms."""
    merged = dict(val)
    for atom, v in assignment.items():
        vs = val.get(atom)
        if vs is not None and v not in vs:
            return False
        merged[atom] = frozenset([v])
    # equalities are not independent propositions: parent == NIL and parent == latest imply latest == NIL
    return G.eq_consistent(merged)


# --------------------------------------------------------------------------- S-READONLY / S-CLASS
def method_class(W, mth):
    """(class per backend, detail) derived from the effect summaries."""
    ss, un, uc, inst = sql_world(W)
    out = {}
    sb = W.impl_method("sqlite", mth)
    verbs = sorted(set(i.stmt["verb"] for i in inst if i.owner.key == sb.key and i.stmt))
    if any(v in ("INSERT", "UPDATE", "DELETE", "DROP", "ALTER", "CREATE TABLE", "CREATE INDEX") for v in verbs):
        out["sqlite"] = "write"
    elif "COMMIT" in verbs:
        out["sqlite"] = "commit"
    elif verbs and all(v == "SELECT" for v in verbs):
        out["sqlite"] = "read"
    else:
        out["sqlite"] = "none:" + ",".join(verbs)
    mb = W.impl_method("inmemory", mth)
    ops, stores = E.inmem_summary(W, mb)
    data_stores = [s for s in stores if not is_flag_store(W, s)]
    flag_stores = [s for s in stores if is_flag_store(W, s)]
    if any(o.write for o in ops) or data_stores:
        out["inmemory"] = "write"
    elif flag_stores and not ops:
        out["inmemory"] = "commit"      # touches nothing but the transaction's own bookkeeping flag
    elif ops:
        out["inmemory"] = "read"
    else:
        out["inmemory"] = "none"
    return out, {"sqlite_verbs": verbs, "inmemory_map_ops": ["%s.%s" % (o.field, o.method) for o in ops],
                 "inmemory_stores": [P.show(s.target) for s in stores]}


def is_flag_store(W, s):
    """A store into a bool bookkeeping field of the transaction object itself (self.<flag> = const)."""
    t = s.target
    if not (t[0] == "field" and t[1][0] == "param" and t[1][1] == 1):
        return False
    adt = W.prog.adt("inmemory::InnerTxn")
    if adt is None:
        return False
    ftypes = {f["name"]: f["ty"] for f in adt["variants"][0]["fields"]}
    fty = ftypes.get(t[2])
    if fty == "bool":
        return True
    # the same bookkeeping kept in a private field-less enum (Clean / Written / Committed) instead of two bools
    for (u, d), a in W.prog.adts.items():
        if d == fty and u.startswith(WD.CORE) and a["kind"] == "Enum" and all(not v["fields"] for v in a["variants"]):
            return True
    return False


def s_class(rep, W, rule="S-CLASS"):
    """The read / write / commit class table is re-derived from both back ends' effect summaries."""
    for mth in WD.ALL_METHODS:
        want = "write" if mth in WD.WRITE_METHODS else ("commit" if mth == WD.COMMIT_METHOD else "read")
        got, detail = method_class(W, mth)
        rep.ob(rule, (mth, "class"), got.get("sqlite") == want and got.get("inmemory") == want,
               "StorageTxn::%s is %s-class; derived: sqlite=%s in-memory=%s" % (mth, want, got.get("sqlite"), got.get("inmemory")),
               sample=detail)
    for backend in ("sqlite", "inmemory"):
        b = W.impl_storage_txn(backend)
        if backend == "sqlite":
            ss, un, uc, inst = sql_world(W)
            verbs = sorted(set(i.stmt["verb"] for i in inst if i.owner.key == b.key and i.stmt))
            rep.ob(rule, ("Storage::txn", backend), verbs == ["BEGIN"], "Storage::txn (sqlite) issues %s; only BEGIN expected" % verbs)
        else:
            ops, stores = E.inmem_summary(W, b)
            rep.ob(rule, ("Storage::txn", backend), not ops and not stores, "Storage::txn (in-memory) touches no stored state")
    # the trait has exactly these methods
    tr = W.prog.traits.get(WD.STORAGE_TXN)
    names = sorted(i["name"] for i in tr["items"]) if tr else []
    rep.ob(rule, ("StorageTxn", "method-set"), names == sorted(WD.ALL_METHODS),
           "StorageTxn methods: %s; the class table covers %s" % (names, sorted(WD.ALL_METHODS)))


def local_static_closure(W, body):
    """Bodies reachable from `body` through statically resolved workspace calls and closures, not
    descending into storage trait implementations (those are summarised by class)."""
    cg = W.callgraph()
    seen = set()
    st = [body.key]
    while st:
        k = st.pop()
        if k in seen:
            continue
        seen.add(k)
        for bb, k2 in cg.get(k, ()):
            b2 = W.prog.bodies[k2]
            if b2.j.get("impl_trait") in (WD.STORAGE_TXN, WD.STORAGE):
                continue
            st.append(k2)
    return seen


def s_readonly_op(rep, W, opname, rule="S-READONLY"):
    body = W.op(opname)
    bad = []
    nreads = 0
    for k in local_static_closure(W, body):
        b = W.prog.bodies[k]
        for bb, t in b.calls():
            d = t["callee"].get("def", "")
            if d.startswith(WD.STORAGE_TXN + "::"):
                mth = d.split("::")[-1]
                if mth in WD.READ_METHODS:
                    nreads += 1
                else:
                    bad.append((b.deff, mth, b.line_of_block(bb)))
    rep.ob(rule, (short_fn(body), "only-read-class-calls"), not bad,
           "Server::%s (and what it statically calls) invokes only read-class storage methods; others: %s" % (opname, bad or "none"), where(body))
    rep.floor(rule, "Server::%s read-class calls" % opname, nreads, 2, where(body))


# --------------------------------------------------------------------------- C01.KEY
def c01_key(rep, W, rule="C01.KEY"):
    ss, un, uc, inst = sql_world(W)
    s_okafter(rep, W)
    # ---- sqlite writer
    sb = W.impl_method("sqlite", "add_version")
    fn = short_fn(sb)
    ins = [i for i in inst if i.owner.key == sb.key and i.stmt and i.stmt["verb"] == "INSERT" and i.stmt["table"] == "versions"]
    upd = [i for i in inst if i.owner.key == sb.key and i.stmt and i.stmt["verb"] == "UPDATE" and i.stmt["table"] == "clients"]
    rep.ob(rule, (fn, "one-insert-one-update"), len(ins) == 1 and len(upd) == 1, "%d INSERT INTO versions, %d UPDATE clients" % (len(ins), len(upd)), where(sb))
    want_ins = {"version_id": stored_uuid(("param", 2, ANY)), "client_id": stored_uuid(self_field("client_id")),
                "parent_version_id": stored_uuid(("param", 3, ANY)), "history_segment": ("param", 4, ANY)}
    for i in ins:
        cols = dict(i.stmt["writes"])
        for col, p_ in want_ins.items():
            e = cols.get(col)
            got = i.param(e[1]) if e and e[0] == "param" else None
            rep.ob(rule, (fn, "insert", col), got is not None and m(p_, got) is not None,
                   "column versions.%s is bound to %s" % (col, P.show(got) if got else e), i.where())
        rep.ob(rule, (fn, "insert", "columns"), set(cols) == set(want_ins), "INSERT lists columns %s" % sorted(cols), i.where(), nontrivial=False)
    for i in upd:
        wcols = [c for c, _ in i.stmt["where"]]
        rep.ob(rule, (fn, "update", "unconditional-for-this-client"), i.stmt["where_simple"] and wcols == ["client_id"],
               "the latest-pointer UPDATE's WHERE clause is %s; it must be exactly `client_id = ?` (a 0-row update would leave the new version unreachable as latest)"
               % ([(c, str(e)) for c, e in i.stmt["where"]],), i.where())
        cols = dict(i.stmt["writes"])
        e = cols.get("latest_version_id")
        got = i.param(e[1]) if e and e[0] == "param" else None
        rep.ob(rule, (fn, "update", "latest_version_id"), got is not None and m(stored_uuid(("param", 2, ANY)), got) is not None,
               "clients.latest_version_id is set to %s; must be the new version id" % (P.show(got) if got else e), i.where())
    # both statements succeed before Ok is returned
    g = W.gea(sb)
    pvb = W.prov(sb)
    for site, term in exits(W, sb):
        if is_error_exit(term):
            continue
        for i in ins + upd:
            atom = variant_atom(pvb.def_term((i.site.bb, "T")))
            rep.ob(rule, (fn, "ok-after", i.stmt["verb"]), all_vals(g, site, ("is", atom, "ok")),
                   "add_version returns Ok only after its %s succeeded" % i.stmt["verb"], i.where())
    # ---- sqlite readers
    for mth, col in (("get_version_by_parent", "parent_version_id"), ("get_version", "version_id")):
        rb = W.impl_method("sqlite", mth)
        fnr = short_fn(rb)
        sel = [i for i in inst if i.owner.key == rb.key and i.stmt and i.stmt["verb"] == "SELECT"]
        rep.ob(rule, (fnr, "one-select"), len(sel) == 1 and sel[0].stmt["table"] == "versions", "%d SELECT(s) on versions" % len(sel), where(rb))
        # what the method returns: the query result, possibly with the Version taken out of a private row type first
        # (`row.map(|row| row.version)` on a `struct VersionRow { version: Version, .. }` built by the row mapper)
        ret_paths = []
        for site, term in exits(W, rb):
            if is_error_exit(term):
                continue
            t2 = term
            if t2[0] == "agg":
                mm = m(pat.adt("Result", "Ok", ("0", V("x"))), t2)
                t2 = mm["x"] if mm else t2
            path = []
            if t2[0] == "phi" and len(t2) == 4 and set(dict(t2[3])) == {"None", "Some"} and dict(t2[3])["None"] == ("unit",):
                t2 = dict(t2[3])["Some"]
                while t2[0] == "field":
                    path.append(t2[2])
                    t2 = t2[1]
                path.reverse()
            while t2[0] == "ok":
                t2 = t2[1]
            t2 = P.strip_ok_preserving(t2)
            okr = t2[0] == "call" and (t2[1].endswith("::get_version_impl") or t2[1] == "rusqlite::OptionalExtension::optional")
            ret_paths.append(tuple(path) if okr else None)
            rep.ob(rule, (fnr, "returns-query-result"), okr, "%s returns %s" % (mth, P.show(term)[:160]), where(rb), nontrivial=False)
        row_path = ret_paths[0] if ret_paths and all(p_ == ret_paths[0] for p_ in ret_paths) and ret_paths[0] is not None else ()
        for i in sel:
            w = dict((c, e) for c, e in i.stmt["where"] if c)
            e = w.get(col)
            got = i.param(e[1]) if e and e[0] == "param" else None
            rep.ob(rule, (fnr, "lookup-key", col), got is not None and m(stored_uuid(("param", 2, ANY)), got) is not None and set(w) == {col, "client_id"},
                   "%s looks up WHERE %s = %s (conjuncts: %s)" % (mth, col, P.show(got) if got else e, sorted(w)), i.where())
            # row -> Version field agreement
            if i.site.closure is not None:
                for site, term in exits(W, i.site.closure):
                    if is_error_exit(term):
                        continue
                    rowv = m(pat.adt("Result", "Ok", ("0", V("row"))), term)
                    rowv = rowv["row"] if rowv else None
                    for fld in row_path:
                        rowv = P.mk_field(rowv, fld) if rowv is not None and rowv[0] == "agg" else None
                    mm = m(pat.adt("Version", "Version", ("version_id", V("v")), ("parent_version_id", V("p")), ("history_segment", V("h"))), rowv) if rowv is not None else None
                    okf = False
                    if mm is not None:
                        def colof(t):
                            t2 = t
                            if t2[0] == "field" and t2[2] == "0":
                                t2 = t2[1]
                            if t2[0] == "ok":
                                t2 = t2[1]
                            if t2[0] == "call" and t2[1] == "rusqlite::row::Row::<'stmt>::get" and t2[3][1][0] == "const":
                                return t2[3][1][2]
                            return None
                        okf = (colof(mm["v"]), colof(mm["p"]), colof(mm["h"])) == ("version_id", "parent_version_id", "history_segment")
                    rep.ob(rule, (fnr, "row-to-Version"), okf, "row mapping builds %s; each Version field must come from the same-named column" % P.show(term)[:200], i.where())
            sel_cols = set(i.stmt["select"])
            rep.ob(rule, (fnr, "select-list"), {"version_id", "parent_version_id", "history_segment"} <= sel_cols or "*" in sel_cols,
                   "select list %s" % sorted(sel_cols), i.where(), nontrivial=False)
    # ---- in-memory writer
    mb = W.impl_method("inmemory", "add_version")
    fnm = short_fn(mb)
    ops, stores = E.inmem_summary(W, mb)
    cid = self_field("client_id")
    ci = [o for o in ops if o.logical == "children" and o.method == "insert"]
    vi = [o for o in ops if o.logical == "versions" and o.method == "insert"]
    rep.ob(rule, (fnm, "children.insert"), len(ci) == 1 and m(pat.tup(cid, ("param", 3, ANY)), ci[0].key) is not None and m(("param", 2, ANY), ci[0].value) is not None,
           "child index insert: key %s -> %s; must be (client, parent) -> new id" % (P.show(ci[0].key) if ci else None, P.show(ci[0].value) if ci else None), where(mb))
    wantv = pat.adt("Version", "Version", ("version_id", ("param", 2, ANY)), ("parent_version_id", ("param", 3, ANY)), ("history_segment", ("param", 4, ANY)))
    rep.ob(rule, (fnm, "versions.insert"), len(vi) == 1 and m(pat.tup(cid, ("param", 2, ANY)), vi[0].key) is not None and m(wantv, unmut(vi[0].value)) is not None,
           "version insert: key %s -> %s" % (P.show(vi[0].key) if vi else None, P.show(vi[0].value)[:120] if vi else None), where(mb))
    ls = [s for s in stores if s.target[0] == "field" and s.target[2] == "latest_version_id"]
    okl = len(ls) == 1 and m(("param", 2, ANY), ls[0].value) is not None and \
        m(("ok", call(E.HM + "get_mut", ("field", self_field("guard"), ANY), cid)), ls[0].target[1]) is not None
    # every Ok return has done all three (a success exit that skips the writes acknowledges a version that was not stored)
    gm = W.gea(mb)
    for site, term in exits(W, mb):
        if is_error_exit(term):
            continue
        skipped = [what for what, bbs in (("children.insert", [o.bb for o in ci]), ("versions.insert", [o.bb for o in vi]), ("latest store", [s.site[0] for s in ls]))
                   if not bbs or any(avoids_block_reaching(gm, b_, site[0], lambda v: True) for b_ in bbs)]
        rep.ob(rule, (fnm, "ok-after-all-writes"), not skipped, "an Ok return of the in-memory add_version can be reached without: %s" % (skipped or "nothing -- all writes are passed"),
               where(mb, line=exit_line(mb, site)))
    rep.ob(rule, (fnm, "latest-moved"), okl, "latest pointer store: %s := %s" % (P.show(ls[0].target) if ls else None, P.show(ls[0].value) if ls else None), where(mb))
    # ---- in-memory readers
    rb = W.impl_method("inmemory", "get_version_by_parent")
    ops, _ = E.inmem_summary(W, rb)
    cg = [o for o in ops if o.logical == "children" and o.method == "get"]
    vg = [o for o in ops if o.logical == "versions" and o.method == "get"]
    okc = len(cg) == 1 and m(pat.tup(cid, ("param", 2, ANY)), cg[0].key) is not None
    okv = len(vg) == 1 and okc and m(pat.tup(cid, ("ok", cg[0].term)), vg[0].key) is not None
    rep.ob(rule, (short_fn(rb), "child-then-version"), okc and okv,
           "child lookup key %s, then version lookup key %s" % (P.show(cg[0].key) if cg else None, P.show(vg[0].key) if vg else None), where(rb))
    rb2 = W.impl_method("inmemory", "get_version")
    ops2, _ = E.inmem_summary(W, rb2)
    vg2 = [o for o in ops2 if o.logical == "versions" and o.method == "get"]
    rep.ob(rule, (short_fn(rb2), "version-lookup"), len(vg2) == 1 and m(pat.tup(cid, ("param", 2, ANY)), vg2[0].key) is not None,
           "version lookup key %s" % (P.show(vg2[0].key) if vg2 else None), where(rb2))
    for b_, o_ in ((rb, vg), (rb2, vg2)):
        if not o_:
            continue
        hit, other = False, []
        for site, rt, val, kind in exit_kinds(W, b_, lambda t: "x"):
            if is_error_exit(rt):
                continue
            mm = m(pat.adt("Result", "Ok", ("0", V("x"))), rt)
            if mm is not None and is_lookup_result(mm["x"], o_[0].term):
                hit = True
            elif mm is None or m(pat.adt("Option", "None", Ellipsis), mm["x"]) is None:
                other.append(P.show(rt)[:100])
        rep.ob(rule, (short_fn(b_), "returns-looked-up-record"), hit and not other,
               "the looked-up Version is returned unchanged (cloned); the only other success value is None%s" % ("; also returns %s" % other[:2] if other else ""), where(b_))


# --------------------------------------------------------------------------- "latest" writers, counter bookkeeping
def latest_writers(rep, W, rule="C01.LATEST"):
    ss, un, uc, inst = sql_world(W)
    for i in inst:
        if i.stmt is None:
            continue
        cols = [c for c, e in i.stmt["writes"]]
        if "latest_version_id" in cols:
            mth = i.owner.deff.split("::")[-1]
            rep.ob(rule, ("sql", short_fn(i.owner), i.stmt["verb"]), mth in ("add_version", "new_client"),
                   "clients.latest_version_id is written by %s; only add_version and new_client may move the latest pointer" % mth, i.where())
    n = 0
    for mth in WD.ALL_METHODS:
        b = W.impl_method("inmemory", mth)
        ops, stores = E.inmem_summary(W, b)
        for s in stores:
            if s.target[0] == "field" and s.target[2] == "latest_version_id":
                n += 1
                rep.ob(rule, ("mem", short_fn(b), "store"), mth == "add_version", "latest_version_id stored in %s" % mth, where(b, line=s.line))
        for o in ops:
            if o.logical == "clients" and o.write and o.method != "get_mut":
                rep.ob(rule, ("mem", short_fn(b), "clients." + o.method), mth == "new_client" and o.method == "insert",
                       "clients map %s in %s; only new_client may insert a client record" % (o.method, mth), where(b, o.bb))
    rep.floor(rule, "in-memory latest stores", n, 1)


def c02_cnt(rep, W, rule="C02.CNT"):
    """versions-since counter: +1 per stored version iff a snapshot exists; set by set_snapshot; nothing else."""
    ss, un, uc, inst = sql_world(W)
    nw = 0
    for i in inst:
        if i.stmt is None:
            continue
        for c, e in i.stmt["writes"]:
            if c != "versions_since_snapshot":
                continue
            nw += 1
            mth = i.owner.deff.split("::")[-1]
            if mth == "add_version":
                rep.ob(rule, ("sql", "add_version", "increment"), e == ("colop", "versions_since_snapshot", "+", "1"),
                       "add_version sets versions_since_snapshot = %s; must be versions_since_snapshot + 1 (NULL-preserving: no snapshot, no count)" % (e,), i.where())
            elif mth == "set_snapshot":
                got = i.param(e[1]) if e[0] == "param" else None
                rep.ob(rule, ("sql", "set_snapshot", "from-argument"), got is not None and m(("field", ("param", 2, ANY), "versions_since"), got) is not None,
                       "set_snapshot stores versions_since_snapshot = %s; must be snapshot.versions_since" % (P.show(got) if got else e,), i.where())
            else:
                rep.fail(rule, ("sql", mth, "unexpected-writer"), "versions_since_snapshot written by %s" % mth, i.where())
    present = set(i.owner.deff.split("::")[-1] for i in inst if i.stmt and any(c == "versions_since_snapshot" for c, _ in i.stmt["writes"]))
    rep.ob(rule, ("sql", "add_version", "increment-present"), "add_version" in present,
           "sqlite add_version %s the versions-since counter" % ("updates" if "add_version" in present else "does NOT update"), where(W.impl_method("sqlite", "add_version")))
    rep.ob(rule, ("sql", "set_snapshot", "reset-present"), "set_snapshot" in present,
           "sqlite set_snapshot %s the versions-since counter" % ("stores" if "set_snapshot" in present else "does NOT store"), where(W.impl_method("sqlite", "set_snapshot")))
    mb = W.impl_method("inmemory", "add_version")
    ops, stores = E.inmem_summary(W, mb)
    g = W.gea(mb)
    cs = [s for s in stores if s.target[0] == "field" and s.target[2] == "versions_since"]
    okc = False
    if len(cs) == 1:
        v = cs[0].value
        if v[0] == "field" and v[2] == "0":
            v = v[1]
        okc = v[0] == "binop" and v[1] in ("AddWithOverflow", "Add") and v[2] == cs[0].target and m(pat.const(val=1), v[3]) is not None
        # the snapshot the counter belongs to is the client's own: target = ok(client.snapshot).versions_since
        snapopt = cs[0].target[1]
        okc = okc and snapopt[0] == "ok" and snapopt[1][0] == "field" and snapopt[1][2] == "snapshot"
    rep.ob(rule, ("mem", "add_version", "increment"), okc,
           "in-memory add_version counter store: %s := %s; must be snapshot.versions_since + 1 inside `if let Some(snapshot)`"
           % (P.show(cs[0].target) if cs else None, P.show(cs[0].value)[:120] if cs else None), where(mb))
    # the increment happens on every path to Ok where a snapshot exists
    if cs:
        sb_ = cs[0].site[0]
        snap_atom = ("VARIANT", cs[0].target[1][1])
        for site, term in exits(W, mb):
            if is_error_exit(term):
                continue
            passed = not avoids_block_reaching(g, sb_, site[0], lambda v: v.get(snap_atom) == frozenset(["ok"]))
            rep.ob(rule, ("mem", "add_version", "on-every-path-with-snapshot"), passed,
                   "every Ok return with an existing snapshot passes the counter increment", where(mb))
    for mth in WD.ALL_METHODS:
        if mth == "add_version":
            continue
        b = W.impl_method("inmemory", mth)
        _, st2 = E.inmem_summary(W, b)
        for s in st2:
            if s.target[0] == "field" and s.target[2] == "versions_since":
                rep.fail(rule, ("mem", mth, "unexpected-writer"), "versions_since written in %s" % mth, where(b, line=s.line))
    sb2 = W.impl_method("inmemory", "set_snapshot")
    _, st3 = E.inmem_summary(W, sb2)
    ssn = [s for s in st3 if s.target[0] == "field" and s.target[2] == "snapshot"]
    rep.ob(rule, ("mem", "set_snapshot", "from-argument"),
           len(ssn) == 1 and m(pat.adt("Option", "Some", ("0", ("param", 2, ANY))), ssn[0].value) is not None,
           "in-memory set_snapshot stores client.snapshot := %s; must be Some(snapshot argument)" % (P.show(ssn[0].value) if ssn else None), where(sb2))


def avoids_block_reaching(g, avoid_bb, exit_bb, cond):
    """True iff some product path from entry reaches a state at exit_bb satisfying cond(valuation)
    without passing block avoid_bb."""
    start = (0, frozenset())
    seen = {start}
    st = [start]
    while st:
        x = st.pop()
        if x[0] == exit_bb and cond(dict(x[1])):
            return True
        for y in g.edges.get(x, ()):
            if y[0] == avoid_bb or y in seen:
                continue
            seen.add(y)
            st.append(y)
    return False


# --------------------------------------------------------------------------- C03 extras
INTERIOR_MUT = ("Cell<", "RefCell<", "Mutex<", "RwLock<", "Atomic", "OnceCell<", "OnceLock<", "Lazy<", "UnsafeCell<")


def c03_nostate(rep, W, rule="C03.NOSTATE"):
    for name in ("server::Server", "api::ServerState", "server::ServerConfig", "WebServer"):
        a = W.prog.adt(name)
        if a is None:
            rep.fail(rule, (name, "anchor"), "struct %s not found" % name)
            continue
        bad = [(f["name"], f["ty"]) for v in a["variants"] for f in v["fields"] if any(x in f["ty"] for x in INTERIOR_MUT)]
        rep.ob(rule, (name, "no-interior-mutability"), not bad,
               "fields of %s with interior mutability (state shared between requests outside the storage): %s" % (name, bad or "none"),
               sample={"fields": [(f["name"], f["ty"]) for v in a["variants"] for f in v["fields"]]})
    rep.ob(rule, ("workspace", "no-statics"), not W.prog.statics, "static items: %s" % ([s["def"] for s in W.prog.statics] or "none"))
    tl = []
    for b in W.prog.bodies.values():
        for blk in b.blocks:
            for s in blk["stmts"]:
                if s["k"] == "assign" and s["rv"]["k"] == "threadlocal":
                    tl.append(b.deff)
    rep.ob(rule, ("workspace", "no-thread-locals"), not tl, "thread-local accesses: %s" % (tl or "none"))
    for opn in WD.OPS:
        b = W.op(opn)
        rep.ob(rule, (short_fn(b), "takes-&self"), b.locals[1]["ty"] == "&" + WD.SERVER_TY, "receiver type %s" % b.locals[1]["ty"], where(b), nontrivial=False)
    # no workspace code tunes the lock-wait budget
    bt = W.bodies_calling(lambda c: c.get("def", "").endswith("::busy_timeout") or c.get("def", "").endswith("::busy_handler"))
    rep.ob(rule, ("workspace", "default-busy-timeout"), not bt, "calls changing the SQLite busy timeout: %s" % ([b.deff for b, _, _ in bt] or "none"))


def c03_loop(rep, W, rule="C03.LOOP"):
    body = W.handler("add_version")
    fn = short_fn(body)
    g = W.gea(body)
    ops = sites_of(body, WD.op("add_version"))
    commits = sites_of(body, WD.tm("commit"))
    if len(ops) != 1 or len(commits) != 1:
        rep.fail(rule, (fn, "anchor"), "expected one Server::add_version call and one commit in the handler (found %d, %d)" % (len(ops), len(commits)), where(body))
        return
    opbb, cbb = ops[0][0], commits[0][0]
    pv = W.prov(body)
    catom = variant_atom(pv.def_term((cbb, "T")))
    exit_blocks = set(s[0] for s, _ in exits(W, body))
    # once the creation transaction is open, every path either propagates an error or re-enters the
    # whole operation: no response is produced from the creation block
    tsites = sites_of(body, WD.SERVER_TXN)
    err_blocks = set(s[0] for s, t in exits(W, body) if is_error_exit(t))
    starts = set()
    for tb, _ in tsites:
        for s_ in g.states_at_block(tb):
            starts |= g.edges.get(s_, set())
    seen = set()
    st = list(starts)
    escaped = None
    reenters = False
    while st:
        x = st.pop()
        if x in seen:
            continue
        seen.add(x)
        if x[0] == opbb:
            reenters = True
            continue
        if x[0] in exit_blocks:
            if x[0] not in err_blocks:
                escaped = x[0]
                break
            continue
        for y in g.edges.get(x, ()):
            st.append(y)
    rep.ob(rule, (fn, "retry-reenters-op"), bool(starts) and reenters and escaped is None,
           "after the creation block every non-error path re-enters Server::add_version (no response is produced from the creation block)",
           where(body, cbb))
    # the creation block is the only way round the loop
    succ = set()
    for s in g.states_at_block(opbb):
        succ |= g.edges.get(s, set())
    seen = set()
    st = list(succ)
    other = False
    gate = set(tb for tb, _ in tsites)
    while st:
        x = st.pop()
        if x in seen or x[0] in gate:
            continue
        seen.add(x)
        if x[0] == opbb:
            other = True
            break
        for y in g.edges.get(x, ()):
            st.append(y)
    rep.ob(rule, (fn, "single-retry-path"), not other, "the operation is re-run only through the client-creation transaction", where(body, opbb))
    # creation block is entered only under Err(NoSuchClient)
    opterm = pv.def_term((opbb, "T"))
    a1 = variant_atom(opterm)
    a2 = ("VARIANT", ("err", opterm))
    ncs = sites_of(body, WD.SERVER_TXN)
    for bb, t in ncs:
        f = ("and", ("is", a1, "err"), ("is", a2, "NoSuchClient"))
        rep.ob(rule, (fn, "creation-only-on-NoSuchClient"), all_vals(g, (bb, "T"), f),
               "the creation transaction is opened only when Server::add_version returned Err(NoSuchClient); offending: %s" % failing_vals(g, (bb, "T"), f)[:1],
               where(body, bb))
    rep.floor(rule, "creation-block txn sites", len(ncs), 1)


# =========================================================================== C08 decision tables
def av_kind(term):
    if is_error_exit(term):
        return "error"
    mm = m(pat.adt("Result", "Ok", ("0", pat.tup(V("res"), ANY))), term)
    if mm is None:
        return "other"
    if m(pat.adt("AddVersionResult", "ExpectedParentVersion", Ellipsis), mm["res"]) is not None:
        return "reject"
    if m(pat.adt("AddVersionResult", "Ok", Ellipsis), mm["res"]) is not None:
        return "accept"
    return "other"


def gcv_kind(term):
    if is_error_exit(term):
        return "error"
    mm = m(pat.adt("Result", "Ok", ("0", V("res"))), term)
    if mm is None:
        return "other"
    r = mm["res"]
    for k in ("Success", "NotFound", "Gone"):
        if m(pat.adt("GetVersionResult", k, Ellipsis), r) is not None:
            return k
    return "other"


def c08(rep, W, rule="C08"):
    av = W.op("add_version")
    gc = W.op("get_child_version")
    cas = s_cas(rep, W)
    if cas is None:
        return
    fn = short_fn(gc)
    g = W.gea(gc)
    pv = W.prov(gc)
    tinfo = txn_term_of(W, gc)
    if len(tinfo) != 1:
        rep.fail(rule, (fn, "txn"), "cannot identify the single transaction of get_child_version", where(gc))
        return
    txn = tinfo[0][2]
    client, _ = client_term(W, gc, txn)
    if client is None:
        rep.fail(rule, (fn, "client"), "get_child_version does not read the client record exactly once through its transaction", where(gc))
        return
    latest = ("field", client, "latest_version_id")
    parent = ("param", 3, ANY)
    a = find_eq_atom(g, latest, nil_const_pat())
    b = find_eq_atom(g, latest, parent)
    rep.ob(rule, (fn, "atom", "latest==NIL"), a is not None, "get_child_version compares client.latest_version_id with NIL_VERSION_ID", where(gc))
    rep.ob(rule, (fn, "atom", "parent==latest"), b is not None, "get_child_version compares the requested parent with client.latest_version_id", where(gc))
    lk = sites_of(gc, WD.tm("get_version_by_parent"))
    if a is None or b is None or len(lk) != 1:
        rep.fail(rule, (fn, "lookup"), "expected the two comparisons and exactly one get_version_by_parent lookup (found %d)" % len(lk), where(gc))
        return
    lkargs = pv.arg_terms(lk[0][0])
    rep.ob(rule, (fn, "lookup", "args"), unmut(lkargs[0]) == unmut(txn) and m(parent, lkargs[1]) is not None,
           "child lookup is get_version_by_parent(%s) on %s" % (P.show(lkargs[1]), P.show(lkargs[0])), where(gc, lk[0][0]))
    rec = ("ok", ("ok", pv.def_term((lk[0][0], "T"))))
    f = ("VARIANT", ("ok", pv.def_term((lk[0][0], "T"))))
    accept = ("or", ("is", a, True), ("is", b, True))
    reject = ("and", ("is", a, False), ("is", b, False))
    kinds = exit_kinds(W, gc, gcv_kind)
    seen_k = set()
    for site, rt, val, kind in kinds:
        seen_k.add(kind)
        ln = exit_line(gc, site)
        if kind == "Success":
            mm = m(pat.adt("Result", "Ok", ("0", pat.adt("GetVersionResult", "Success", ("version_id", V("v")), ("parent_version_id", V("p")), ("history_segment", V("h"))))), rt)
            okf = mm is not None and (mm["v"], mm["p"], mm["h"]) == (("field", rec, "version_id"), ("field", rec, "parent_version_id"), ("field", rec, "history_segment"))
            rep.ob(rule, (fn, "i", "found-fields"), okf, "Success carries %s; must be the three fields of the looked-up record" % P.show(rt)[:200], where(gc, line=ln))
            rep.ob(rule, (fn, "i", "found-iff-child"), G.ev(("is", f, "ok"), val) is True, "Success is returned only when a child exists", where(gc, line=ln))
        elif kind == "NotFound":
            rep.ob(rule, (fn, "i", "notfound-guard"), G.ev(("and", ("is", f, "err"), accept), val) is True,
                   "NotFound is returned only when no child exists and (latest==NIL or parent==latest); valuation %s"
                   % G.show_val({k: v for k, v in val.items() if k in (a, b, f)}), where(gc, line=ln))
        elif kind == "Gone":
            rep.ob(rule, (fn, "i", "gone-guard"), G.ev(("and", ("is", f, "err"), reject), val) is True,
                   "Gone is returned only when no child exists and latest!=NIL and parent!=latest; valuation %s"
                   % G.show_val({k: v for k, v in val.items() if k in (a, b, f)}), where(gc, line=ln))
        elif kind == "other":
            rep.fail(rule, (fn, "i", "unknown-outcome"), "non-error exit that is not Success/NotFound/Gone: %s" % P.show(rt)[:160], where(gc, line=ln))
    for k in ("Success", "NotFound", "Gone"):
        rep.ob(rule, (fn, "i", "outcome-present", k), k in seen_k, "outcome %s is %s" % (k, "produced" if k in seen_k else "never produced"), where(gc), nontrivial=False)
    # (iii) exhaustive equivalence over the four assignments of (latest==NIL, parent==latest)
    avk = exit_kinds(W, av, av_kind)
    rows = []
    for va in (True, False):
        for vb in (True, False):
            asg_av = {cas["a"]: va, cas["b"]: vb}
            asg_gc = {a: va, b: vb, f: "err"}
            k_av = sorted(set(k for _, _, val, k in avk if k != "error" and compatible(val, asg_av)))
            k_gc = sorted(set(k for _, _, val, k in kinds if k != "error" and compatible(val, asg_gc)))
            want_gc = {"accept": "NotFound", "reject": "Gone"}
            okrow = len(k_av) == 1 and len(k_gc) == 1 and want_gc.get(k_av[0]) == k_gc[0]
            rows.append({"latest==NIL": va, "parent==latest": vb, "AddVersion": k_av, "GetChildVersion(no child)": k_gc})
            rep.ob(rule, ("equivalence", "latest==NIL:%s" % va, "parent==latest:%s" % vb), okrow,
                   "AddVersion -> %s, GetChildVersion without child -> %s; required: accept<->NotFound, reject<->Gone" % (k_av, k_gc),
                   sample=rows[-1])
    rep.extra["decision_table"] = rows
    rep.exhaustive = True
    # (iv) unknown client
    for body in (av, gc):
        gg = W.gea(body)
        ti = txn_term_of(W, body)[0][2]
        cl, gcbb = client_term(W, body, ti)
        atom = ("VARIANT", cl[1])
        hit, other = False, []
        for site, rt, val, kind in exit_kinds(W, body, lambda t: "x"):
            if val.get(atom) != frozenset(["err"]):
                continue
            # `?` on ok_or(NoSuchClient), or an explicit `return Err(ServerError::NoSuchClient)` in a let-else / match arm
            nsc = is_error_exit(rt) and any(x[0] == "agg" and isinstance(x[1], tuple) and x[1][0] == "adt" and x[1][1].endswith("::ServerError")
                                            and x[1][2] == "NoSuchClient" for x in P.walk(rt))
            if nsc:
                hit = True
            else:
                other.append(P.show(rt)[:80])
        rep.ob(rule, (short_fn(body), "iv", "absent-client-is-NoSuchClient"), hit and not other,
               "a missing client record leads to the NoSuchClient error return%s" % ("; but also to %s" % other[:2] if other else ""), where(body))


# =========================================================================== C18
def c18_ops(rep, W, rule="C18.OPS"):
    for opn in ("get_child_version", "get_snapshot"):
        s_readonly_op(rep, W, opn)
    # add_version: the reject exit has no write/commit before it
    av = W.op("add_version")
    g = W.gea(av)
    wsites = [bb for mth in WD.WRITE_METHODS + (WD.COMMIT_METHOD,) for bb, _ in sites_of(av, WD.tm(mth))]
    n = 0
    for site, term in exits(W, av):
        if av_kind(term) == "reject":
            n += 1
            bad = [av.line_of_block(w) for w in wsites if w == site[0] or g.may_follow(w, site[0])]
            rep.ob(rule, (short_fn(av), "reject-write-free#%d" % n), not bad,
                   "no write-class or commit call precedes the conflict outcome; preceding write sites at lines %s" % (bad or "none"),
                   where(av, line=exit_line(av, site)))
    rep.floor(rule, "add_version reject exits", n, 1)
    # add_snapshot: every non-error exit either follows set_snapshot (the accept exit) or has no write before it
    sn = W.op("add_snapshot")
    g2 = W.gea(sn)
    ws = [bb for bb, _ in sites_of(sn, WD.tm("set_snapshot"))]
    others = [bb for mth in ("new_client", "add_version") for bb, _ in sites_of(sn, WD.tm(mth))]
    rep.ob(rule, (short_fn(sn), "writers"), len(ws) == 1 and not others, "add_snapshot write sites: set_snapshot x%d, others x%d" % (len(ws), len(others)), where(sn))
    nacc = ndec = 0
    commits = [bb for bb, _ in sites_of(sn, WD.tm("commit"))]
    for site, term in exits(W, sn):
        if is_error_exit(term):
            continue
        after = [w for w in ws + commits if g2.may_follow(w, site[0]) or w == site[0]]
        if after:
            nacc += 1
            rep.ob(rule, (short_fn(sn), "accept-exit-through-write#%d" % nacc), all(g2.must_precede(w, site[0]) for w in ws),
                   "the exit that follows set_snapshot is reached only through it", where(sn, line=exit_line(sn, site)))
        else:
            ndec += 1
            rep.ob(rule, (short_fn(sn), "decline-write-free#%d" % ndec), True, "decline exit with no write-class/commit call on any path to it",
                   where(sn, line=exit_line(sn, site)))
    rep.floor(rule, "add_snapshot decline exits", ndec, 1)
    rep.floor(rule, "add_snapshot accept exits", nacc, 1)
    # exactly one exit follows the write
    rep.ob(rule, (short_fn(sn), "single-accept-exit"), nacc == 1, "%d exit(s) follow set_snapshot" % nacc, where(sn))


# =========================================================================== C10
def closure_result(W, closure_term, param_terms):
    """Value returned by a closure aggregate applied to arguments (single-exit closures only):
    the closure's exit term with upvars / parameters substituted."""
    if not (closure_term[0] == "agg" and isinstance(closure_term[1], tuple) and closure_term[1][0] == "closure"):
        return None
    cb = W.prog.bodies.get(closure_term[1][1])
    if cb is None:
        return None
    ex = exits(W, cb)
    if len(ex) != 1:
        return None
    upv = {int(n): v for n, v in closure_term[2]}
    mapping = {i + 2: a for i, a in enumerate(param_terms)}

    def sub(t):
        if not isinstance(t, tuple) or not t:
            return t
        if t[0] == "upvar":
            return upv.get(t[1], t)
        if t[0] == "param":
            return mapping.get(t[1], t)
        if t[0] in ("ok", "err"):
            return (t[0], sub(t[1]))
        if t[0] == "field":
            return P.mk_field(sub(t[1]), t[2])
        if t[0] == "variant":
            return ("variant", sub(t[1])) + tuple(t[2:])
        if t[0] == "call":
            return (t[0], t[1], t[2], tuple(sub(a) for a in t[3]))
        if t[0] == "agg":
            return (t[0], t[1], tuple((n, sub(v)) for n, v in t[2]))
        return t
    return sub(ex[0][1])


def is_lookup_result(x, lookup):
    """x denotes the looked-up Option `lookup` (a map `get`) handed on unchanged: the term itself (`.cloned()` is an identity
    transport), or the re-wrapped `Some(v.clone())` of its payload written as an explicit match arm."""
    if x == lookup:
        return True
    mm = m(pat.adt("Option", "Some", ("0", V("p"))), x)
    return mm is not None and mm["p"] == ("ok", lookup)


def option_map_of(g, pv, t, scrut):
    """t is a local holding `scrut.map(f)` in canonical form (None when scrut is None, Some(payload) when it is Some,
    however that was spelled): returns the Some payload term, else None."""
    if t[0] != "phi" or len(t) != 4:
        return None
    sm = dict(t[3])
    if set(sm) != {"None", "Some"}:
        return None
    atom = ("VARIANT", scrut)
    want_of = {}
    for site in pv.defsites.get(t[1], []):
        dt = pv.def_term(site)       # the literal may have been built in a temporary and moved in
        if not (dt[0] == "agg" and isinstance(dt[1], tuple) and dt[1][0] == "adt" and dt[1][2] in ("Some", "None")):
            return None
        want_of[site] = "ok" if dt[1][2] == "Some" else "err"
    # (a) every definition sits on the matching branch of the test of scrut (`scrut.map(..)`, `match scrut {..}`), or
    # (b) `let mut x = None; if let Some(s) = scrut { x = Some(..) }`: wherever x is TESTED, the definition that reaches is the
    #     one matching scrut's variant
    ok_a = True
    for site, want in want_of.items():
        vals = g.vals_at(site)
        if not vals or any(v.get(atom) != frozenset([want]) for v in vals):
            ok_a = False
    if ok_a:
        return sm["Some"]
    uses = 0
    for a, bbs in g.atoms.items():
        if not any(x[0] == "phi" and x[1] == t[1] for part in a[1:] if isinstance(part, tuple) for x in P.walk(part)):
            continue
        for bb in bbs:
            for st_ in g.states_at_block(bb):
                val = dict(st_[1])
                sel = val.get(("def", t[1]))
                if sel is None or len(sel) != 1 or next(iter(sel)) not in want_of:
                    return None
                uses += 1
                if val.get(atom) != frozenset([want_of[next(iter(sel))]]):
                    return None
    return sm["Some"] if uses else None


def c10(rep, W, rule="C10"):
    body = W.op("add_snapshot")
    fn = short_fn(body)
    g = W.gea(body)
    pv = W.prov(body)
    tinfo = txn_term_of(W, body)
    if len(tinfo) != 1:
        rep.fail(rule, (fn, "txn"), "cannot identify the single transaction of add_snapshot", where(body))
        return
    txn = tinfo[0][2]
    client, _ = client_term(W, body, txn)
    if client is None:
        rep.fail(rule, (fn, "client"), "add_snapshot does not read the client record exactly once through its transaction", where(body))
        return
    v = ("param", 3, ANY)
    # SNAP: Option::map(client.snapshot, |s| s.version_id)
    csnap = ("field", client, "snapshot")
    snap_terms = [x for a in g.atoms for part in a[1:] if isinstance(part, tuple) for x in P.walk(part)
                  if x[0] == "phi" and len(x) == 4 and option_map_of(g, pv, x, csnap) is not None]
    snap_terms = list(set(snap_terms))
    SNAPVER = ("field", ("ok", csnap), "version_id")
    hasS = ("VARIANT", csnap)
    oks = len(snap_terms) == 1 and option_map_of(g, pv, snap_terms[0], csnap) == SNAPVER
    SNAP = snap_terms[0] if oks else None
    # The comparison `Some(x) == existing snapshot's version` has two spellings in the product: the comparison of two
    # Option values (legacy atom EQ(Some(x), SNAP)), or -- when the Option was bound to a local and is read under the
    # valuation, or the code says `if let Some(s) = &client.snapshot { s.version_id == x }` / `is_some_and(..)` -- the test
    # of client.snapshot's variant plus EQ(x, snapshot.version_id).  Both are accepted; T / F are "the comparison holds" /
    # "does not hold" in a valuation.
    some = lambda p_: pat.adt("Option", "Some", ("0", p_))  # noqa: E731

    def opt_eq(xpat):
        leg = find_eq_atom(g, some(xpat), SNAP) if SNAP is not None else None
        red = find_eq_atom(g, xpat, SNAPVER)
        if leg is None and red is None:
            return None
        T, F = ["or"], ["or"]
        if leg is not None:
            T.append(("is", leg, True))
            F.append(("is", leg, False))
        if red is not None:
            T.append(("and", ("is", hasS, "ok"), ("is", red, True)))
            F.append(("is", red, False))
        F.append(("is", hasS, "err"))
        return {"T": tuple(T), "F": tuple(F), "atoms": [a_ for a_ in (leg, red) if a_ is not None]}
    # loop variables
    vids = [l for l in pv.phi_locals if body.locals[l]["ty"] == "uuid::Uuid" and body.locals[l]["user"]]
    if len(vids) != 1:
        rep.fail(rule, (fn, "loop-variables"), "expected one walking id variable (found %d)" % len(vids), where(body))
        return
    vid_l = vids[0]
    VID = ("phi", vid_l, ANY)
    e = opt_eq(v)
    mt = find_eq_atom(g, v, VID)
    z = find_eq_atom(g, v, nil_const_pat())
    s = opt_eq(VID)
    n = find_eq_atom(g, VID, nil_const_pat())
    rep.ob(rule, (fn, "snapshot-version"), e is not None and s is not None,
           "the requested id and every walked id are compared with the existing snapshot's version (None when the client has no snapshot, Some(snapshot.version_id) otherwise)", where(body))
    gvs = sites_of(body, WD.tm("get_version"))
    names = {"G0 Some(v)==snapshot": e, "G1 vid==v": mt, "G1 v!=NIL": z, "G2 Some(vid)==snapshot": s, "G3 vid==NIL": n}
    for nm, a in names.items():
        rep.ob(rule, (fn, "atom", nm), a is not None, "test %s %s" % (nm, "present" if a else "NOT FOUND"), where(body))
    rep.ob(rule, (fn, "atom", "G4 parent lookup"), len(gvs) == 1, "%d get_version call(s)" % len(gvs), where(body))
    if None in names.values() or len(gvs) != 1:
        return
    gv_bb = gvs[0][0]
    gva = pv.arg_terms(gv_bb)
    rep.ob(rule, (fn, "G4", "lookup-args"), unmut(gva[0]) == unmut(txn) and m(VID, gva[1]) is not None, "parent link read via get_version(%s) on %s" % (P.show(gva[1]), P.show(gva[0])), where(body, gv_bb))
    gatom = ("VARIANT", ("ok", pv.def_term((gv_bb, "T"))))
    # C10.N (bounded window): the product analysis propagates constants, so a walk governed by a counter with a constant start
    # and constant steps (a `search_len -= 1` counter, a `for _ in (0..N).rev()` range, ...) is unrolled whatever its spelling.
    # Count, over all product paths, how often the accept test `vid == v` is evaluated.
    accept_bbs = set(g.atoms.get(mt, []))
    CAP = 12
    start = (0, frozenset())
    best = {}                 # product state -> set of visit counts with which it is reached
    work = [(start, 1 if start[0] in accept_bbs else 0)]
    while work:
        st_, c_ = work.pop()
        if c_ in best.setdefault(st_, set()):
            continue
        best[st_].add(c_)
        for y in g.edges.get(st_, ()):
            c2 = min(CAP, c_ + (1 if y[0] in accept_bbs else 0))
            work.append((y, c2))
    max_tests = max((max(cs) for st_, cs in best.items() if st_[0] in accept_bbs), default=0)
    rep.ob(rule, (fn, "N", "window-size"), max_tests == 5,
           "on any path the accept test `walked id == requested id` is evaluated at most %s times%s; the protocol says the latest version and four ancestors (five)"
           % (max_tests if max_tests < CAP else "%d+" % CAP, " (no constant bound found: the walk is not bounded by a constant counter)" if max_tests >= CAP else ""),
           where(body), sample={"accept_tests": max_tests})
    # C10.W
    ss_ = sites_of(body, WD.tm("set_snapshot"))
    if len(ss_) != 1:
        rep.fail(rule, (fn, "W", "single-writer"), "%d set_snapshot sites" % len(ss_), where(body))
        return
    wbb = ss_[0][0]
    fW = ("and", e["F"], ("is", mt, True), ("is", z, False))
    rep.ob(rule, (fn, "W", "guard"), all_vals(g, (wbb, "T"), fW),
           "set_snapshot is reached only when v is not the current snapshot, v equals the walked id and v != NIL; offending: %s" % failing_vals(g, (wbb, "T"), fW)[:1], where(body, wbb))
    wa = pv.arg_terms(wbb)
    wantS = pat.adt("Snapshot", "Snapshot", ("version_id", v), ("timestamp", call("chrono::offset::utc::Utc::now")), ("versions_since", pat.const(val=0)))
    rep.ob(rule, (fn, "W", "snapshot-record"), unmut(wa[0]) == unmut(txn) and m(wantS, wa[1]) is not None,
           "stored record is %s; must be {version_id: v, timestamp: now, versions_since: 0}" % P.show(wa[1]), where(body, wbb))
    rep.ob(rule, (fn, "W", "snapshot-bytes"), m(("param", 4, ANY), wa[2]) is not None, "stored bytes are %s; must be the submitted data" % P.show(wa[2]), where(body, wbb))
    # C10.ITER: the single in-loop assignment of vid
    vdefs = pv.phi_alternatives(vid_l)
    rec = ("ok", ("ok", pv.def_term((gv_bb, "T"))))
    init_v = [t for sdef, t in vdefs if t == ("field", client, "latest_version_id")]

    def _is_step(sdef, t):
        if t == ("field", rec, "parent_version_id"):
            return True
        # the record may have been bound to a local first (`let parent = ..; match parent`): resolve per valuation
        if sdef[0] == "param" or not P.phi_locals(t):
            return False
        vals_ = g.vals_at(sdef)

        def _same_record(r):
            # field(ok(ok(get_version@<the one lookup site>(..))), parent_version_id); the call's own arguments may have
            # been resolved further (the walked id), so compare by call site
            return (r[0] == "field" and r[2] == "parent_version_id" and r[1][0] == "ok" and r[1][1][0] == "ok"
                    and r[1][1][1][0] == "call" and r[1][1][1][1] == WD.tm("get_version") and r[1][1][1][2] == gv_bb)
        return bool(vals_) and all(_same_record(g.resolve_phis(t, v_)) for v_ in vals_)
    step_v = [(sdef, t) for sdef, t in vdefs if _is_step(sdef, t)]
    rep.ob(rule, (fn, "ITER", "vid-defs"), len(vdefs) == 2 and len(init_v) == 1 and len(step_v) == 1,
           "walk variable definitions: %s; must be {client.latest_version_id, parent link of the version just read}" % [P.show(t) for _, t in vdefs], where(body))
    if len(step_v) != 1:
        return
    vsite = step_v[0][0]
    cont = ("and", ("or", ("is", mt, False), ("is", z, True)), s["F"], ("is", n, False), ("is", gatom, "ok"))
    rep.ob(rule, (fn, "ITER", "continue-conditions"), all_vals(g, vsite, cont),
           "the walk advances only when: not accepted, vid is not the snapshot version, vid != NIL, version found; offending: %s"
           % failing_vals(g, vsite, cont)[:1], where(body, vsite[0]))
    # the newer-snapshot test is evaluated on every id the accept test is evaluated on, before the walk advances
    s_bbs = set(bb_ for a_ in s["atoms"] for bb_ in g.atoms.get(a_, []))
    okorder = True
    for st_ in g.states_at_block(vsite[0]):
        okorder = okorder and G.ev(("or", s["T"], s["F"]), dict(st_[1])) is True
    rep.ob(rule, (fn, "ITER", "accept-and-G2-before-step"), okorder and bool(s_bbs),
           "the accept test and the newer-snapshot test are evaluated on the current id before the walk moves to its parent", where(body, vsite[0]))
    # C10.D: every non-error exit is Ok(()); decline exits are exactly under a decline condition
    okunit = pat.adt("Result", "Ok", ("0", ("agg", "tuple", ())))
    # (z: the requested id is NIL, which is never acceptable -- declining it is right at any point of the walk)
    decl = ("or", e["T"], s["T"], ("is", n, True), ("is", gatom, "err"), ("is", z, True))
    exit_blocks = {}
    nd = 0
    for site, term in exits(W, body):
        if is_error_exit(term):
            continue
        rep.ob(rule, (fn, "D", "ok-unit#%d" % nd), m(okunit, term) is not None, "non-error exit returns %s; the client is told success either way" % P.show(term), where(body, line=exit_line(body, site)), nontrivial=False)
        if site[0] == wbb or g.may_follow(wbb, site[0]):
            continue
        nd += 1
        # "window exhausted" has no atom of its own (the counter is folded): it is the exit reached with the full number of
        # accept tests behind it
        bad_ = []
        for st_, cs in best.items():
            if st_[0] != site[0]:
                continue
            val_ = dict(st_[1])
            if G.ev(decl, val_) is True:
                continue
            if cs and min(cs) >= 5:
                continue
            bad_.append(G.show_val({k_: v_ for k_, v_ in val_.items() if k_ in formula_atoms(decl)}) + " after %s accept test(s)" % sorted(cs))
        rep.ob(rule, (fn, "D", "decline-condition#%d" % nd), not bad_,
               "a decline exit is taken only under: already the snapshot / newer snapshot in window / window exhausted / chain start reached / version missing; offending: %s"
               % bad_[:1], where(body, line=exit_line(body, site)))
    rep.floor(rule, "decline exits", nd, 1, where(body))
    # a version missing from the chain ("should not happen") is a quiet decline like the others: the client is told success,
    # never an error -- every exit reachable while the parent lookup reported "no such version" is the unit success
    miss_bad = []
    nmiss = 0
    for site, rt, val, kind in exit_kinds(W, body, lambda t: "x"):
        if val.get(gatom) != frozenset(["err"]):
            continue
        nmiss += 1
        if is_error_exit(rt) or m(okunit, rt) is None:
            miss_bad.append("line %d returns %s" % (exit_line(body, site), P.show(rt)[:80]))
    rep.ob(rule, (fn, "D", "missing-version-is-a-quiet-decline"), nmiss >= 1 and not miss_bad,
           "when the walked version is not stored the operation declines with Ok(()) (%d such exit(s))%s" % (nmiss, "; but: %s" % miss_bad[:2] if miss_bad else ""), where(body))


# =========================================================================== C11
def c11(rep, W, rule="C11"):
    ss, un, uc, inst = sql_world(W)
    s_okafter(rep, W)
    # ---- WRITE (sqlite)
    sb = W.impl_method("sqlite", "set_snapshot")
    fn = short_fn(sb)
    mine = [i for i in inst if i.owner.key == sb.key and i.stmt]
    rep.ob(rule + ".WRITE", (fn, "single-statement"), len(mine) == 1 and mine[0].stmt["verb"] == "UPDATE" and mine[0].stmt["table"] == "clients",
           "set_snapshot issues %s; id, timestamp, counter and bytes must be written by ONE statement" % [(i.stmt["verb"], i.stmt["table"]) for i in mine], where(sb))
    want = {"snapshot_version_id": stored_uuid(("field", ("param", 2, ANY), "version_id")),
            "snapshot_timestamp": call("chrono::datetime::DateTime::<Tz>::timestamp", ("field", ("param", 2, ANY), "timestamp")),
            "versions_since_snapshot": ("field", ("param", 2, ANY), "versions_since"),
            "snapshot": ("param", 3, ANY)}
    for i in mine[:1]:
        wcols = [c for c, _ in i.stmt["where"]]
        rep.ob(rule + ".WRITE", (fn, "unconditional-for-this-client"), i.stmt["where_simple"] and wcols == ["client_id"],
               "the UPDATE's WHERE clause is %s; it must be exactly `client_id = ?`: any further condition can make an accepted snapshot silently "
               "not stored (0 rows updated is not an error)" % ([(c, str(e)) for c, e in i.stmt["where"]],), i.where())
        cols = dict(i.stmt["writes"])
        for col, p_ in want.items():
            ex_ = cols.get(col)
            got = i.param(ex_[1]) if ex_ and ex_[0] == "param" else None
            rep.ob(rule + ".WRITE", (fn, "column", col), got is not None and m(p_, got) is not None,
                   "column clients.%s is bound to %s" % (col, P.show(got) if got else ex_), i.where())
    for i in inst:
        if i.stmt is None or i.owner.key == sb.key:
            continue
        w = [c for c, _ in i.stmt["writes"] if c in ("snapshot_version_id", "snapshot", "snapshot_timestamp")]
        if w:
            rep.fail(rule + ".WRITE", ("sql", short_fn(i.owner), "other-writer"), "columns %s written outside set_snapshot" % w, i.where())
    # ---- WRITE (in-memory)
    mb = W.impl_method("inmemory", "set_snapshot")
    ops, stores = E.inmem_summary(W, mb)
    di = [o for o in ops if o.logical == "snapshots" and o.method == "insert"]
    st_ = [s for s in stores if s.target[0] == "field" and s.target[2] == "snapshot"]
    rep.ob(rule + ".WRITE", (short_fn(mb), "meta+data-together"),
           len(di) == 1 and len(st_) == 1 and m(("param", 3, ANY), di[0].value) is not None and m(pat.adt("Option", "Some", ("0", ("param", 2, ANY))), st_[0].value) is not None,
           "in-memory set_snapshot stores metadata := %s and data := %s in the same method" % (P.show(st_[0].value) if st_ else None, P.show(di[0].value) if di else None), where(mb))
    if di and st_:
        gm = W.gea(mb)
        for site, term in exits(W, mb):
            if is_error_exit(term):
                continue
            okb = gm.must_precede(di[0].bb, site[0]) and gm.must_precede(st_[0].site[0], site[0])
            rep.ob(rule + ".WRITE", (short_fn(mb), "ok-after-both"), okb, "Ok is returned only after both the metadata and the data were stored", where(mb))
    # ---- READ (Server::get_snapshot)
    body = W.op("get_snapshot")
    fnb = short_fn(body)
    g = W.gea(body)
    pv = W.prov(body)
    txn = txn_term_of(W, body)[0][2]
    client, _ = client_term(W, body, txn)
    gsd = sites_of(body, WD.tm("get_snapshot_data"))
    if client is None or len(gsd) != 1:
        rep.fail(rule + ".READ", (fnb, "anchor"), "get_snapshot must read the client once and call get_snapshot_data once", where(body))
        return
    snapid = ("field", ("ok", ("field", client, "snapshot")), "version_id")
    ga = pv.arg_terms(gsd[0][0])
    rep.ob(rule + ".READ", (fnb, "data-for-stored-id"), unmut(ga[0]) == unmut(txn) and ga[1] == snapid,
           "snapshot bytes are fetched with get_snapshot_data(%s) on %s; must be the id in the client record read by the same transaction" % (P.show(ga[1]), P.show(ga[0])), where(body, gsd[0][0]))
    data_opt = ("ok", pv.def_term((gsd[0][0], "T")))
    nfound = 0
    sa = ("VARIANT", ("field", client, "snapshot"))
    da = ("VARIANT", data_opt)
    for site, rt, val, kind in exit_kinds(W, body, lambda t: "x"):
        if is_error_exit(rt):
            continue
        mo = m(pat.adt("Result", "Ok", ("0", V("x"))), rt)
        x = mo["x"] if mo else None
        ms = m(pat.adt("Option", "Some", ("0", V("p"))), x) if x is not None else None
        if ms is not None:
            nfound += 1
            okp = ms["p"] == pat_tuple(snapid, ("ok", data_opt)) and val.get(sa) == frozenset(["ok"]) and val.get(da) == frozenset(["ok"])
            rep.ob(rule + ".READ", (fnb, "pair-from-same-record"), okp,
                   "found-outcome is Some(%s); must pair the record's own version id with the bytes fetched for it" % P.show(ms["p"])[:160],
                   where(body, line=exit_line(body, site)))
        elif x is not None and m(pat.adt("Option", "None", Ellipsis), x) is not None:
            rep.ob(rule + ".READ", (fnb, "none-iff-no-snapshot"), val.get(sa) == frozenset(["err"]) or val.get(da) == frozenset(["err"]),
                   "None is returned only when the client record has no snapshot (or the back end holds no bytes for it)", where(body, line=exit_line(body, site)))
        else:
            rep.fail(rule + ".READ", (fnb, "unknown-outcome"), "unrecognised non-error outcome %s" % P.show(rt)[:120], where(body, line=exit_line(body, site)))
    rep.floor(rule + ".READ", "get_snapshot found-outcomes", nfound, 1, where(body))
    # ---- cross-check in both back ends
    sq = W.impl_method("sqlite", "get_snapshot_data")
    sel = [i for i in inst if i.owner.key == sq.key and i.stmt and i.stmt["verb"] == "SELECT"]
    rep.ob(rule + ".READ", (short_fn(sq), "one-select-both-columns"), len(sel) == 1 and {"snapshot", "snapshot_version_id"} <= set(sel[0].stmt["select"]),
           "get_snapshot_data reads %s in one SELECT" % (sel[0].stmt["select"] if sel else None), where(sq))
    pvs = W.prov(sq)
    # the tuple handed to the checking closure is (snapshot_version_id column, snapshot column)
    chk = [b for b in W.prog.closures_of(sq) if any(a[0] == "EQ" for a in W.gea(b).atoms)]
    rowc = sel[0].site.closure if sel else None
    rowmap = {}     # field of the row value (tuple index or struct field name) -> column it is read from
    if rowc is not None:
        for site, term in exits(W, rowc):
            mm = m(pat.adt("Result", "Ok", ("0", V("row"))), term)
            if mm is not None and mm["row"][0] == "agg":
                sl = sel[0].stmt["select"] if sel else []
                for fname_, fv in mm["row"][2]:
                    c_ = _col_of(fv)
                    rowmap[fname_] = sl[c_] if isinstance(c_, int) and not isinstance(c_, bool) and 0 <= c_ < len(sl) else c_
    okrow = sorted(v for v in rowmap.values() if v) == ["snapshot", "snapshot_version_id"] and len(rowmap) == 2
    rep.ob(rule + ".READ", (short_fn(sq), "row-tuple"), okrow, "row mapper yields the pair (snapshot_version_id, snapshot): %s" % rowmap, where(sq))
    def _req(side):
        """the requested id (method parameter 2), bare or wrapped in Some(..)"""
        return m(("param", 2, ANY), side) is not None or m(pat.adt("Option", "Some", ("0", ("param", 2, ANY))), side) is not None

    # sqlite: every exit that hands out bytes does so under `stored id == requested id`, and the bytes are the other half of
    # the very row whose id was compared (however the check is spelled: closure + transpose, let-else + bail, match)
    gs = W.gea(sq)
    eqs_s = [a for a in gs.atoms if a[0] == "EQ" and (_req(a[1]) or _req(a[2]))]
    nbytes = 0
    okchk = bool(eqs_s)
    for site, rt, val, kind in exit_kinds(W, sq, lambda t: "x"):
        if is_error_exit(rt):
            continue
        mo = m(pat.adt("Result", "Ok", ("0", pat.adt("Option", "Some", ("0", V("d"))))), rt)
        if mo is None:
            if m(pat.adt("Result", "Ok", ("0", pat.adt("Option", "None", Ellipsis))), rt) is None:
                okchk = False      # an outcome the rule cannot read
            continue
        nbytes += 1
        good = False
        for a in eqs_s:
            other = a[2] if _req(a[1]) else a[1]
            d_ = mo["d"]
            if val.get(a) == frozenset([True]) and other[0] == "field" and d_[0] == "field" and d_[1] == other[1] \
                    and rowmap.get(other[2]) == "snapshot_version_id" and rowmap.get(d_[2]) == "snapshot":
                good = True
        okchk = okchk and good
    okchk = okchk and nbytes >= 1
    rep.ob(rule + ".READ", (short_fn(sq), "cross-check"), okchk,
           "bytes are returned only when the stored snapshot_version_id equals the requested id (error otherwise)", where(sq))
    im = W.impl_method("inmemory", "get_snapshot_data")
    gi = W.gea(im)
    eqs = [a for a in gi.atoms if a[0] == "EQ" and (_req(a[1]) or _req(a[2]))]
    okim = bool(eqs)
    nim = 0
    for site, rt, val, kind in exit_kinds(W, im, lambda t: "x"):
        if is_error_exit(rt):
            continue
        nim += 1
        okim = okim and any(val.get(a) == frozenset([True]) for a in eqs)
    okim = okim and nim >= 1
    rep.ob(rule + ".READ", (short_fn(im), "cross-check"), okim, "in-memory: data is returned only when the requested id equals the stored snapshot version", where(im))
    # ---- META: get_client column <-> field agreement
    gc = W.impl_method("sqlite", "get_client")
    selc = [i for i in inst if i.owner.key == gc.key and i.stmt and i.stmt["verb"] == "SELECT"]
    if len(selc) != 1 or selc[0].site.closure is None:
        rep.fail(rule + ".META", (short_fn(gc), "anchor"), "get_client must issue exactly one SELECT with a row closure", where(gc))
        return
    cl = selc[0].site.closure
    sel_list = selc[0].stmt["select"]
    colmap = {}
    for key, ty, bb, term in selc[0].site.rows:
        colmap[term] = sel_list[key] if isinstance(key, int) and key < len(sel_list) else key
    gcl = W.gea(cl)
    nsome = 0
    for site, rt, val, kind in exit_kinds(W, cl, lambda t: "x"):
        if is_error_exit(rt):
            continue
        mm = m(pat.adt("Result", "Ok", ("0", pat.adt("Client", "Client", ("latest_version_id", V("l")), ("snapshot", V("s"))))), rt)
        if mm is None:
            rep.fail(rule + ".META", (short_fn(cl), "builds-Client"), "row closure returns %s" % P.show(rt)[:120], where(cl))
            continue
        lcol = _col_via(mm["l"], colmap)
        rep.ob(rule + ".META", (short_fn(cl), "latest-from-column"), lcol == "latest_version_id", "Client.latest_version_id is read from column %s" % lcol, where(cl))
        ms = m(pat.adt("Option", "Some", ("0", pat.adt("Snapshot", "Snapshot", ("version_id", V("v")), ("timestamp", V("t")), ("versions_since", V("c"))))), mm["s"])
        if ms is not None:
            nsome += 1
            cols = (_col_via(ms["v"], colmap), _col_via(ms["t"], colmap), _col_via(ms["c"], colmap))
            rep.ob(rule + ".META", (short_fn(cl), "snapshot-fields-from-columns"), cols == ("snapshot_version_id", "snapshot_timestamp", "versions_since_snapshot"),
                   "Snapshot{version_id, timestamp, versions_since} are read from columns %s" % (cols,), where(cl))
            ts_ok = any(x[0] == "call" and x[1] == "chrono::offset::TimeZone::timestamp_opt" and m(pat.const(val=0), x[3][2]) is not None for x in P.walk(ms["t"]))
            rep.ob(rule + ".META", (short_fn(cl), "timestamp-seconds"), ts_ok, "timestamp is decoded with timestamp_opt(seconds, 0) (seconds in, seconds out)", where(cl))
    rep.floor(rule + ".META", "get_client Some(snapshot) outcomes", nsome, 1, where(cl))
    # a client that never stored a snapshot has NULLs there: the three columns must be read as Option<_>
    for key, ty, bb, term in selc[0].site.rows:
        col = sel_list[key] if isinstance(key, int) and key < len(sel_list) else key
        if col in ("snapshot_version_id", "snapshot_timestamp", "versions_since_snapshot"):
            rep.ob(rule + ".META", (short_fn(cl), "null-tolerant", col), ty.startswith("core::option::Option<"),
                   "column %s is read as %s; it is NULL until a snapshot is stored, so it must be read as Option<_> (GetSnapshot answers not-found, not an error)" % (col, ty), where(cl))


def pat_tuple(*items):
    return ("agg", "tuple", tuple((str(i), it) for i, it in enumerate(items)))


def _col_of(t):
    """Column name a row-read term denotes: [ok](Row::get(r, "col"))[.0]"""
    if t[0] == "field" and t[2] == "0":
        t = t[1]
    while t[0] == "ok":
        t = t[1]
    if t[0] == "call" and t[1] == "rusqlite::row::Row::<'stmt>::get" and t[3][1][0] == "const":
        return t[3][1][2]
    return None


def _col_via(t, colmap):
    for x in P.walk(t):
        if x in colmap:
            return colmap[x]
    return None


# =========================================================================== C12
from tcss import interval as IV    # noqa: E402


def term_types(W, body):
    """repr(term) -> rust type, for every whole-local definition in the body."""
    pv = W.prov(body)
    out = {}
    for l, sites_ in pv.defsites.items():
        for s_ in sites_:
            t = pv.def_term(s_)
            out.setdefault(repr(t), _deref_ty(body.locals[l]["ty"]))
    for i in range(1, body.arg_count + 1):
        out[repr(pv.local_term(i))] = _deref_ty(body.locals[i]["ty"])
    return out


def _deref_ty(ty):
    """Terms are transparent for borrows (`&x` reads as x): so is the type attached to a term."""
    while ty.startswith("&"):
        ty = ty[1:]
        if ty.startswith("'") and " " in ty:
            ty = ty.split(" ", 1)[1]
        if ty.startswith("mut "):
            ty = ty[4:]
        ty = ty.lstrip()
    return ty


EXPECTED_TARGET = {"for_days": "snapshot_days", "for_versions_since": "snapshot_versions"}


def c12_arith(rep, W, cfgname, rule="C12"):
    """Threshold arithmetic of the two urgency functions under one build configuration."""
    cfg_adt = W.prog.adt("server::ServerConfig")
    cfg_fields = {f["name"]: f["ty"] for f in cfg_adt["variants"][0]["fields"]} if cfg_adt else {}
    for fname in ("for_days", "for_versions_since"):
        body = W.body(WD.CORE + "::server::SnapshotUrgency::" + fname)
        fn = short_fn(body) + "@" + cfgname
        g = W.gea(body)
        pv = W.prov(body)
        x = ("param", 2, ANY)
        cmps = [a for a in g.atoms if a[0] == "CMP"]
        # normalise each comparison to  threshold <= x
        th = []
        for a in cmps:
            if a[1] == "Le" and m(x, a[3]) is not None:
                th.append((a, a[2], True))           # thr <= x
            elif a[1] == "Lt" and m(x, a[2]) is not None:
                th.append((a, a[3], False))          # x < thr  == not (thr <= x)
        ok2 = len(cmps) == 2 and len(th) == 2
        rep.ob(rule + ".SHAPE", (fn, "two-threshold-tests"), ok2, "%d comparison(s) of the measure against a threshold (need exactly 2 of the form measure >= threshold)" % len(th), where(body))
        if not ok2:
            continue
        # the configured target: a field of the &ServerConfig parameter, or the first parameter itself when the caller
        # passes the target as a scalar (C12.MAX then requires the call site to pass that very config field)
        scalar_target = body.locals[1]["ty"] in IV.INT_RANGES
        isfield = lambda t: (t[0] == "field" and t[1][0] == "param" and t[1][1] == 1 and t[2] in cfg_fields) or \
                            (scalar_target and t[0] == "param" and t[1] == 1)  # noqa: E731
        lows = [t for t in th if isfield(t[1])]
        highs = [t for t in th if not isfield(t[1])]
        if len(lows) != 1 or len(highs) != 1:
            rep.fail(rule + ".SHAPE", (fn, "low-threshold-is-target"), "expected one threshold to be the configured target itself and one derived from it", where(body))
            continue
        (aL, L, posL), (aH, H, posH) = lows[0], highs[0]
        fields_in_H = [y for y in P.walk(H) if isfield(y)]
        params_ok = all(y[1] == 1 for y in P.walk(H) if y[0] == "param")
        tname = L[2] if L[0] == "field" else EXPECTED_TARGET[fname]
        rep.ob(rule + ".SHAPE", (fn, "target-is-the-right-setting"), tname == EXPECTED_TARGET[fname],
               "%s classifies against %s; the statement ties it to %s" % (fname, tname, EXPECTED_TARGET[fname]), where(body), nontrivial=False)
        calls_ok = all(y[1].startswith("core::num::") for y in P.walk(H) if y[0] == "call")
        other_ok = not any(y[0] in ("phi", "upvar", "unknown", "mut") for y in P.walk(H))
        okdep = params_ok and calls_ok and other_ok and set(fields_in_H) == {L}
        rep.ob(rule + ".SHAPE", (fn, "thresholds-depend-only-on-target"), okdep and not any(y[0] == "param" and y[1] == 2 for y in P.walk(H)),
               "high threshold = %s, low threshold = %s; both must depend only on the same configured target, not on the measure" % (P.show(H), P.show(L)), where(body))
        # outcome chain
        fH = ("is", aH, posH)
        nH = ("is", aH, not posH)
        fL = ("is", aL, posL)
        nL = ("is", aL, not posL)
        want = {"High": fH, "Low": ("and", nH, fL), "None": ("and", nH, nL)}
        seen_ = set()
        for site, rt, val, kind in exit_kinds(W, body, lambda t: t[1][2] if t[0] == "agg" and isinstance(t[1], tuple) and t[1][1].endswith("SnapshotUrgency") else "?"):
            seen_.add(kind)
            f = want.get(kind)
            rep.ob(rule + ".SHAPE", (fn, "outcome", kind), f is not None and G.ev(f, val) is True,
                   "urgency %s is returned under %s" % (kind, G.show_val({k: v for k, v in val.items() if k in (aH, aL)})), where(body, line=exit_line(body, site)))
        rep.ob(rule + ".SHAPE", (fn, "all-three-outcomes"), seen_ == {"High", "Low", "None"}, "outcomes produced: %s" % sorted(seen_), where(body), nontrivial=False)
        # arithmetic
        tys = term_types(W, body)
        sty = cfg_fields[L[2]] if L[0] == "field" else body.locals[1]["ty"]
        rng = IV.INT_RANGES.get(sty)
        if rng is None:
            rep.fail(rule + ".NOFAIL", (fn, "target-type"), "target %s has non-integer type %s" % (tname, sty), where(body))
            continue
        srange = (max(0, rng[0]), rng[1])

        def type_of(t):
            if t[0] == "const":
                return t[3]
            return tys.get(repr(t))
        ip = IV.Interp(L, sty, srange, type_of)
        avH = ip.ev(H)
        # every arithmetic definition in the function is evaluated (not just those feeding H)
        for l, sites_ in pv.defsites.items():
            for s_ in sites_:
                t = pv.def_term(s_)
                if t[0] == "binop" or (t[0] == "call" and t[1].startswith("core::num::")):
                    ip.ev(t if not t[1].endswith("WithOverflow") else ("field", t, "0"))
        fnd = [f_ for f_ in ip.findings]
        rep.ob(rule + ".NOFAIL", (fn, "no-overflow"), not fnd,
               "threshold arithmetic for every target in [%d, %d]: %s" % (srange[0], srange[1], "; ".join(f_.detail for f_ in fnd) if fnd else
                                                                          "no operation can leave its type range (%d arithmetic site(s))" % len(ip.sites)),
               where(body), sample={"target": tname, "type": sty, "sites": [(o, t_, str(r), fits) for o, t_, r, fits in ip.sites], "high_threshold": repr(avH)})
        okge, why = IV.ge_sym(avH, srange)
        rep.ob(rule + ".ORDER", (fn, "high>=low"), okge, "high threshold >= low threshold for every target: %s" % why, where(body), sample={"H": P.show(H), "abstract": repr(avH)})
        from fractions import Fraction as Fr
        okf = (avH.lin_lo is not None and avH.lin_hi is not None and avH.lin_lo[0] == Fr(3, 2) and avH.lin_lo[1] >= -1
               and avH.lin_hi[0] == Fr(3, 2) and avH.lin_hi[1] <= 0 and (avH.lin_lo[2] is None or avH.lin_lo[2] >= srange[1]))
        rep.ob(rule + ".FACTOR", (fn, "one-and-a-half-times"), okf,
               "high threshold is within one of 1.5 x target (or the type maximum where that is not representable): bounds %s" % repr(avH), where(body))
        rep.floor(rule + ".NOFAIL", fn + " arithmetic sites", len(ip.sites), 1, where(body))


def c12_max(rep, W, rule="C12.MAX"):
    body = W.op("add_version")
    fn = short_fn(body)
    g = W.gea(body)
    pv = W.prov(body)
    txn = txn_term_of(W, body)[0][2]
    client, _ = client_term(W, body, txn)
    snap = ("ok", ("field", client, "snapshot"))
    cfg = ("field", ("param", 1, ANY), "config")
    snap_atom = ("VARIANT", ("field", client, "snapshot"))
    n = 0
    for site, rt, val, kind in exit_kinds(W, body, av_kind):
        if kind != "accept":
            continue
        n += 1
        mm = m(pat.adt("Result", "Ok", ("0", pat.tup(ANY, V("u")))), rt)
        u = mm["u"] if mm else None
        ln = exit_line(body, site)
        has = val.get(snap_atom)
        high = pat.adt("SnapshotUrgency", "High")
        is_max = u is not None and u[0] == "call" and u[1] in ("core::cmp::max", "core::cmp::Ord::max") and len(u[3]) == 2
        if has == frozenset(["err"]) and u is not None and m(high, u) is not None:
            # max(High, High) written as High
            rep.ob(rule, (fn, "no-snapshot-is-high"), True, "without a stored snapshot the urgency is High", where(body, line=ln))
            continue
        if not is_max and u is not None and has == frozenset(["ok"]):
            # `if time > version { time } else { version }`: the larger of the two under the comparison that selected it
            days_ = call("chrono::time_delta::TimeDelta::num_days", call("core::ops::arith::Sub::sub", call("chrono::offset::utc::Utc::now"), ("field", snap, "timestamp")))
            pd_ = call(WD.CORE + "::server::SnapshotUrgency::for_days", pat.OneOf(cfg, ("field", cfg, "snapshot_days")), days_)
            pvz_ = call(WD.CORE + "::server::SnapshotUrgency::for_versions_since", pat.OneOf(cfg, ("field", cfg, "snapshot_versions")), ("field", snap, "versions_since"))
            okc = False
            for a_, vs_ in val.items():
                if a_[0] != "CMP" or len(vs_) != 1:
                    continue
                lo_, hi_ = g.resolve_phis(a_[2], val), g.resolve_phis(a_[3], val)
                if not ((m(pd_, lo_) is not None and m(pvz_, hi_) is not None) or (m(pvz_, lo_) is not None and m(pd_, hi_) is not None)):
                    continue
                lt = next(iter(vs_))                  # True: lo < hi (strict) / lo <= hi for 'Le'
                larger = hi_ if lt else lo_           # when not (lo < hi): lo >= hi, lo is a maximum
                okc = okc or u == larger
            rep.ob(rule, (fn, "measures-from-pre-request-record"), okc,
                   "with a snapshot the urgency is %s, selected by an explicit comparison as the larger of for_days(..) and for_versions_since(..)" % P.show(u)[:100], where(body, line=ln))
            continue
        if not is_max:
            rep.fail(rule, (fn, "max"), "urgency of an accepted version is %s; must be max(time urgency, version urgency)" % (P.show(u) if u else "?"), where(body, line=ln))
            continue
        a0, a1 = u[3]
        if has == frozenset(["err"]):
            rep.ob(rule, (fn, "no-snapshot-is-high"), m(high, a0) is not None and m(high, a1) is not None,
                   "without a stored snapshot both urgencies are High (got %s, %s)" % (P.show(a0), P.show(a1)), where(body, line=ln))
        elif has == frozenset(["ok"]):
            days = call("chrono::time_delta::TimeDelta::num_days", call("core::ops::arith::Sub::sub", call("chrono::offset::utc::Utc::now"), ("field", snap, "timestamp")))
            # (the target reaches the classifier as &self.config, or as the scalar self.config.<field>)
            pd = call(WD.CORE + "::server::SnapshotUrgency::for_days", pat.OneOf(cfg, ("field", cfg, "snapshot_days")), days)
            pvz = call(WD.CORE + "::server::SnapshotUrgency::for_versions_since", pat.OneOf(cfg, ("field", cfg, "snapshot_versions")), ("field", snap, "versions_since"))
            okm = (m(pd, a0) is not None and m(pvz, a1) is not None) or (m(pd, a1) is not None and m(pvz, a0) is not None)
            rep.ob(rule, (fn, "measures-from-pre-request-record"), okm,
                   "with a snapshot: max(%s, %s); must be for_days(&self.config, (now - snapshot.timestamp).num_days()) and "
                   "for_versions_since(&self.config, snapshot.versions_since) of the client record read before the append" % (P.show(a0)[:110], P.show(a1)[:110]),
                   where(body, line=ln))
        else:
            rep.fail(rule, (fn, "snapshot-known"), "accepted outcome under an undetermined snapshot presence", where(body, line=ln))
    rep.floor(rule, "accepted outcomes examined", n, 2, where(body))
    c12_stores_config(rep, W, rule)
    # enum order None < Low < High, derived Ord
    su = W.prog.adt("server::SnapshotUrgency")
    order = [v["name"] for v in su["variants"]] if su else []
    rep.ob(rule, ("SnapshotUrgency", "declaration-order"), order == ["None", "Low", "High"], "variant order %s (max() uses the derived ordering None < Low < High)" % order)
    ordb = W.prog.body("<%s::server::SnapshotUrgency as core::cmp::Ord>::cmp" % WD.CORE)
    okd = ordb is not None and [t["callee"].get("def") for _, t in ordb.calls()].count("core::intrinsics::discriminant_value") == 2
    rep.ob(rule, ("SnapshotUrgency", "derived-Ord"), okd, "Ord::cmp compares discriminants (derive(Ord))", nontrivial=False)


def c12_stores_config(rep, W, rule="C12.MAX"):
    # Server::new stores the configuration it is given
    nb = W.body(WD.SERVER_TY + "::new")
    okn = False
    for site, term in exits(W, nb):
        # (further fields of Server are not this obligation's business)
        if m(pat.adt("Server", "Server", Ellipsis), term) is not None:
            okn = okn or m(("param", 1, ANY), dict(term[2]).get("config", ("unknown",))) is not None
    rep.ob(rule, (short_fn(nb), "stores-config"), okn, "Server::new stores its config parameter in Server.config (the value the urgency functions read)", where(nb))


def c17_targets(rep, W, rule="C17.TARGETS"):
    """"applies the given snapshot targets when requesting snapshots", the part below main(): the ServerConfig handed to
    Server::new is stored unchanged, and the two classifiers are given that stored config (or its own field) at every call
    in the AddVersion operation.  (What the classifiers compute from the target is C12's.)"""
    c12_stores_config(rep, W, rule)
    body = W.op("add_version")
    pv = W.prov(body)
    cfg = ("field", ("param", 1, ANY), "config")
    n = 0
    for fname, fld in (("for_days", "snapshot_days"), ("for_versions_since", "snapshot_versions")):
        for bb, t in sites_of(body, WD.CORE + "::server::SnapshotUrgency::" + fname):
            a0 = pv.arg_terms(bb)[0]
            n += 1
            rep.ob(rule, (short_fn(body), fname, "target-from-stored-config", ordinal_key(body, WD.CORE + "::server::SnapshotUrgency::" + fname, bb)),
                   m(pat.OneOf(cfg, ("field", cfg, fld)), a0) is not None,
                   "%s is given %s as its target (required: self.config or self.config.%s)" % (fname, P.show(a0)[:80], fld), where(body, bb))
    rep.floor(rule, "classifier call sites in Server::add_version", n, 2, where(body))


# =========================================================================== C05
from tcss import results as R     # noqa: E402

# panic-site table: (function suffix, callee suffix) -> reason; anything else is a violation
PANIC_TABLE = [
    ("inmemory::InMemoryStorage as taskchampion_sync_server_core::storage::Storage>::txn", "Result::<T, E>::expect",
     "Mutex::lock().expect(\"poisoned lock\"): in-memory backend only (not the persistent backend the property is about)"),
    (lambda b, recv: b.unit == WD.SQLITE + "-lib" and recv[0] == "call" and recv[1] == "chrono::offset::TimeZone::timestamp_opt"
        and len(recv[3]) == 3 and recv[3][2][0] == "const" and recv[3][2][2] == 0, "LocalResult::<T>::unwrap",
     "Utc.timestamp_opt(ts, 0).unwrap() in the sqlite crate: ts was written by this server from a valid DateTime (seconds), always in range"),
    ("taskchampion_sync_server::ServerArgs::new", "Option::<T>::unwrap",
     "clap guarantees presence (required / default_value); runs at start-up before serving"),
    ("taskchampion_sync_server::command", "Option::<T>::unwrap", "inside clap's arg! macro; runs at start-up before serving"),
]


def c05_err(rep, W, rule="C05.ERR"):
    n = 0
    npan = 0
    for b in sorted(W.prog.bodies.values(), key=lambda x: x.key):
        if b.j.get("impl_trait", "").startswith(R.DERIVED_TRAITS):
            continue
        res, pan = R.analyse_body(W, b)
        cnt = {}
        for r in res:
            n += 1
            k = r.callee.split("::")[-1]
            cnt[k] = cnt.get(k, 0) + 1
            key = (short_fn(b), "%s#%d" % (k, cnt[k] - 1))
            if r.status == "panics":
                continue     # judged by the panic table below
            rep.ob(rule, key, r.status in ("propagated", "handled"),
                   "Result of %s: %s (%s)" % (r.callee, r.status, r.why), where(b, r.bb))
        pc = {}
        for bb, d in pan:
            npan += 1
            k = d.split("::")[-1]
            pc[k] = pc.get(k, 0) + 1
            recv = W.prov(b).arg_terms(bb)[0] if b.blocks[bb]["term"]["args"] else ("unknown", "no receiver")
            row = [reason for fs, cs, reason in PANIC_TABLE if d.endswith(cs) and (fs(b, recv) if callable(fs) else b.deff.endswith(fs))]
            rep.ob("C05.PANIC", (short_fn(b), "%s#%d" % (k, pc[k] - 1)), bool(row),
                   "%s in %s: %s" % (d.split("::", 2)[-1], b.deff, row[0] if row else "NOT in the panic-site table (a failing step would crash the worker instead of producing an error response)"),
                   where(b, bb), nontrivial=False)
    rep.floor(rule, "Result-valued call sites", n, 45)
    return n


def c05_map(rep, W, rule="C05.MAP"):
    from rules import http as H
    # The error-mapping helpers of the pinned tree (server_error_to_actix, failure_to_ise) are spliced into the handlers
    # (load.SPLICE_BASELINE), so the mapping is judged where it takes effect: every handler outcome under Err(Other) is a
    # 5xx (C14 rows) and every propagated storage error in the creation block is a 5xx
    for module in WD.HANDLER_MODULES:
        body, g, opbb, opterm, outs = H.handler_outcomes(W, module)
        a_err = ("VARIANT", ("err", opterm))
        a_res = ("VARIANT", opterm)
        n = 0
        for o in outs:
            if o.phase != "post" or o.val.get(a_res) != frozenset(["err"]):
                continue
            if o.val.get(a_err) == frozenset(["NoSuchClient"]) and module != "add_version":
                continue
            st = o.status
            if o.val.get(a_err) is None:
                st = H._status_for_variant(W, o, "Other")
            n += 1
            rep.ob(rule, (short_fn(body), "storage-error-is-5xx", "L%s" % o.kind), st is not None and all(isinstance(x, int) and x >= 500 for x in st) and o.kind != "ok",
                   "a storage failure (ServerError::Other / creation-block failure) is answered with %s; an error (5xx) is required, never a success" % st,
                   where(body, line=exit_line(body, o.site)))
        rep.floor(rule, short_fn(body) + " storage-error outcomes", n, 1, where(body))


def c05_drop(rep, W, rule="C05.DROP"):
    bad = W.bodies_calling(lambda c: c.get("def", "") in ("core::mem::forget", "alloc::boxed::Box::<T>::leak", "core::mem::ManuallyDrop::<T>::new",
                                                          "alloc::boxed::Box::<T>::into_raw", "core::mem::MaybeUninit::<T>::new"))
    rep.ob(rule, ("workspace", "no-forget-or-leak"), not bad, "calls that keep a value (and a transaction's lock) alive past its scope: %s" % ([(b.deff, d) for b, _, d in [(b, bb, t["callee"]["def"]) for b, bb, t in bad]] or "none"))
    drops = [i for i in W.prog.impls if i.get("trait") == "core::ops::drop::Drop" and i["unit"].startswith(WD.SQLITE)]
    rep.ob(rule, ("sqlite", "no-Drop-impl"), not drops, "Drop impls in the sqlite crate (a commit-on-drop would turn a failed request into a partial effect): %s" % ([d["self_ty"] for d in drops] or "none"))
    txn_adt = W.prog.adt("Txn")
    conf = [f for f in (txn_adt["variants"][0]["fields"] if txn_adt else []) if f["name"] == "con"]
    rep.ob(rule, ("sqlite::Txn", "owns-connection"), bool(conf) and conf[0]["ty"] == "rusqlite::Connection",
           "Txn.con : %s (owned: dropping an uncommitted transaction closes the connection, which rolls back and releases the lock)" % (conf[0]["ty"] if conf else "?"))


# =========================================================================== S-FAILSTOP
STEP_CALLEES = (WD.T_TXN, WD.SERVER_TXN, "rusqlite::Connection::execute", "rusqlite::Connection::query_row", "rusqlite::Connection::open")


def is_storage_step(d):
    return d.startswith(WD.STORAGE_TXN + "::") or d in STEP_CALLEES


def _adapter_root(t):
    """Innermost call of an adapter chain  optional(context(map_err(CALL))) -> CALL."""
    seen = 0
    while t[0] == "call" and (t[1] in R.ADAPTERS or t[1] in P.OK_PRESERVING) and t[3] and seen < 8:
        t = t[3][0]
        seen += 1
    return t


def s_failstop(rep, W, body, rule="S-FAILSTOP"):
    """Once a storage step has failed, the enclosing function can only report the failure: no further storage step on the
    failure path (the transaction must be abandoned, not patched up) and no success return."""
    fn = short_fn(body)
    g = W.gea(body)
    pv = W.prov(body)
    steps = [(bb, t["callee"].get("def", "")) for bb, t in body.calls() if is_storage_step(t["callee"].get("def", ""))]
    succ_blocks = set(s[0] for s, t in exits(W, body) if not is_error_exit(t))
    n = 0
    for bb, d in steps:
        T = pv.def_term((bb, "T"))
        atoms = [a for a in g.atoms if a[0] == "VARIANT" and _adapter_root(a[1]) == T]
        if not atoms:
            continue
        n += 1
        errv = frozenset(["err"])
        starts = [y for x, ys in g.edges.items() for y in ys
                  if any(dict(y[1]).get(a) == errv and dict(x[1]).get(a) != errv for a in atoms)]
        seen = set()
        stk = list(starts)
        bad = None
        step_bbs = dict(steps)
        while stk and bad is None:
            x = stk.pop()
            if x in seen:
                continue
            seen.add(x)
            if x[0] in step_bbs:
                bad = "another storage step (%s, line %d) is executed after the failure" % (step_bbs[x[0]].split("::")[-1], body.line_of_block(x[0]))
                break
            if x[0] in succ_blocks:
                val = dict(x[1])
                if d in R.NO_ROW_QUERIES and val.get(("VARIANT", ("err", T))) == frozenset(["QueryReturnedNoRows"]):
                    continue         # "no such row" is an answer, not a failure (an explicit arm doing what `.optional()` does)
                if any(val.get(a) == errv for a in atoms):
                    bad = "a non-error return (line %d) is reachable although the step failed" % body.line_of_block(x[0])
                    break
            for y in g.edges.get(x, ()):
                stk.append(y)
        rep.ob(rule, (fn, ordinal_key(body, d, bb)), bad is None,
               "failure of %s %s" % (d.split("::")[-1], "leads only to an error return" if bad is None else ": " + bad), where(body, bb))
    return n


def s_failstop_all(rep, W, rule="S-FAILSTOP"):
    n = 0
    bodies = [W.op(o) for o in WD.OPS] + [W.handler("add_version"), W.body(WD.SERVER_TXN)]
    for backend in ("sqlite", "inmemory"):
        bodies += [W.impl_method(backend, mth) for mth in WD.ALL_METHODS] + [W.impl_storage_txn(backend)]
    bodies += [W.body(WD.SQLITE + "::SqliteStorage::new")]
    # private helpers of the sqlite crate that are still units of their own (baseline helpers are spliced; see load.py)
    bodies += [b for b in W.prog.bodies.values() if b.unit == WD.SQLITE + "-lib" and b.kind in ("Fn", "AssocFn") and "impl_trait" not in b.j
               and b.key not in [x.key for x in bodies]]
    for b in bodies:
        n += s_failstop(rep, W, b, rule)
    rep.floor(rule, "storage steps with a visible failure edge", n, 15)
