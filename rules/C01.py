"""C01 - each client's versions form one unbranched chain, walkable end to end."""
from rules import http as H
from rules import shared as S
from tcss import world as WD

LEVEL = "proof"
TRUSTED = ["TB-rustc", "TB-sqlite", "TB-mutex", "TB-uuid", "closed world: requests enter through the four Server operations / HTTP routes"]
EXPLANATION = ("inductive chain invariant Inv(c): obligations O1 (single appender) O2 (guarded, same exclusive txn) O3 (writer/reader key "
               "agreement) O4 (fresh id) O5 (append-only) O6 (latest written only by append and create-if-absent); induction on paper")
ASSUMPTIONS = ["Uuid::new_v4 never repeats an id (probabilistic)", "SQLite transactions are atomic and isolated"]


def run(rep, W, ctx):
    S.s_mematomic(rep, W)
    S.s_sql_closed(rep, W)
    S.s_wmc(rep, W)                      # O1
    body = W.op("add_version")
    S.s_txn1(rep, W, body)               # O2
    S.s_txn2(rep, W)
    S.s_cas(rep, W)                      # O2, O4
    S.s_txn3(rep, W, body)
    S.s_failstop_all(rep, W)          # a failed storage step is never retried / patched up inside the transaction
    S.c01_key(rep, W)                    # O3
    S.s_appendonly(rep, W)               # O5
    S.s_newclient(rep, W)                # O6
    S.latest_writers(rep, W)
    S.s_class(rep, W)
    S.s_txn1(rep, W, W.op("get_child_version"))
    S.c08(rep, W)                        # ... and finally answers not-found at the latest version
