"""C14 - HTTP responses encode protocol outcomes exactly."""
from rules import http as H
LEVEL = "other"
TRUSTED = ["TB-rustc", "TB-actix (constructor -> status table; response serialisation)"]
EXPLANATION = ("outcome -> (status, headers, content type, body) table extracted per handler from the guarded-effect analysis and compared "
               "row by row with the table transcribed from the property statement (18 rows, exhaustive over outcome variants); routes from the macro registry")


def run(rep, W, ctx):
    H.c14_tables(rep, W)
    H.handler_args(rep, W)
    H.route_params_plain(rep, W)
    # "for every request the status .. carries precisely the protocol outcome": a response that is NOT derived from the
    # operation's outcome is one of the tabled refusals (a 4xx, decided before any storage access, for a listed reason)
    H.c15_refuse(rep, W)
    # "X-Snapshot-Request exactly when a snapshot is wanted": wanted = the urgency of the pre-request record's two measures
    from rules import shared as S
    S.c12_max(rep, W)
