"""C07 - accepted history is immutable."""
from rules import shared as S

LEVEL = "proof"
TRUSTED = ["TB-rustc", "TB-sqlite", "TB-mutex", "TB-uuid"]
EXPLANATION = ("append-only version records: statement verbs, map mutators, who-may-call, stable lookup keys, no re-creation of a client row; "
               "read side: GetChildVersion answers from storage in one transaction (no cached state in Server), returning the looked-up record")


def run(rep, W, ctx):
    ss, inst = S.s_sql_closed(rep, W)
    S.s_appendonly(rep, W)
    S.s_wmc(rep, W)
    S.s_newclient(rep, W)
    S.c01_key(rep, W)
    S.s_class(rep, W)
    # the read side: the child of a parent is answered from storage, inside one transaction, with no cache in between
    S.s_txn1(rep, W, W.op("get_child_version"))
    S.c08(rep, W)
    S.c03_nostate(rep, W)
    # "returns that same version id, parent id and payload": the GetChildVersion handler's outcome table
    from rules import http as H
    from rules import wiring as WR
    H.c14_tables(rep, W, modules=("get_child_version",))
    WR.c13_written(rep, W)          # no storage method other than add_version writes a version
    # C07.NOREWRITE: no statement other than add_version's INSERT writes a column of `versions`
    for i in inst:
        if i.stmt and i.stmt["table"] == "versions" and i.stmt["writes"]:
            mth = i.owner.deff.split("::")[-1]
            rep.ob("C07.NOREWRITE", ("sql", S.short_fn(i.owner), i.stmt["verb"]), mth == "add_version" and i.stmt["verb"] == "INSERT",
                   "columns of table versions written by %s via %s" % (mth, i.stmt["verb"]), i.where())
