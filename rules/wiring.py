"""C17 (configuration wiring in main), C13 (backend agreement + reopen), C04 (durability skeleton),
C19 (on-disk format descriptor), C06 (payload transport)."""
import json
import os

from rules import http as H
from rules import shared as S
from tcss import effects as E
from tcss import gea as G
from tcss import pat
from tcss import prov as P
from tcss import sqlmodel as SM
from tcss import world as WD
from tcss.pat import ANY, V, call, m
from tcss.report import where

MAIN = "bin:" + WD.SERVER + "::main::{closure#0}"
ARGS_NEW = "bin:" + WD.SERVER + "::ServerArgs::new"
COMMAND = "bin:" + WD.SERVER + "::command"
VERIF = os.path.dirname(os.path.dirname(os.path.abspath(__file__)))


def db_path_components(W):
    """Path of the database file relative to the directory handed to SqliteStorage::new, from the value stored in the
    constructed SqliteStorage's path field: ['taskchampion-sync-server.sqlite3'] on the pinned tree. None if not of the form
    directory.join(c1).join(c2)..."""
    sn = W.body(WD.SQLITE + "::SqliteStorage::new")
    pv = W.prov(sn)
    vals = []
    for blk in sn.blocks:
        if blk["cleanup"]:
            continue
        for st in blk["stmts"]:
            if st["k"] == "assign" and st["rv"]["k"] == "aggregate" and st["rv"].get("adt", "").endswith("::SqliteStorage"):
                t = pv.rvalue_term(st["rv"])
                vals.append(dict(t[2]).get("db_file"))
    if len(vals) != 1 or vals[0] is None:
        return None
    t = vals[0]
    comps = []
    while t[0] == "call" and t[1] == "std::path::Path::join" and len(t[3]) == 2:
        c = H.const_str(t[3][1])
        if c is None:
            return None
        comps.append(c)
        t = t[3][0]
    while t[0] == "mut":
        t = t[3]
    if not (t[0] == "param" and t[1] == 1):
        return None
    return list(reversed(comps))


# =========================================================================== C17
def deep_terms(W, body, t):
    """Sub-terms of t, descending into sum-structured locals and into what was fed to a collection built in place
    (`let mut s = HashSet::new(); for x in xs { s.insert(*x) }`: the arguments of the mutator calls)."""
    pv = W.prov(body)
    seen = set()
    st = [t]
    while st:
        x = st.pop()
        for y in P.walk_deep(x):
            yield y
            if y[0] == "mut" and y[1] not in seen:
                seen.add(y[1])
                for bb, callee, ai in pv.mutators(y[1]):
                    st.extend(a for i_, a in enumerate(pv.arg_terms(bb)) if i_ != ai)


ARG_TRANSPORTS = {"unwrap", "expect", "collect", "copied", "cloned", "clone", "into_iter", "iter", "map", "into", "from", "to_owned", "as_ref", "deref",
                  "to_os_string", "to_path_buf", "unwrap_unchecked",
                  # building the collection by hand: `let mut s = HashSet::new(); for id in ids { s.insert(*id); }`
                  "new", "default", "with_capacity", "insert", "push", "extend", "next"}


def c17(rep, W, rule="C17", sections=None, keyfilter=None):
    """sections: None = everything; or a set of rule suffixes ({".LIST", ".ARGS"}) for properties that rely on part of the wiring."""
    if sections is not None:
        class _Filter:
            def __init__(self, rep_):
                self._r = rep_
            def ob(self, rl, *a, **k):
                if any(rl.endswith(x) or rl.endswith(x + ".FLOOR") for x in sections) and (keyfilter is None or keyfilter(rl, a[0] if a else ())):
                    return self._r.ob(rl, *a, **k)
                return True
            def fail(self, rl, key, detail, where=None, sample=None):
                return self.ob(rl, key, False, detail, where, sample)
            def floor(self, rl, what, found, minimum, where=None):
                if any(rl.endswith(x) for x in sections):
                    return self._r.floor(rl, what, found, minimum, where)
                return True
            def __getattr__(self, n):
                return getattr(self._r, n)
        rep = _Filter(rep)
    mb = W.body(MAIN)
    fn = "main"
    pv = W.prov(mb)
    g = W.gea(mb)
    sa_calls = S.sites_of(mb, WD.SERVER + "::ServerArgs::new")
    if len(sa_calls) != 1:
        rep.fail(rule + ".CFG", (fn, "ServerArgs::new"), "expected one ServerArgs::new call in main, found %d" % len(sa_calls), where(mb))
        return
    SA = pv.def_term((sa_calls[0][0], "T"))
    saarg = pv.arg_terms(sa_calls[0][0])[0]
    rep.ob(rule + ".ARGS", (fn, "parses-real-command-line"),
           m(call("clap_builder::builder::command::Command::get_matches", call(WD.SERVER + "::command")), saarg) is not None,
           "ServerArgs are built from %s; must be command().get_matches() (process arguments + environment)" % P.show(saarg), where(mb, sa_calls[0][0]))
    ws = S.sites_of(mb, WD.SERVER + "::WebServer::new")
    if len(ws) != 1:
        rep.fail(rule + ".CFG", (fn, "WebServer::new"), "expected one WebServer::new call, found %d" % len(ws), where(mb))
        return
    wa = pv.arg_terms(ws[0][0])
    cfgp = pat.adt("ServerConfig", "ServerConfig", ("snapshot_days", ("field", SA, "snapshot_days")), ("snapshot_versions", ("field", SA, "snapshot_versions")))
    rep.ob(rule + ".CFG", (fn, "snapshot-targets"), m(cfgp, wa[0]) is not None,
           "ServerConfig passed to WebServer::new is %s; must carry the parsed snapshot_days / snapshot_versions (not defaults, not cross-wired)" % P.show(wa[0])[:200].replace(P.show(SA), "ARGS"),
           where(mb, ws[0][0]))
    rep.ob(rule + ".LIST", (fn, "allow-list"), wa[1] == ("field", SA, "client_id_allowlist"),
           "allow-list passed to WebServer::new is %s; must be the parsed client_id_allowlist" % P.show(wa[1]).replace(P.show(SA), "ARGS"), where(mb, ws[0][0]))
    st = ("ok", call(WD.SQLITE + "::SqliteStorage::new", ("field", SA, "data_dir")))
    rep.ob(rule + ".DIR", (fn, "storage-in-data-dir"), m(st, wa[2]) is not None,
           "storage passed to WebServer::new is %s; must be SqliteStorage::new(parsed data_dir)?" % P.show(wa[2]).replace(P.show(SA), "ARGS"), where(mb, ws[0][0]))
    # WebServer::new -> Server::new, allow-list
    wn = W.body(WD.SERVER + "::WebServer::new")
    okw = False
    for site, term in S.exits(W, wn):
        mm = m(pat.adt("WebServer", "WebServer", ("server_state", V("ss"))), term)
        if mm is not None:
            inner = [x for x in P.walk(mm["ss"]) if x[0] == "agg" and isinstance(x[1], tuple) and x[1][1].endswith("::api::ServerState")]
            if len(inner) == 1:
                fl = dict(inner[0][2])
                okw = m(call(WD.SERVER_TY + "::new", ("param", 1, ANY), ("param", 3, ANY)), fl.get("server", ("unknown",))) is not None and \
                    m(("param", 2, ANY), fl.get("client_id_allowlist", ("unknown",))) is not None
    rep.ob(rule + ".CFG", ("WebServer::new", "passes-config-and-storage"), okw,
           "WebServer::new builds ServerState{server: Server::new(config, storage), client_id_allowlist}", where(wn))
    # database path
    sn = W.body(WD.SQLITE + "::SqliteStorage::new")
    comps = db_path_components(W)
    rep.ob(rule + ".DIR", ("SqliteStorage::new", "file-in-directory"), comps == ["taskchampion-sync-server.sqlite3"],
           "the database the storage object opens is <directory>/%s; the documented location is <directory>/taskchampion-sync-server.sqlite3"
           % ("/".join(comps) if comps else "<not a constant path below the given directory>"), where(sn))
    # LISTEN: bind loop
    binds = S.sites_of(mb, "actix_web::server::HttpServer::<F, I, S, B>::bind")
    runs = S.sites_of(mb, "actix_web::server::HttpServer::<F, I, S, B>::run")
    news = S.sites_of(mb, "actix_web::server::HttpServer::<F, I, S, B>::new")
    rep.ob(rule + ".LISTEN", (fn, "sites"), len(binds) == 1 and len(runs) == 1 and len(news) == 1,
           "HttpServer::new x%d, bind x%d, run x%d" % (len(news), len(binds), len(runs)), where(mb))
    if len(binds) == 1 and len(runs) == 1 and len(news) == 1:
        bbb = binds[0][0]
        ba = pv.arg_terms(bbb)
        item = ba[1]
        nexts = [x for x in P.walk(item) if x[0] == "call" and x[1] == "core::iter::traits::iterator::Iterator::next"]
        src = None
        if nexts:
            it = nexts[0][3][0]
            while it[0] in ("mut", "phi"):
                if it[0] == "mut":
                    it = it[3]
                else:
                    alts = [t for _, t in pv.phi_alternatives(it[1])]
                    it = alts[0] if len(alts) == 1 else ("unknown",)
            src = it
        rep.ob(rule + ".LISTEN", (fn, "iterates-all-addresses"), item[0] == "ok" and len(nexts) == 1 and src == ("field", SA, "listen_addresses"),
               "bind is called with %s; must be each element of the parsed listen_addresses" % P.show(item).replace(P.show(SA), "ARGS")[:160], where(mb, bbb))
        # the running builder: http_server := HttpServer::new(..) ; http_server := bind(http_server, addr)?
        hs = ba[0]
        okb = False
        if hs[0] == "phi":
            alts = [t for _, t in pv.phi_alternatives(hs[1])]
            okb = len(alts) == 2 and any(t == pv.def_term((news[0][0], "T")) for t in alts) and any(t == ("ok", pv.def_term((bbb, "T"))) for t in alts)
            okb = okb and pv.arg_terms(runs[0][0])[0] == hs
        rep.ob(rule + ".LISTEN", (fn, "binds-accumulate"), okb,
               "each bind result is assigned back to the server builder, and run() is called on that builder", where(mb, bbb))
        # every iteration binds: no path from one `next` to the following one that skips bind
        if nexts:
            nbb = nexts[0][2]
            natom = ("VARIANT", nexts[0])
            starts = [y for x, ys in g.edges.items() if x[0] == nbb for y in ys]
            seen = set()
            stk = list(starts)
            skip = False
            while stk:
                x = stk.pop()
                if x in seen or x[0] == bbb:
                    continue
                seen.add(x)
                if x[0] == nbb:
                    skip = True
                    break
                for y in g.edges.get(x, ()):
                    stk.append(y)
            rep.ob(rule + ".LISTEN", (fn, "no-address-skipped"), not skip, "every iteration over the addresses passes the bind call", where(mb, bbb))
            f = ("is", natom, "err")
            rep.ob(rule + ".LISTEN", (fn, "run-after-all-binds"), S.all_vals(g, (runs[0][0], "T"), f),
                   "run() is reached only when the address iterator is exhausted", where(mb, runs[0][0]))
        # the app factory serves the WebServer built above
        fac = pv.arg_terms(news[0][0])[0]
        okf = fac[0] == "agg" and isinstance(fac[1], tuple) and fac[1][0] == "closure" and any(v == pv.def_term((ws[0][0], "T")) for _, v in fac[2])
        rep.ob(rule + ".LISTEN", (fn, "serves-configured-webserver"), okf, "the application factory captures the WebServer built from the parsed configuration", where(mb, news[0][0]))
    # STARTUP: the only reasons the binary may refuse to start (or stop) serving a data directory are the enumerated ones.
    # A restart on the same directory must serve the same history: any additional start-up refusal (lock files, version
    # checks, ...) is outside the argument and fails closed.
    allowed_fail = {
        WD.SQLITE + "::SqliteStorage::new": "the data directory cannot be opened / created",
        "actix_web::server::HttpServer::<F, I, S, B>::bind": "a listen address cannot be bound",
        "actix_web::server::HttpServer::<F, I, S, B>::run": "the server future ended with an I/O error",
    }
    nfail = 0
    for site, term in S.exits(W, mb):
        if not S.is_error_exit(term):
            continue
        nfail += 1
        roots = [x[1] for x in P.walk(term) if x[0] == "call" and x[1] in allowed_fail]
        others = [x[1] for x in P.walk(term) if x[0] == "call" and x[1] not in allowed_fail and not x[1].startswith("core::") and x[1] not in (
            WD.SERVER + "::ServerArgs::new", WD.SERVER + "::command", "clap_builder::builder::command::Command::get_matches")]
        src = None
        if term[0] == "call" and term[1] == S.FROM_RESIDUAL and term[3]:
            # the call whose failure is propagated: through `?` layers (a desugared try_fold re-propagates the closure's
            # residual), success payloads, awaited futures
            x = term
            while x[0] in ("ok", "err", "mut") or (x[0] == "call" and x[1] in ("core::future::future::Future::poll", S.FROM_RESIDUAL) and x[3]):
                x = x[1] if x[0] in ("ok", "err") else (x[3] if x[0] == "mut" else x[3][0])
            src = x[1] if x[0] == "call" else None
        rep.ob(rule + ".STARTUP", (fn, "failure-mode", (src or "?").split("::")[-1]), src in allowed_fail,
               "main can fail through %s: %s" % (src, allowed_fail.get(src, "NOT an enumerated start-up / shutdown failure mode -- a restart on the same data directory might be refused")),
               where(mb, line=S.exit_line(mb, site)))
    rep.floor(rule + ".STARTUP", "failure modes of main", nfail, 3, where(mb))
    exits_ = W.bodies_calling(lambda c: c.get("def", "") in ("std::process::exit", "std::process::abort"))
    exits_ = [(b.deff, t["callee"]["def"]) for b, bb, t in exits_ if b.unit in (WD.SERVER + "-lib", WD.SERVER + "-bin")]
    rep.ob(rule + ".STARTUP", ("server", "no-process-exit"), not exits_, "process::exit / abort calls in the server crates: %s" % (exits_ or "none"))
    fsc = W.bodies_calling(lambda c: c.get("def", "").startswith("std::fs::") or c.get("def", "").startswith("std::io::"))
    fsc = [(b.deff, t["callee"]["def"]) for b, bb, t in fsc if b.unit in (WD.SERVER + "-lib", WD.SERVER + "-bin")]
    rep.ob(rule + ".STARTUP", ("server", "no-direct-file-access"), not fsc,
           "the server crates touch the file system only through SqliteStorage; direct std::fs / std::io calls: %s" % (fsc or "none"))
    # ARGS: field <- id agreement
    ab = W.body(ARGS_NEW)
    want_ids = {"data_dir": ("data-dir", "get_one"), "snapshot_versions": ("snapshot-versions", "get_one"), "snapshot_days": ("snapshot-days", "get_one"),
                "client_id_allowlist": ("allow-client-id", "get_many"), "listen_addresses": ("listen", "get_many")}
    for site, term in S.exits(W, ab):
        if not (term[0] == "agg" and isinstance(term[1], tuple) and term[1][1].endswith("ServerArgs")):
            rep.fail(rule + ".ARGS", ("ServerArgs::new", "builds-struct"), "returns %s" % P.show(term)[:100], where(ab))
            continue
        fl = dict(term[2])
        for fname, (aid, getter) in want_ids.items():
            t = fl.get(fname, ("unknown",))
            # (get_one / get_many borrow the parsed value, remove_one / remove_many take it out of the owned ArgMatches: same value)
            AM = "clap_builder::parser::matches::arg_matches::ArgMatches::"
            gets = list(set(x for x in deep_terms(W, ab, t) if x[0] == "call" and x[1].startswith(AM) and x[1][len(AM):].split("::")[0] in
                            ("get_one", "get_many", "remove_one", "remove_many", "get_raw", "get_occurrences", "get_flag", "get_count", "try_get_one", "try_get_many")))
            same = {"get_one": ("get_one", "remove_one"), "get_many": ("get_many", "remove_many")}[getter]
            okf = len(gets) == 1 and gets[0][1].split("::")[-1] in same and H.const_str(gets[0][3][1]) == aid
            # .. and reaches the field as parsed: between the getter and the field only unwrapping / copying / collecting
            other = sorted(set(x[1] for x in deep_terms(W, ab, t) if x[0] == "call" and not x[1].startswith(AM)
                               and x[1].split("::")[-1] not in ARG_TRANSPORTS))
            rep.ob(rule + ".ARGS", ("ServerArgs::new", fname, "value-unchanged"), not other,
                   "ServerArgs.%s is the parsed value itself; transformations applied on the way: %s" % (fname, [o.split("::")[-2:] for o in other] or "none"), where(ab), nontrivial=False)
            rep.ob(rule + ".ARGS", ("ServerArgs::new", fname), okf,
                   "ServerArgs.%s is read from %s; must be %s(\"%s\")" % (fname, [(x[1].split("::")[-1], H.const_str(x[3][1])) for x in gets], getter, aid), where(ab))
        al = fl.get("client_id_allowlist", ("unknown",))
        gm = [x for x in deep_terms(W, ab, al) if x[0] == "call" and (x[1].endswith("ArgMatches::get_many") or x[1].endswith("ArgMatches::remove_many"))]
        okn = len(set(gm)) == 1 and S.option_map_of(W.gea(ab), W.prov(ab), al, gm[0]) is not None
        rep.ob(rule + ".ARGS", ("ServerArgs::new", "absent-list-is-None"), okn,
               "client_id_allowlist is %s; an absent option must stay None (= allow everybody), e.g. not unwrap_or_default (= allow nobody)" % P.show(al)[:120], where(ab))
    # command(): id <-> env agreement
    cb = W.body(COMMAND)
    pvc = W.prov(cb)
    # the values the operator wrote are parsed by clap's own typed parsers: a hand-written value parser is a transformation
    # between "what was configured" and "what is applied" that none of the wiring obligations looks into
    custom = []
    nvp = 0
    for bb, t in cb.calls():
        if t["callee"].get("def", "").endswith("builder::arg::Arg::value_parser"):
            nvp += 1
            da = t["callee"].get("def_args", "")
            targ = da[da.index("::<") + 3:-1] if "::<" in da else da
            if not targ.startswith("clap_builder::builder::value_parser::"):
                custom.append((cb.line_of_block(bb), targ[-90:]))
    rep.ob(rule + ".PARSERS", ("command", "value-parsers-are-clap-builtin"), not custom,
           "Arg::value_parser arguments that are not clap's own typed parsers: %s" % (custom or "none"), where(cb, line=custom[0][0]) if custom else where(cb))
    rep.floor(rule + ".PARSERS", "value_parser calls in command()", nvp, 3, where(cb))
    want_env = {"data-dir": "DATA_DIR", "snapshot-versions": "SNAPSHOT_VERSIONS", "snapshot-days": "SNAPSHOT_DAYS", "allow-client-id": "CLIENT_ID", "listen": "LISTEN"}
    found = {}
    for bb, t in cb.calls():
        if not t["callee"].get("def", "").endswith("command::Command::arg"):
            continue
        a = pvc.arg_terms(bb)[1]
        env = None
        x = a
        root = None
        while True:
            if x[0] == "mut":
                x = x[3]
                continue
            if x[0] == "call" and x[3]:
                if x[1].endswith("::Arg::env"):
                    env = H.const_str(x[3][1])
                x = x[3][0]
                continue
            root = x
            break
        # the arg! macro builds the Arg through shadowed `arg` variables; the option's long name is its id
        aid = None
        seen_l = set()
        work = [root] if root is not None else []
        while work:
            r = work.pop()
            if r[0] != "phi" or r[1] in seen_l:
                continue
            seen_l.add(r[1])
            for _, alt in pvc.phi_alternatives(r[1]):
                for x in P.walk(alt):
                    if x[0] == "call" and x[1].endswith("::Arg::long") and aid is None:
                        aid = H.const_str(x[3][1])
                    if x[0] == "phi":
                        work.append(x)
        found[aid] = env
    for aid, env in want_env.items():
        rep.ob(rule + ".ARGS", ("command", aid), found.get(aid) == env,
               "option --%s reads environment variable %s; documented: %s" % (aid, found.get(aid), env), where(cb))
    rep.floor(rule + ".ARGS", "options defined by command()", len(found), 5, where(cb))


# =========================================================================== C13
CONTRACT = {
    # method -> set of logical fields written (transcribed from the StorageTxn doc comments)
    "get_client": set(), "get_snapshot_data": set(), "get_version_by_parent": set(), "get_version": set(), "commit": set(),
    "new_client": {"client.exists", "client.latest"},
    "set_snapshot": {"snapshot.version_id", "snapshot.timestamp", "snapshot.versions_since", "snapshot.data"},
    "add_version": {"version.id", "version.client", "version.parent", "version.payload", "client.latest", "snapshot.versions_since"},
}


def sqlite_written(W, mth):
    ss, un, uc, inst = S.sql_world(W)
    b = W.impl_method("sqlite", mth)
    out = set()
    for i in inst:
        if i.owner.key != b.key or i.stmt is None:
            continue
        for c, e in i.stmt["writes"]:
            lf = E.COLUMN_LOGICAL.get((i.stmt["table"], c))
            out.add(lf or "?%s.%s" % (i.stmt["table"], c))
    return out


def inmem_written(W, mth):
    b = W.impl_method("inmemory", mth)
    ops, stores = E.inmem_summary(W, b)
    out = set()
    for o in ops:
        if not o.write or o.method == "get_mut":
            continue
        if o.logical == "clients" and o.method == "insert":
            out |= {"client.exists", "client.latest"}
        elif o.logical == "snapshots" and o.method == "insert":
            out.add("snapshot.data")
        elif o.logical == "versions" and o.method == "insert":
            out |= {"version.id", "version.client", "version.payload"}
        elif o.logical == "children" and o.method == "insert":
            out.add("version.parent")
        else:
            out.add("?%s.%s" % (o.field, o.method))
    for s in stores:
        t = s.target
        if S.is_flag_store(W, s):
            continue
        if t[0] == "field" and t[2] == "latest_version_id":
            out.add("client.latest")
        elif t[0] == "field" and t[2] == "snapshot":
            out |= {"snapshot.version_id", "snapshot.timestamp", "snapshot.versions_since"}
        elif t[0] == "field" and t[2] == "versions_since":
            out.add("snapshot.versions_since")
        else:
            out.add("?store:" + P.show(t)[:40])
    return out


def c13(rep, W, rule="C13"):
    c13_reopen(rep, W, rule)
    c13_agree(rep, W, rule)


def c13_reopen(rep, W, rule="C13"):
    # ---- reopen clause
    sq = W.prog.adt("SqliteStorage")
    ftys = [(f["name"], f["ty"]) for f in sq["variants"][0]["fields"]] if sq else []
    rep.ob(rule + ".STATELESS", ("SqliteStorage", "only-a-path"), len(ftys) == 1 and ftys[0][1] == "std::path::PathBuf",
           "SqliteStorage fields %s; the storage object must carry nothing but the database path (every transaction opens a fresh connection)" % ftys)
    st = [s for s in W.prog.statics if s["unit"].startswith(WD.SQLITE)]
    rep.ob(rule + ".STATELESS", ("sqlite", "no-statics"), not st, "statics in the sqlite crate: %s" % ([s["def"] for s in st] or "none"))
    ss, un, uc, inst = S.sql_world(W)
    nb = W.body(WD.SQLITE + "::SqliteStorage::new")
    n = 0
    for i in inst:
        if i.owner.key != nb.key or i.stmt is None:
            continue
        n += 1
        v = i.stmt["verb"]
        if v == "PRAGMA":
            okv = (i.stmt["pragma"], i.stmt["pragma_value"]) == ("journal_mode", "WAL")
            det = "PRAGMA %s=%s" % (i.stmt["pragma"], i.stmt["pragma_value"])
        elif v in ("CREATE TABLE", "CREATE INDEX"):
            okv = bool(i.stmt["ddl"]["if_not_exists"])
            det = "%s %s %s" % (v, "IF NOT EXISTS" if okv else "(unconditional!)", i.stmt["table"])
        else:
            okv = False
            det = i.stmt["text"][:80]
        rep.ob(rule + ".IDEMPOTENT", ("SqliteStorage::new", v, str(i.stmt.get("table") or i.stmt.get("pragma"))), okv,
               "set-up statement: %s -- opening an existing database must be idempotent and non-destructive" % det, i.where())
    rep.floor(rule + ".IDEMPOTENT", "set-up statements", n, 4, where(nb))
    fsbad = W.bodies_calling(lambda c: c.get("def", "").startswith("std::fs::") and c.get("def", "").split("::")[-1] not in ("create_dir_all", "create_dir", "metadata", "read_dir", "exists"))
    fsbad = [(b.deff, t["callee"]["def"]) for b, bb, t in fsbad]        # anywhere in the workspace: main() "tidying" the data directory counts
    rep.ob(rule + ".IDEMPOTENT", ("workspace", "no-destructive-fs-calls"), not fsbad, "file-system calls other than create_dir_all / read-only queries in the workspace: %s" % (fsbad or "none"))


def c13_written(rep, W, rule="C13"):
    """Per StorageTxn method, the logical fields each back end writes are exactly the contract's.  Composed by every
    property that says a field changes ONLY through one method (C07: versions only by add_version; C10 / C11: the
    snapshot's version id, time and bytes only by set_snapshot; C18: the readers write nothing)."""
    for mth, want in CONTRACT.items():
        a = sqlite_written(W, mth)
        b = inmem_written(W, mth)
        rep.ob(rule + ".AGREE", (mth, "written-fields"), a == want and b == want,
               "StorageTxn::%s writes: sqlite %s, in-memory %s, contract %s" % (mth, sorted(a), sorted(b), sorted(want)),
               sample={"sqlite": sorted(a), "inmemory": sorted(b), "contract": sorted(want)})


def c13_agree(rep, W, rule="C13"):
    # ---- agreement clause
    ss, un, uc, inst = S.sql_world(W)
    S.s_class(rep, W)
    c13_written(rep, W, rule)
    S.s_failmodes(rep, W)       # both back ends fail for the same tabled reasons only
    S.s_mematomic(rep, W)       # failure modes: SQLite rolls a failed transaction back, the in-memory store cannot
    S.c01_key(rep, W)
    S.c02_cnt(rep, W)
    S.c11(rep, W)
    S.s_scope(rep, W)
    S.s_appendonly(rep, W)      # includes duplicate-is-error in memory and PRIMARY KEY + plain INSERT in SQL (C13.ERRDUP)
    # new_client: both store the given latest and no snapshot
    i_nc = [i for i in inst if i.owner.key == W.impl_method("sqlite", "new_client").key and i.stmt]
    okn = len(i_nc) == 1 and set(c for c, _ in i_nc[0].stmt["writes"]) == {"client_id", "latest_version_id"} and \
        m(S.stored_uuid(("param", 2, ANY)), i_nc[0].param(dict(i_nc[0].stmt["writes"])["latest_version_id"][1]) or ("unknown",)) is not None
    rep.ob(rule + ".AGREE", ("new_client", "sqlite-latest-from-arg"), okn, "sqlite new_client stores latest_version_id from its argument and leaves the snapshot columns NULL", where(W.impl_method("sqlite", "new_client")))
    ops, _ = E.inmem_summary(W, W.impl_method("inmemory", "new_client"))
    ins = [o for o in ops if o.logical == "clients" and o.method == "insert"]
    okm = len(ins) == 1 and m(pat.adt("Client", "Client", ("latest_version_id", ("param", 2, ANY)), ("snapshot", pat.adt("Option", "None", Ellipsis))), ins[0].value) is not None
    rep.ob(rule + ".AGREE", ("new_client", "inmemory-latest-from-arg"), okm, "in-memory new_client stores Client{latest: argument, snapshot: None}", where(W.impl_method("inmemory", "new_client")))
    rep.extra["tabled_divergences_outside_the_contract"] = [
        "new_client on an existing client: SQLite replaces the row, in-memory errors -- unreachable given S-NEWCLIENT",
        "add_version / set_snapshot on a missing client: 0-row UPDATE vs error -- unreachable: every Op checks get_client first",
        "sub-second timestamp truncation in SQLite -- exempted by the property",
        "in-memory panics on an uncommitted written transaction being dropped -- unreachable given S-TXN3",
    ]


def c04_schema_every_open(rep, W, rule="C04"):
    """The schema is created by separate autocommit statements, each `IF NOT EXISTS`; a start-up killed between two of them
    is completed by the next start only because EVERY open runs them all again.  So: SqliteStorage::new returns Ok only
    after each schema statement -- straight-line (the statement's result is Ok on every path to the exit) or in a loop over
    the statement list that ran to exhaustion."""
    ss, un, uc, inst = S.sql_world(W)
    nb = W.body(WD.SQLITE + "::SqliteStorage::new")
    g = W.gea(nb)
    pv = W.prov(nb)
    nexts = [a for a in g.atoms if a[0] == "VARIANT" and a[1][0] == "call" and a[1][1].endswith("Iterator::next")]
    n = 0
    for i in inst:
        if i.stmt is None or i.owner.key != nb.key or not i.stmt["verb"].startswith("CREATE"):
            continue
        n += 1
        atom = S.variant_atom(pv.def_term((i.site.bb, "T")))
        okall = True
        for site, term in S.exits(W, nb):
            if S.is_error_exit(term):
                continue
            straight = S.all_vals(g, site, ("is", atom, "ok"))
            looped = any(S.all_vals(g, site, ("is", a, "err")) and g.may_follow(a[1][2], i.site.bb) and g.may_follow(i.site.bb, a[1][2]) for a in nexts)
            okall = okall and (straight or looped)
        rep.ob(rule + ".SCHEMA", ("SqliteStorage::new", "every-open", i.stmt["verb"] + ":" + str(i.stmt.get("table"))), okall,
               "SqliteStorage::new returns Ok only after %s %s was executed (on every open, so that a half-created schema is completed)" % (i.stmt["verb"], i.stmt.get("table")),
               i.where())
    rep.floor(rule + ".SCHEMA", "schema statements in SqliteStorage::new", n, 3)


# =========================================================================== C04
def c04(rep, W, rule="C04"):
    ss, un, uc, inst = S.sql_world(W)
    nb = W.body(WD.SQLITE + "::SqliteStorage::new")
    npr = 0
    for i in inst:
        if i.stmt is None or i.stmt["verb"] != "PRAGMA":
            continue
        npr += 1
        okp = (i.stmt["pragma"], i.stmt["pragma_value"]) == ("journal_mode", "WAL") and i.owner.key == nb.key
        rep.ob(rule + ".PRAGMA", (S.short_fn(i.owner), "%s=%s" % (i.stmt["pragma"], i.stmt["pragma_value"])), okp,
               "PRAGMA %s=%s: only journal_mode=WAL (in SqliteStorage::new) is allowed; synchronous / other journal modes / locking_mode would weaken durability"
               % (i.stmt["pragma"], i.stmt["pragma_value"]), i.where())
    rep.floor(rule + ".PRAGMA", "PRAGMA statements", npr, 1)
    wal = [i for i in inst if i.stmt and i.stmt["verb"] == "PRAGMA" and i.owner.key == nb.key]
    if wal:
        g = W.gea(nb)
        atom = S.variant_atom(W.prov(nb).def_term((wal[0].site.bb, "T")))
        for site, term in S.exits(W, nb):
            if not S.is_error_exit(term):
                rep.ob(rule + ".PRAGMA", ("SqliteStorage::new", "wal-before-ok"), S.all_vals(g, site, ("is", atom, "ok")),
                       "SqliteStorage::new returns Ok only after the WAL pragma succeeded", where(nb))
    c04_schema_every_open(rep, W, rule)
    # positive example for the zero-count part of the rule
    ex = SM.SQL.parse("PRAGMA synchronous=OFF")
    rep.ob(rule + ".PRAGMA", ("selfcheck", "positive-example"), (ex["pragma"], ex["pragma_value"]) == ("synchronous", "OFF"),
           "built-in positive example (PRAGMA synchronous=OFF) is recognised and would be rejected", nontrivial=False)
    # ONECOMMIT: DML only in Txn methods, on self.con; set-up only in new
    for i in inst:
        if i.stmt is None:
            continue
        v = i.stmt["verb"]
        if v in ("INSERT", "UPDATE", "DELETE"):
            rep.ob(rule + ".ONECOMMIT", (S.short_fn(i.owner), v + ":" + str(i.stmt["table"])), i.owner.j.get("impl_trait") == WD.STORAGE_TXN,
                   "%s is issued by %s; every write must be issued by a transaction method (inside BEGIN IMMEDIATE ... COMMIT), never on a bare connection" % (v, i.owner.deff), i.where())
        if v in ("DROP", "ALTER", "VACUUM", "ATTACH", "DETACH", "REINDEX", "ROLLBACK"):
            rep.fail(rule + ".ONECOMMIT", (S.short_fn(i.owner), v), "statement %s is outside the durability skeleton" % i.stmt["text"][:60], i.where())
    fsbad = W.bodies_calling(lambda c: c.get("def", "") in ("std::fs::remove_file", "std::fs::remove_dir_all", "std::fs::remove_dir", "std::fs::File::create",
                                                           "std::fs::File::set_len", "std::fs::rename", "std::fs::write", "std::fs::OpenOptions::truncate"))
    rep.ob(rule + ".OPEN", ("workspace", "no-file-removal-or-truncation"), not fsbad, "destructive file-system calls: %s" % ([(b.deff, t["callee"]["def"]) for b, bb, t in fsbad] or "none"))


# =========================================================================== C19
BASELINE = os.path.join(VERIF, "baseline", "format-a6bc6ede.json")


def uuid_encoder_class(W):
    b = W.prog.body("<%s::StoredUuid as rusqlite::types::to_sql::ToSql>::to_sql" % WD.SQLITE) or W.prog.one(r"StoredUuid as rusqlite::.*ToSql>::to_sql$")
    if b is None:
        return None
    for site, term in S.exits(W, b):
        calls_ = [x[1] for x in P.walk(term) if x[0] == "call"]
        if "alloc::string::ToString::to_string" in calls_ and not any(c.split("::")[-1] in ("simple", "urn", "braced", "as_simple", "as_urn", "as_braced", "as_bytes", "to_bytes_le", "as_u128") for c in calls_):
            # Display of Uuid = hyphenated lowercase
            src = [x for x in P.walk(term) if x[0] == "call" and x[1] == "alloc::string::ToString::to_string"]
            if src and src[0][3][0] == ("field", ("param", 1, "self"), "0"):
                return "text:hyphenated-lowercase (Uuid::to_string)"
            return "text:to_string(%s)" % P.show(src[0][3][0]) if src else None
        return "other:" + ",".join(c.split("::")[-1] for c in calls_)
    return None


def uuid_decoder_class(W):
    b = W.prog.one(r"StoredUuid as rusqlite::.*FromSql>::column_result$")
    if b is None:
        return None
    for site, term in S.exits(W, b):
        if S.is_error_exit(term):
            continue
        calls_ = [x[1] for x in P.walk(term) if x[0] == "call"]
        if "uuid::parser::<impl uuid::Uuid>::parse_str" in calls_ and "rusqlite::types::value_ref::ValueRef::<'a>::as_str" in calls_:
            return "text:any-textual-form (ValueRef::as_str + Uuid::parse_str)"
        return "other:" + ",".join(c.split("::")[-1] for c in calls_)
    return None


def format_descriptor(W):
    ss, un, uc, inst = S.sql_world(W)
    tables, indexes = SM.schema(ss)
    uniq = {}
    for s_ in ss:
        for st_ in s_.stmts:
            if st_["verb"] == "CREATE INDEX":
                uniq[st_["ddl"]["index"]] = bool(st_["ddl"].get("unique"))
    d = {"file": None, "tables": {}, "indexes": sorted([[str(i[0]), str(i[1]) + (" UNIQUE" if uniq.get(i[1]) else ""), str(i[2])] for i in indexes]), "columns": {}, "uuid_encoder": uuid_encoder_class(W),
         "uuid_decoder": uuid_decoder_class(W)}
    comps = db_path_components(W)
    d["file"] = "/".join(comps) if comps else None
    for tname, cols in tables.items():
        d["tables"][tname] = {c: {"type": cd["type"], "affinity": SM.SQL.affinity(cd["type"]), "pk": cd["pk"], "notnull": cd["notnull"]} for c, cd in cols.items()}
    # per column: write encoders / read decoders
    def enc_of(t):
        if t is None:
            return "?"
        if m(S.stored_uuid(ANY), t) is not None:
            return "StoredUuid"
        if t[0] == "call" and t[1] == "chrono::datetime::DateTime::<Tz>::timestamp":
            return "i64:unix-seconds"
        if t[0] == "call" and t[1].startswith("chrono::datetime::DateTime::<Tz>::timestamp_"):
            return "i64:" + t[1].split("::")[-1]
        return "value"
    for i in inst:
        if i.stmt is None or i.stmt["table"] not in d["tables"]:
            continue
        tb = i.stmt["table"]
        for c, e in i.stmt["writes"]:
            k = "%s.%s" % (tb, c)
            ent = d["columns"].setdefault(k, {"write": [], "lookup": [], "read": []})
            if e[0] == "param":
                pt = i.param(e[1])
                ty = _param_rust_type(W, i, pt)
                ent["write"].append("%s:%s" % (enc_of(pt), ty))
            else:
                ent["write"].append("expr:%s" % (e,))
        for c, e in i.stmt["where"]:
            if c and e[0] == "param":
                k = "%s.%s" % (tb, c)
                ent = d["columns"].setdefault(k, {"write": [], "lookup": [], "read": []})
                pt = i.param(e[1])
                ent["lookup"].append("%s:%s" % (enc_of(pt), _param_rust_type(W, i, pt)))
        if i.stmt["verb"] == "SELECT":
            sel = i.stmt["select"]
            for key, ty, bb, term in i.rows:
                col = sel[key] if isinstance(key, int) and key < len(sel) else key
                k = "%s.%s" % (tb, col)
                ent = d["columns"].setdefault(k, {"write": [], "lookup": [], "read": []})
                ent["read"].append(ty.replace(WD.SQLITE + "::", ""))
    for k, ent in d["columns"].items():
        for kk in ent:
            ent[kk] = sorted(set(ent[kk]))
    # timestamp decoder
    gc = W.impl_method("sqlite", "get_client")
    d["timestamp_decoder"] = None
    ss_, _un, _uc, _inst = S.sql_world(W)
    mappers = [gc] + list(W.prog.closures_of(gc)) + [x.closure for x in ss_ if x.body.key == gc.key and x.closure is not None]
    seen_ = set()
    for cb in mappers:
        if cb.key in seen_:
            continue
        seen_.add(cb.key)
        for bb, t in cb.calls():
            if t["callee"].get("def") == "chrono::offset::TimeZone::timestamp_opt":
                a = W.prov(cb).arg_terms(bb)
                d["timestamp_decoder"] = "timestamp_opt(seconds, %s)" % (a[2][2] if a[2][0] == "const" else "?")
            elif t["callee"].get("def", "").startswith("chrono::offset::TimeZone::timestamp_"):
                d["timestamp_decoder"] = t["callee"]["def"].split("::")[-1]
    return d


def _param_rust_type(W, inst_, pt):
    if pt is None:
        return "?"
    if pt[0] == "param":
        b = inst_.owner
        return b.locals[pt[1]]["ty"]
    if pt[0] == "field" and pt[1][0] == "param":
        # field of a parameter struct: look the field type up
        b = inst_.owner
        pty = b.locals[pt[1][1]]["ty"].lstrip("&").replace("mut ", "")
        a = W.prog.adt(pty.split("::", 1)[-1]) if "::" in pty else None
        if a:
            for f in a["variants"][0]["fields"]:
                if f["name"] == pt[2]:
                    return f["ty"]
        return "?"
    if pt[0] == "call":
        return "ret:" + pt[1].split("::")[-1]
    if pt[0] == "agg":
        return "StoredUuid"
    return "?"


def c19(rep, W, ctx, rule="C19"):
    cur = format_descriptor(W)
    rep.extra["current_format"] = cur
    if not os.path.exists(BASELINE):
        rep.fail(rule, ("baseline", "present"), "baseline descriptor %s is missing (fail closed)" % BASELINE)
        return
    base = json.load(open(BASELINE))
    rep.ob(rule + ".FILE", ("database-file-name",), cur["file"] == base["file"], "database file %r; pinned release wrote %r" % (cur["file"], base["file"]))
    # .. and that path itself is what every connection opens: plain `Connection::open(<the path>)` (no URI string built from it,
    # no open flags: a `file:` URI is parsed -- `#`, `?`, `%xx` in a directory name then name another file)
    nopen = 0
    for b in W.prog.bodies.values():
        if b.unit != WD.SQLITE + "-lib":
            continue
        pvb = W.prov(b)
        for bb, t in b.calls():
            d = t["callee"].get("def", "")
            if d.startswith("rusqlite::Connection::open"):
                nopen += 1
                a0 = pvb.arg_terms(bb)[0] if pvb.arg_terms(bb) else ("unknown",)
                okp = d == "rusqlite::Connection::open" and (m(("field", ("param", 1, ANY), ANY), a0) is not None or
                                                              (a0[0] == "call" and a0[1].endswith("Path::join") and H.const_str(a0[3][1]) == cur["file"]))
                rep.ob(rule + ".FILE", (S.short_fn(b), "opens-the-path-itself", S.ordinal_key(b, d, bb)), okp,
                       "%s(%s); must be Connection::open(<the stored database path>)" % (d.split("::")[-1], P.show(a0)[:100]), where(b, bb), nontrivial=False)
    rep.floor(rule + ".FILE", "Connection::open sites", nopen, 1)
    # SCHEMA: every (table, column) the current statements touch exists in the baseline schema with the same declared type
    ss, un, uc, inst = S.sql_world(W)
    used = set()
    for i in inst:
        if i.stmt is None or i.stmt["verb"] in ("CREATE TABLE", "CREATE INDEX", "PRAGMA", "BEGIN", "COMMIT"):
            continue
        tb = i.stmt["table"]
        for c, _ in i.stmt["writes"]:
            used.add((tb, c))
        for c, _ in i.stmt["where"]:
            if c:
                used.add((tb, c))
        for c in i.stmt["select"]:
            used.add((tb, c))
    for tb, c in sorted(used):
        bcol = base["tables"].get(tb, {}).get(c)
        ccol = cur["tables"].get(tb, {}).get(c)
        rep.ob(rule + ".SCHEMA", (tb, c), bcol is not None and ccol is not None and bcol["type"] == ccol["type"] and bcol["pk"] == ccol["pk"],
               "column %s.%s: current %s, pinned release %s (an old database keeps its old schema: CREATE TABLE IF NOT EXISTS does not alter it)" % (tb, c, ccol, bcol))
    for tb, cols in cur["tables"].items():
        for c, cd in cols.items():
            if c not in base["tables"].get(tb, {}):
                rep.fail(rule + ".SCHEMA", (tb, c, "new-column"), "column %s.%s does not exist in databases written by the pinned release and no ALTER TABLE ... ADD COLUMN migrates them" % (tb, c))
    rep.floor(rule + ".SCHEMA", "columns used by statements", len(used), 8)
    # indexes / constraints created at open time are applied to the OLD data too
    base_idx = set(tuple(x) for x in base.get("indexes", []))
    for ix in cur.get("indexes", []):
        rep.ob(rule + ".SCHEMA", ("index", ix[1]), tuple(ix) in base_idx,
               "index %s on %s%s is created when an old database is opened; the pinned release %s" % (
                   ix[1], ix[0], ix[2], "had it too" if tuple(ix) in base_idx else "did NOT have it: a new (unique) index is built over old data that was never checked against it"),
               nontrivial=False)
    # ENC
    rep.ob(rule + ".ENC", ("uuid", "encoder"), cur["uuid_encoder"] == base["uuid_encoder"],
           "ids are written / looked up as %s; the pinned release wrote %s (equality lookups need the identical text form)" % (cur["uuid_encoder"], base["uuid_encoder"]))
    rep.ob(rule + ".ENC", ("uuid", "decoder"), cur["uuid_decoder"] is not None and cur["uuid_decoder"].startswith("text:any-textual-form"),
           "ids are read with %s" % cur["uuid_decoder"])
    rep.ob(rule + ".ENC", ("timestamp", "decoder"), cur["timestamp_decoder"] == base["timestamp_decoder"],
           "snapshot_timestamp decoded by %s; the pinned release wrote unix seconds (%s)" % (cur["timestamp_decoder"], base["timestamp_decoder"]))
    for k in sorted(set(cur["columns"]) | set(base["columns"])):
        c_, b_ = cur["columns"].get(k), base["columns"].get(k)
        if c_ is None:
            continue
        if b_ is None:
            rep.fail(rule + ".ENC", (k, "unknown-to-baseline"), "column %s is accessed now but was not by the pinned release" % k)
            continue
        rep.ob(rule + ".ENC", (k, "lookup+write-encoders"), set(c_["lookup"]) <= set(b_["lookup"]) | set(b_["write"]) and set(c_["write"]) <= set(b_["write"]) | set(b_["lookup"]),
               "column %s: current write %s lookup %s; pinned write %s lookup %s" % (k, c_["write"], c_["lookup"], b_["write"], b_["lookup"]))
        # a column the pinned release only ever WROTE through the id encoder (never NULL, always the hyphenated text) may be
        # read back through the matching id decoder (checked as a pair by uuid/encoder + uuid/decoder above)
        paired = {"StoredUuid"} if b_["write"] and all(w_ == "StoredUuid:StoredUuid" for w_ in b_["write"]) else set()
        rep.ob(rule + ".ENC", (k, "read-decoder"), set(c_["read"]) <= set(b_["read"]) | paired,
               "column %s is read as %s; the pinned release read it as %s (a decoder the old data was never read with needs its own argument)" % (k, c_["read"], b_["read"]))
    # NULLS: snapshot columns may be NULL in old databases
    for col in ("clients.snapshot_version_id", "clients.snapshot_timestamp", "clients.versions_since_snapshot"):
        rd = cur["columns"].get(col, {}).get("read", [])
        okn = all(r.startswith("core::option::Option<") for r in rd if "get_snapshot_data" not in r)
        # get_snapshot_data reads snapshot_version_id as non-optional but only after get_client reported a snapshot (C11.READ)
        rd_nonopt = [r for r in rd if not r.startswith("core::option::Option<")]
        rep.ob(rule + ".NULLS", (col,), len(rd_nonopt) <= (1 if col == "clients.snapshot_version_id" else 0),
               "column %s (NULL until a snapshot is stored) is read as %s" % (col, rd))


def write_baseline(W, path=BASELINE):
    os.makedirs(os.path.dirname(path), exist_ok=True)
    d = format_descriptor(W)
    with open(path, "w") as fh:
        json.dump(d, fh, indent=1, sort_keys=True)
    return d


# =========================================================================== C06
TRANSPORT_OK = set(P.TRANSPARENT)


def _is_request_payload(body, t):
    """t denotes the request's body stream: a coroutine capture / local of type actix_web::web::Payload."""
    while t[0] == "mut":
        t = t[3]
    if t[0] == "upvar":
        # type of capture i = type of `(_1.i)` as recorded in any place projection of the body
        for blk in body.blocks:
            for st in blk["stmts"]:
                if st["k"] != "assign":
                    continue
                for pl in _places_of(st):
                    if pl["l"] == 1:
                        pr = [e for e in pl["proj"] if e["k"] == "field" and e.get("upvar")]
                        if pr and pr[0]["i"] == t[1]:
                            return "payload::Payload" in pr[0]["ty"]
            tt = blk["term"]
            if tt["k"] == "call":
                for a_ in tt["args"]:
                    if a_.get("k") in ("copy", "move") and a_["p"]["l"] == 1:
                        pr = [e for e in a_["p"]["proj"] if e["k"] == "field" and e.get("upvar")]
                        if pr and pr[0]["i"] == t[1]:
                            return "payload::Payload" in pr[0]["ty"]
        return False
    return False


def _places_of(st):
    out = []
    rv = st["rv"]
    for k in ("p",):
        if isinstance(rv.get(k), dict):
            out.append(rv[k])
    for k in ("op", "a", "b"):
        o = rv.get(k)
        if isinstance(o, dict) and o.get("k") in ("copy", "move"):
            out.append(o["p"])
    for o in rv.get("ops", []):
        if o.get("k") in ("copy", "move"):
            out.append(o["p"])
    return out


def is_transport_of(t, src):
    """t is `src` possibly wrapped in identity transports (already normalised away by prov)."""
    return t == src


def c06_accum(rep, W, rule="C06", modules=("add_version", "add_snapshot")):
    """The body handed to the operation is the request's payload stream, accumulated whole, in order, to its end.  Composed by
    every property that says what is *stored* is what was *submitted* (C02, C11)."""
    # 1. write handlers: accumulation loop (in the handler, or in an awaited workspace helper that returns its accumulator)
    for module in modules:
        hbody = W.handler(module)
        fn = S.short_fn(hbody)
        acc, why = H.find_accumulation(W, module)
        if acc is None:
            rep.fail(rule + ".ACCUM", (fn, "accumulator"), "cannot locate the request-body accumulation: %s" % why, where(hbody))
            continue
        body = acc.body
        g = W.gea(body)
        pv = W.prov(body)
        bl = acc.local
        ext_name, len_name, new_name = H.ACC_TYPES[acc.ty]
        base = pv.def_term(pv.defsites[bl][0]) if len(pv.defsites.get(bl, [])) == 1 else None
        rep.ob(rule + ".ACCUM", (fn, "starts-empty"), base is not None and base[0] == "call" and base[1] == new_name and not base[3],
               "accumulator starts as %s" % (P.show(base) if base else "?"), where(body))
        muts = pv.mutators(bl)
        rep.ob(rule + ".ACCUM", (fn, "only-extend_from_slice"), bool(muts) and all(c == ext_name and ai == 0 for _, c, ai in muts),
               "mutators of the accumulator: %s" % sorted(set(c.split("::")[-1] for _, c, _ in muts)), where(body))
        for bb, c, ai in muts:
            if c != ext_name:
                continue
            chunk = pv.arg_terms(bb)[1]
            core = chunk
            depth = 0
            while core[0] == "ok":
                core = core[1]
                depth += 1
            okc = core[0] == "call" and core[1] == "core::future::future::Future::poll" and depth == 3 and \
                any(x[0] == "call" and x[1] in H.STREAM_PULL and _is_request_payload(body, x[3][0]) for x in P.walk(core))
            rep.ob(rule + ".ACCUM", (fn, "appends-whole-chunk", S.ordinal_key(body, c, bb)), okc,
                   "appended slice is %s; must be the whole chunk yielded by payload.next().await / payload.try_next().await (no index / split / slice / timeout wrapper)" % P.show(chunk)[:140], where(body, bb))
            nxt = [x for x in P.walk(core) if x[0] == "call" and x[1] in H.STREAM_PULL]
            if nxt:
                nbb = nxt[0][2]
                chunk_atom = ("VARIANT", chunk[1])   # ok(ok(poll)) : Result<Bytes,_> is Ok
                okv = frozenset(["ok"])
                starts = [y for x_, ys in g.edges.items() if dict(x_[1]).get(chunk_atom) != okv for y in ys if dict(y[1]).get(chunk_atom) == okv]
                seen = set()
                stk = list(starts)
                skipped = False
                while stk:
                    x = stk.pop()
                    if x in seen or x[0] == bb:
                        continue
                    seen.add(x)
                    if x[0] == nbb:
                        skipped = True
                        break
                    for y in g.edges.get(x, ()):
                        stk.append(y)
                rep.ob(rule + ".ACCUM", (fn, "no-chunk-skipped", S.ordinal_key(body, c, bb)), bool(starts) and not skipped,
                       "once a chunk has been received no path polls for the next chunk without appending it", where(body, bb))
                # the loop ends only at end-of-stream: the accumulated bytes are handed on (helper: returned; handler: passed to
                # the operation) only under "the stream yielded None" -- not after an Err item, not after a chunk
                if nxt[0][1].endswith("try_next"):      # Poll<Result<Option<Bytes>, E>>
                    endf = ("and", ("is", ("VARIANT", ("ok", core)), "ok"), ("is", ("VARIANT", ("ok", ("ok", core))), "err"))
                else:                                   # Poll<Option<Result<Bytes, E>>>
                    endf = ("is", ("VARIANT", ("ok", core)), "err")
                if acc.helper is not None:
                    ends = [site for site, term in S.exits(W, body) if not S.is_error_exit(term)]
                else:
                    ends = [(b_, "T") for b_, _t in S.sites_of(body, WD.op(WD.HANDLER_OP[module]))]
                for site in ends:
                    rep.ob(rule + ".ACCUM", (fn, "returns-only-at-end-of-stream"), S.all_vals(g, site, endf),
                           "the accumulated bytes are handed on only when the stream reported its end (None); offending: %s" % S.failing_vals(g, site, endf)[:1], where(body))
        rep.ob(rule + ".ACCUM", (fn, "op-gets-accumulated-bytes"), True,
               "payload passed to Server::%s is %s (the accumulator%s; to_vec / clone are identity transports)" % (
                   WD.HANDLER_OP[module], P.show(acc.payload)[:80], "" if acc.helper is None else " returned by " + acc.helper[0].split("::")[-1]), where(hbody), nontrivial=False)


def c06(rep, W, rule="C06"):
    c06_accum(rep, W, rule)
    # 2. Ops pass the payload parameter to storage unchanged (S-CAS iv / C10.W do this; repeat cheaply)
    av = W.op("add_version")
    sites_ = S.sites_of(av, WD.tm("add_version"))
    if sites_:
        a = W.prov(av).arg_terms(sites_[0][0])
        rep.ob(rule + ".OP", ("add_version", "payload-param"), m(("param", 4, ANY), a[3]) is not None, "txn.add_version receives %s" % P.show(a[3]), where(av, sites_[0][0]))
    sn = W.op("add_snapshot")
    sites_ = S.sites_of(sn, WD.tm("set_snapshot"))
    if sites_:
        a = W.prov(sn).arg_terms(sites_[0][0])
        rep.ob(rule + ".OP", ("add_snapshot", "payload-param"), m(("param", 4, ANY), a[2]) is not None, "txn.set_snapshot receives %s" % P.show(a[2]), where(sn, sites_[0][0]))
    # 3. storage: BLOB in / BLOB out
    ss, un, uc, inst = S.sql_world(W)
    tables, _ = SM.schema(ss)
    for (mth, tb, col, pidx) in (("add_version", "versions", "history_segment", 4), ("set_snapshot", "clients", "snapshot", 3)):
        b = W.impl_method("sqlite", mth)
        hit = 0
        for i in inst:
            if i.owner.key != b.key or i.stmt is None:
                continue
            for c, e in i.stmt["writes"]:
                if c == col:
                    hit += 1
                    pt = i.param(e[1]) if e[0] == "param" else None
                    okb = pt is not None and m(("param", pidx, ANY), pt) is not None and b.locals[pidx]["ty"] == "alloc::vec::Vec<u8>"
                    rep.ob(rule + ".BLOB", ("sqlite", mth, "bind"), okb, "column %s.%s is bound to %s of type %s; must be the Vec<u8> parameter (rusqlite binds it as BLOB)"
                           % (tb, col, P.show(pt) if pt else e, b.locals[pidx]["ty"]), i.where())
        rep.floor(rule + ".BLOB", "sqlite %s payload binds" % mth, hit, 1)
        cd = tables.get(tb, {}).get(col)
        rep.ob(rule + ".BLOB", ("sqlite", tb + "." + col, "declared-BLOB"), cd is not None and SM.SQL.affinity(cd["type"]) == "BLOB",
               "column %s.%s declared %s (affinity %s): BLOB affinity applies no conversion" % (tb, col, cd and cd["type"], cd and SM.SQL.affinity(cd["type"])))
    nread = 0
    for i in inst:
        if i.stmt is None or i.stmt["verb"] != "SELECT":
            continue
        sel = i.stmt["select"]
        for key, ty, bb, term in i.rows:
            colname = sel[key] if isinstance(key, int) and key < len(sel) else key
            if colname in ("history_segment", "snapshot"):
                nread += 1
                rep.ob(rule + ".BLOB", ("sqlite", S.short_fn(i.owner), "read", colname), ty == "alloc::vec::Vec<u8>",
                       "column %s is read as %s; must be Vec<u8> (BLOB out)" % (colname, ty), i.where())
    rep.floor(rule + ".BLOB", "payload column reads", nread, 3)
    # row closures hand the bytes on unchanged: Version.history_segment / (v, d)
    S.c01_key(rep, W)
    # in-memory: value inserted is the parameter; reads are clones (c01_key / c11 cover versions; snapshots here)
    mb = W.impl_method("inmemory", "get_snapshot_data")
    ops, _ = E.inmem_summary(W, mb)
    sg = [o for o in ops if o.logical == "snapshots" and o.method == "get"]
    okr = False
    for site, rt, val, kind in S.exit_kinds(W, mb, lambda t: "x"):
        mm = m(pat.adt("Result", "Ok", ("0", V("x"))), rt)
        if mm is not None and sg and S.is_lookup_result(mm["x"], sg[0].term):
            okr = True
    rep.ob(rule + ".BLOB", ("inmemory", "get_snapshot_data", "returns-stored-bytes"), okr, "in-memory get_snapshot_data returns snapshots.get(client).cloned()", where(mb))
    # 4. Ops return the storage record's fields (C08 i / C11.READ)
    S.c08(rep, W)
    # 5. read handlers: body + id headers from the same outcome (C14 rows found/found)
    H.c14_tables(rep, W, modules=("get_child_version", "get_snapshot"))
    # transparent-wrapper table used on the path
    rep.extra["identity_transports"] = sorted(P.TRANSPARENT)
