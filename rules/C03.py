"""C03 - concurrent requests for one client behave as if executed one at a time."""
from rules import http as H
from rules import shared as S
from tcss import world as WD

LEVEL = "other"
TRUSTED = ["TB-rustc", "TB-sqlite (file locking excludes concurrent write transactions; 5000 ms default busy timeout)", "TB-mutex"]
EXPLANATION = ("serializability skeleton (strict 2PL with one global lock per backend): one exclusive transaction per operation, every "
               "check-then-act inside one transaction, no shared state outside storage, retry loop re-enters the whole operation. "
               "Exclusion itself (SQLite locking, Mutex) and real schedules are trusted / not decided.")
ASSUMPTIONS = ["linearizability of actual executions under real schedulers is NOT decided; only the code-shape side of the argument is"]


def run(rep, W, ctx):
    S.s_sql_closed(rep, W)
    for opn in WD.OPS:
        S.s_txn1(rep, W, W.op(opn))
    h = W.handler("add_version")
    S.s_txn1(rep, W, h, opener=WD.SERVER_TXN, rule="S-TXN1", nested_check=False)  # the Op it retries opens its own, later, transaction
    S.s_txn2(rep, W)
    S.s_txn3(rep, W, W.op("add_version"))
    S.s_txn3(rep, W, W.op("add_snapshot"))
    S.s_txn3(rep, W, h)
    S.s_newclient(rep, W)
    S.s_failstop_all(rep, W)          # a failed storage step is never retried / patched up inside the transaction
    S.c03_nostate(rep, W)
    S.c03_loop(rep, W)
    S.s_wmc(rep, W)
    # "two overlapping AddVersion requests are never both accepted on the same parent": exclusion (above) makes them run one
    # after the other; that the second is then rejected is the compare-and-append guard evaluated inside the transaction
    S.s_cas(rep, W)
    H.c03_noawait(rep, W)
