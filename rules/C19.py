from rules import wiring as WR
"""C19 - databases written by the pinned release stay readable after an upgrade."""
LEVEL = "other"
TRUSTED = ["TB-rustc", "TB-sqlite (column affinity rules, WAL recovery of a leftover log)"]
EXPLANATION = ("on-disk format descriptor (file name, schema, per-column write/lookup encoders and read decoders, id and timestamp codecs) extracted from the current tree "
               "and compared with the descriptor extracted by the same extractor from the pinned release a6bc6ede (committed under baseline/)")
ASSUMPTIONS = ["no fixture directory is opened; a leftover WAL is TB-sqlite"]


def run(rep, W, ctx):
    WR.S.s_sql_closed(rep, W)
    WR.c19(rep, W, ctx)
    # "a data directory written by the pinned release opens ..": the directory the operator names is the one that is opened
    WR.c17(rep, W, sections={".DIR", ".ARGS", ".PARSERS"}, keyfilter=lambda rl, key: rl.endswith(".DIR") or rl.endswith(".PARSERS") or "data_dir" in key)
    WR.c13_reopen(rep, W, rule="C19.OPEN")     # opening an existing data directory is idempotent and non-destructive
