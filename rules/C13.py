from rules import wiring as WR
"""C13 - all storage backends, and a reopened database, behave identically."""
LEVEL = "other"
TRUSTED = ["TB-rustc", "TB-sqlite", "TB-mutex"]
EXPLANATION = ("reopen clause decided completely: the storage object is stateless and set-up is idempotent DDL; backend agreement: write-effect sets, key scoping, "
               "value provenance and class per trait method compared between the two implementations and with the contract table (necessary, not sufficient)")
ASSUMPTIONS = ["response-by-response equality on histories is NOT decided (behavioural equivalence of two implementations is not a code-shape fact)"]


def run(rep, W, ctx):
    WR.S.s_sql_closed(rep, W)
    WR.c13(rep, W)
    # "closing and reopening the database changes no later response": what is written is read back as the same value -- the
    # column codecs of the format descriptor (C19's rules, under their own names)
    WR.c19(rep, W, ctx)
