"""C18 - reads and rejected writes leave stored state untouched."""
from rules import http as H
from rules import shared as S
LEVEL = "proof"
TRUSTED = ["TB-rustc", "TB-sqlite (an uncommitted BEGIN IMMEDIATE leaves no trace)", "TB-mutex"]
EXPLANATION = "read operations and reject/decline paths contain no write-class effect (transitively, both back ends); S-WMC closes the world"


def run(rep, W, ctx):
    S.s_sql_closed(rep, W)
    S.s_class(rep, W)
    S.c18_ops(rep, W)
    S.c10(rep, W)          # which AddSnapshot requests are *declined* is defined by the acceptance conditions
    S.s_wmc(rep, W)
    S.c03_loop(rep, W)
    H.c18_handlers(rep, W)
    S.s_txn2(rep, W)       # a refused / failed write is undone by dropping the transaction only if one was really begun
    from rules import wiring as WR
    WR.c13_written(rep, W)  # the readers write nothing, on both back ends
    S.s_mematomic(rep, W)  # the in-memory back end has no rollback: a failing method must not have written
    H.c15_bound(rep, W)    # which write requests are *refused* (wrong content type, empty / oversized body) is defined by these guards
