from rules import wiring as WR
"""C17 - the server binary honours its command-line and environment configuration."""
LEVEL = "other"
TRUSTED = ["TB-rustc", "clap parses flags / environment as configured by command()", "TB-actix (bind/run)"]
EXPLANATION = "configuration wiring provenance in main: each parsed value reaches the constructor slot the statement names; option id <-> env name <-> struct field agreement"
ASSUMPTIONS = ["sockets actually bound and restart behaviour are not decided (C13 reopen clause + TB-sqlite)"]


def run(rep, W, ctx):
    WR.c17(rep, W)
    # "enforces exactly the given client-id allow-list" = the list reaches the server unchanged (above) AND the server
    # enforces whatever list it was given (the C16 obligations: helper decision table, dominance, immutability)
    from rules import http as H
    H.c16(rep, W)
    # "applies the given snapshot targets": below main(), the config reaches the two classifiers unchanged
    from rules import shared as S
    S.c17_targets(rep, W)
    S.c12_max(rep, W)      # .. and the measures compared with the targets are the record's own (a count off by one makes target N behave as N-1)
