"""C10 - snapshots are accepted only for recent, newer versions and never move backwards."""
from rules import http as H
from rules import shared as S
from tcss import world as WD
LEVEL = "other"
TRUSTED = ["TB-rustc", "TB-sqlite", "TB-mutex", "Inv(c) of C01 (the chain the walk follows)"]
EXPLANATION = ("snapshot acceptance skeleton on Server::add_snapshot: guard order (G0..G4) as valuations of id-equality atoms at the write, "
               "the walk step and every decline exit; induction-variable trip count of the accept test = 5; one parent link per step; "
               "decline paths write-free")
ASSUMPTIONS = ["the property over actual chains of length 0..8+ is not executed; the deliberately unspecified corner (v = non-nil chain base) is neither required nor forbidden"]


def run(rep, W, ctx):
    body = W.op("add_snapshot")
    S.s_txn1(rep, W, body)
    S.c10(rep, W)
    S.s_txn3(rep, W, body)
    S.c18_ops(rep, W)
    H.handler_args(rep, W)
    S.s_wmc(rep, W, only=[WD.tm("set_snapshot")])
    # "replaces the stored snapshot" / "stay untouched": set_snapshot stores what it is given, nothing else writes those fields
    from rules import wiring as WR
    S.s_sql_closed(rep, W)
    S.c11(rep, W)
    WR.c13_written(rep, W)
    H.c14_tables(rep, W, modules=("add_snapshot",))       # "the client is told success either way"
