"""C02 - AddVersion is an atomic compare-and-append on the latest version."""
from rules import http as H
from rules import shared as S
from tcss import world as WD

LEVEL = "proof"
TRUSTED = ["TB-rustc", "TB-sqlite", "TB-mutex", "TB-uuid"]
EXPLANATION = ("S-CAS guard formula over the finite set of id-equality valuations, argument identity, fresh-id provenance, "
               "single exclusive transaction, commit discipline, reject path write-free")


def run(rep, W, ctx):
    body = W.op("add_version")
    S.s_sql_closed(rep, W)
    S.s_txn1(rep, W, body)
    S.s_txn2(rep, W)                    # "atomic": the transaction is exclusive from begin to commit
    S.s_cas(rep, W)
    S.s_txn3(rep, W, body)
    S.s_failstop_all(rep, W)          # a failed storage step is never retried / patched up inside the transaction
    S.s_wmc(rep, W, only=[WD.tm("add_version")])
    S.c01_key(rep, W)                   # stored with exactly the submitted parent and payload; becomes the latest
    S.c02_cnt(rep, W)                   # "nothing about the client changes" on reject / counter bookkeeping on accept
    S.c18_ops(rep, W)                   # reject exit is write-free
    H.handler_args(rep, W)             # through the HTTP entry point: (validated client id, path id, accumulated body)
    S.s_clientid(rep, W)
    # "latest is nil" must mean "no versions yet": the one place outside the operation that writes the latest pointer (client
    # creation in the add-version handler) leaves it nil, only for an absent client
    S.s_newclient(rep, W)
    H.c15_refuse(rep, W, modules=("add_version",))               # .. nor does the handler turn a valid request away for a reason the protocol does not know
    S.s_failmodes(rep, W, ops=("add_version",), methods=("get_client", "add_version", "new_client", "commit"))              # "accepted exactly when": no further way for a valid request to fail
    from rules import wiring as WR
    WR.c06_accum(rep, W, modules=("add_version",))   # "stored with exactly the submitted payload": the body is read whole, to the end of the stream
    S.s_mematomic(rep, W)              # in memory, a failed append must not have moved the latest pointer
    # "the response carries a new version id ... / names the current latest": the AddVersion handler's outcome table
    H.c14_tables(rep, W, modules=("add_version",))
