"""C02 - AddVersion is an atomic compare-and-append on the latest version."""
from rules import shared as S
from tcss import world as WD

LEVEL = "proof"
TRUSTED = ["TB-rustc", "TB-sqlite", "TB-mutex", "TB-uuid"]
EXPLANATION = ("S-CAS guard formula over the finite set of id-equality valuations, argument identity, fresh-id provenance, "
               "single exclusive transaction, commit discipline, reject path write-free")


def run(rep, W, ctx):
    body = W.op("add_version")
    S.s_txn1(rep, W, body)
    S.s_cas(rep, W)
    S.s_txn3(rep, W, body)
    S.s_wmc(rep, W, only=[WD.tm("add_version")])
