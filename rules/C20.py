"""C20 - every response forbids caching."""
from rules import http as H
LEVEL = "other"
TRUSTED = ["TB-rustc", "TB-actix (scope middleware wraps every response produced inside the scope incl. default 404; DefaultHeaders never overrides)"]
EXPLANATION = "every service registration is under the scope wrapped with the no-store default header; nothing else sets Cache-Control"


def run(rep, W, ctx):
    H.c20(rep, W)
