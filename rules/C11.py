"""C11 - GetSnapshot returns the latest accepted snapshot, which is always a usable base."""
from rules import http as H
from rules import shared as S
from tcss import world as WD
LEVEL = "other"
TRUSTED = ["TB-rustc", "TB-sqlite", "TB-mutex"]
EXPLANATION = ("id+bytes written by one statement / one method and read in one transaction with a cross-check of the stored id; the only writer "
               "is the accept path of AddSnapshot; column <-> field agreement of the metadata; the bytes handed to AddSnapshot are this request's own "
               "accumulated body (no buffer or other state shared between requests)")
ASSUMPTIONS = ["the walk from the snapshot id to latest is the conclusion of C10 + C08 + C01, not executed here"]


def run(rep, W, ctx):
    S.s_sql_closed(rep, W)
    S.s_txn1(rep, W, W.op("get_snapshot"))
    S.c11(rep, W)
    S.c10(rep, W)
    S.s_wmc(rep, W, only=[WD.tm("set_snapshot")])
    S.c03_nostate(rep, W)      # the id and the bytes of one upload cannot be mixed with another request's: no shared buffers / statics / thread-locals
    # "a usable base: following child versions from it reaches the latest without being told gone" rests on the chain being
    # unbranched (the acceptance rule) and on GetChildVersion's answers
    S.s_cas(rep, W)
    S.s_class(rep, W)          # a read (GetSnapshot) leaves the stored bytes where they are
    S.c08(rep, W)
    from rules import wiring as WR
    WR.c06_accum(rep, W, modules=("add_snapshot",))  # "id and bytes always from the same upload": the bytes are the upload, whole
    WR.c13_written(rep, W)     # the snapshot's version id / time / bytes are written by set_snapshot only, on both back ends
    H.c14_tables(rep, W, modules=("get_snapshot",))      # id header and bytes of the same record reach the client
    H.handler_args(rep, W)     # the handler hands AddSnapshot the path id and the body accumulated from this very request
