"""C11 - GetSnapshot returns the latest accepted snapshot, which is always a usable base."""
from rules import shared as S
from tcss import world as WD
LEVEL = "other"
TRUSTED = ["TB-rustc", "TB-sqlite", "TB-mutex"]
EXPLANATION = ("id+bytes written by one statement / one method and read in one transaction with a cross-check of the stored id; the only writer "
               "is the accept path of AddSnapshot; column <-> field agreement of the metadata")
ASSUMPTIONS = ["the walk from the snapshot id to latest is the conclusion of C10 + C08 + C01, not executed here"]


def run(rep, W, ctx):
    S.s_sql_closed(rep, W)
    S.s_txn1(rep, W, W.op("get_snapshot"))
    S.c11(rep, W)
    S.c10(rep, W)
    S.s_wmc(rep, W, only=[WD.tm("set_snapshot")])
