"""C08 - GetChildVersion answers found / not-found / gone consistently with AddVersion."""
from rules import shared as S
LEVEL = "proof"
TRUSTED = ["TB-rustc", "TB-sqlite", "TB-mutex"]
EXPLANATION = ("decision-table equivalence between GetChildVersion and AddVersion over the finite set of id-equality valuations "
               "(latest==NIL, parent==latest, child-exists): exhaustive, 4 rows")


def run(rep, W, ctx):
    S.s_txn1(rep, W, W.op("get_child_version"))
    S.s_txn1(rep, W, W.op("add_version"))
    S.c08(rep, W)
