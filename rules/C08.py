"""C08 - GetChildVersion answers found / not-found / gone consistently with AddVersion."""
from rules import http as H
from rules import shared as S
LEVEL = "proof"
TRUSTED = ["TB-rustc", "TB-sqlite", "TB-mutex"]
EXPLANATION = ("decision-table equivalence between GetChildVersion and AddVersion over the finite set of id-equality valuations "
               "(latest==NIL, parent==latest, child-exists): exhaustive, 4 rows; both endpoints accept the same set of parent ids "
               "(plain path parameters parsed by the typed extractor, no route pattern)")


def run(rep, W, ctx):
    S.s_txn1(rep, W, W.op("get_child_version"))
    S.s_txn1(rep, W, W.op("add_version"))
    S.c08(rep, W)
    S.s_sql_closed(rep, W)
    S.c01_key(rep, W)                # "returns the child of p if one exists": a version is stored under, and looked up by, the parent it was submitted with
    S.s_uuidcodec(rep, W)            # the SQLite child lookup `parent_version_id = ?` matches exactly the stored parent, nil included
    H.c14_tables(rep, W, modules=("get_child_version",))   # found / 404 / 410 and "never seen -> 404" as answered over HTTP
    H.handler_args(rep, W)           # the parent id asked about is the one in the URL, the client the validated header's
    H.route_params_plain(rep, W)     # the two endpoints take the parent id from the URL the same way: no route pattern narrows one of them
