"""C05 - a storage failure yields an error response and no partial effect."""
from rules import http as H
from rules import shared as S
from tcss import world as WD
LEVEL = "other"
TRUSTED = ["TB-rustc", "TB-sqlite (a failed / uncommitted transaction leaves no trace and releases its lock when the connection closes)", "TB-actix"]
EXPLANATION = ("error discipline: no storage Result dropped anywhere in the workspace (Result-consumption analysis over every Result-valued call), "
               "error -> 5xx map, success acknowledged only after commit, no commit-on-drop; fault *sequences* and post-failure state are not executed")
ASSUMPTIONS = ["post-failure state equality is TB-sqlite; the rule covers every fallible call site (the universe the fault-injection quantifier ranges over) but establishes propagation, not state"]


def run(rep, W, ctx):
    S.c05_err(rep, W)
    S.c05_map(rep, W)
    S.c05_drop(rep, W)
    S.s_failstop_all(rep, W)          # a failed storage step is never retried / patched up inside the transaction
    S.s_sql_closed(rep, W)
    S.s_txn2(rep, W)
    for b in (W.op("add_version"), W.op("add_snapshot"), W.handler("add_version")):
        S.s_txn3(rep, W, b)
    S.s_ack_handler(rep, W, "add_version", "add_version")
    S.s_ack_handler(rep, W, "add_snapshot", "add_snapshot")
