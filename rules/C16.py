"""C16 - the client-id allow-list is enforced on every endpoint."""
from rules import http as H
from rules import shared as S
from rules import wiring as WR
LEVEL = "proof"
TRUSTED = ["TB-rustc", "TB-actix (routing)"]
EXPLANATION = ("the allow-list test dominates every storage access on every registered protocol route; the helper's decision table over "
               "(header present, list present, id contained); the list reaches the shared state unchanged and is immutable")


def run(rep, W, ctx):
    H.c16(rep, W)
    S.s_clientid(rep, W)
    # "enforces exactly the given list" / "with no list every well-formed id is served": the list reaches WebServer::new
    # unchanged and an absent option stays None
    WR.c17(rep, W, sections={".LIST", ".ARGS", ".PARSERS"})
