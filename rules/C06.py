from rules import wiring as WR
"""C06 - version and snapshot payloads are returned byte-for-byte as uploaded."""
LEVEL = "other"
TRUSTED = ["TB-rustc", "TB-actix (delivers every chunk once, in order)", "TB-sqlite (BLOB columns store bytes unchanged)"]
EXPLANATION = ("payload is an identity transport end to end: accumulated from every chunk, whole, in arrival order; thereafter only moved/cloned through an explicit table of "
               "identity transports; bound as BLOB into a BLOB column and read back as Vec<u8>; handed to the response body together with ids from the same record")
ASSUMPTIONS = ["no code looks at the bytes, which is why byte values, sizes and page boundaries cannot matter inside this repository; sizes up to 100 MiB in SQLite/actix are trusted"]


def run(rep, W, ctx):
    WR.S.s_sql_closed(rep, W)
    WR.c06(rep, W)
    WR.H.c15_bound(rep, W)         # "every payload from one byte up to the size limit": the limit is 100 MiB, inclusive, in both upload handlers
    WR.S.s_failmodes(rep, W)     # "every payload from one byte up to the size limit": no size- or content-dependent failure below the HTTP layer
