"""HTTP layer: outcome -> (status, headers, content type, body) tables extracted from the handlers."""
from rules import shared as S
from tcss import gea as G
from tcss import pat
from tcss import prov as P
from tcss import world as WD
from tcss.pat import ANY, V, call, m
from tcss.report import where

RB = "actix_web::response::builder::HttpResponseBuilder::"
TO_STRING = "alloc::string::ToString::to_string"
MAP_ERR = "core::result::Result::<T, E>::map_err"
# pulling the next chunk of a byte stream: Option<Result<Bytes,E>> resp. Result<Option<Bytes>,E> (same three "ok" layers)
STREAM_PULL = {"futures_util::stream::stream::StreamExt::next", "futures_util::stream::try_stream::TryStreamExt::try_next"}
SERVER_ERROR_TO_ACTIX = WD.SERVER + "::api::server_error_to_actix"
FAILURE_TO_ISE = WD.SERVER + "::api::failure_to_ise"


def fn_value_key(W, t):
    """Body key of a function item / closure used as a value."""
    if t[0] == "fn":
        return t[1] if t[1] in W.prog.bodies else None
    if t[0] == "agg" and isinstance(t[1], tuple) and t[1][0] == "closure":
        return t[1][1] if t[1][1] in W.prog.bodies else None
    return None


def ctor_status(W, term, depth=0):
    """Statuses an actix error value term may carry: set of ints / strings; None when unknown."""
    if depth > 4:
        return None
    if term[0] == "call":
        if term[1] in S.STATUS_CTORS:
            return {S.STATUS_CTORS[term[1]]}
        if term[1] in W.prog.bodies:
            return fn_statuses(W, term[1], depth + 1)
        if term[1] in ("core::convert::Into::into", "core::convert::From::from") and len(term[3]) == 1:
            # a value of a private error type that implements actix's ResponseError, turned into actix_web::Error by the
            # framework's blanket `impl<T: ResponseError> From<T> for Error`: the status is the type's status_code()
            x = term[3][0]
            if x[0] == "agg" and isinstance(x[1], tuple) and x[1][0] == "adt":
                return response_error_status(W, x[1][1])
    if term[0] == "agg" and isinstance(term[1], tuple) and term[1][0] == "adt":
        # (the same value propagated by `?`, whose conversion to actix_web::Error is that blanket impl)
        return response_error_status(W, term[1][1])
    return None


RESPONSE_ERROR = "actix_web::error::response_error::ResponseError"
STATUS_CONSTS = {"BAD_REQUEST": 400, "UNAUTHORIZED": 401, "FORBIDDEN": 403, "NOT_FOUND": 404, "METHOD_NOT_ALLOWED": 405, "CONFLICT": 409, "GONE": 410,
                 "PAYLOAD_TOO_LARGE": 413, "UNSUPPORTED_MEDIA_TYPE": 415, "UNPROCESSABLE_ENTITY": 422, "TOO_MANY_REQUESTS": 429,
                 "INTERNAL_SERVER_ERROR": 500, "NOT_IMPLEMENTED": 501, "BAD_GATEWAY": 502, "SERVICE_UNAVAILABLE": 503, "OK": 200, "CREATED": 201, "NO_CONTENT": 204}


def response_error_status(W, adt):
    """Statuses of a workspace type's `impl ResponseError`: the trait's default (500) when status_code() is not overridden,
    the constants status_code() returns when it is; None when error_response() is hand-written (not modelled)."""
    imps = [i for i in W.prog.impls if i.get("trait") == RESPONSE_ERROR and i.get("self_ty") == adt]
    if len(imps) != 1:
        return None
    items = {it["name"]: it["def"] for it in imps[0].get("items", [])}
    if "error_response" in items:
        return None
    if "status_code" not in items:
        return {500}
    b = W.prog.bodies.get(items["status_code"])
    if b is None:
        return None
    out = set()
    for site, term in S.exits(W, b):
        nm = term[1].rsplit("::", 1)[-1] if term[0] == "const" and isinstance(term[1], str) and "StatusCode::" in term[1] else None
        if nm not in STATUS_CONSTS:
            return None
        out.add(STATUS_CONSTS[nm])
    return out or None


def fn_statuses(W, key, depth=0, by_variant=False):
    """Statuses of the actix errors a workspace function / closure returns (over all its exits)."""
    body = W.prog.bodies.get(key)
    if body is None:
        return None
    out = set()
    per = {}
    g = W.gea(body)
    for site, term in S.exits(W, body):
        st = ctor_status(W, term, depth)
        if st is None:
            return None
        out |= st
        for val in g.vals_at(site):
            for a, vs in val.items():
                if a[0] == "VARIANT" and a[1][0] == "param" and a[1][1] == 1 and len(vs) == 1:
                    per.setdefault(next(iter(vs)), set()).update(st)
    return (out, per) if by_variant else out


def server_error_variants(W, key, depth=0):
    """ServerError variants a workspace function returning Result<_, ServerError> can produce; None = unknown."""
    body = W.prog.bodies.get(key)
    if body is None or depth > 3:
        return None
    out = set()
    for site, term in S.exits(W, body):
        if not S.is_error_exit(term):
            continue
        mm = m(pat.adt("Result", "Err", ("0", V("e"))), term)
        if mm is not None:
            me = m(pat.adt("ServerError", ANY, Ellipsis), mm["e"])
            if mm["e"][0] == "agg" and isinstance(mm["e"][1], tuple) and mm["e"][1][1].endswith("::ServerError"):
                out.add(mm["e"][1][2])
                continue
            return None
        mr = m(call(S.FROM_RESIDUAL, ("err", V("x"))), term)
        if mr is None:
            return None
        x = mr["x"]
        if x[0] == "call" and x[1] in ("core::option::Option::<T>::ok_or",) and len(x[3]) == 2 and x[3][1][0] == "agg" \
                and isinstance(x[3][1][1], tuple) and x[3][1][1][1].endswith("::ServerError"):
            out.add(x[3][1][1][2])
            continue
        if x[0] == "call":
            dty = body.blocks[x[2]]["term"]["dest"]["ty"]
            if "anyhow::Error" in dty and "ServerError" not in dty:
                out.add("Other")      # `impl From<anyhow::Error> for ServerError` is #[from] on Other
                continue
            if x[1] in W.prog.bodies:
                r = server_error_variants(W, x[1], depth + 1)
                if r is None:
                    return None
                out |= r
                continue
        return None
    return out


def value_statuses(W, body, e, val, depth=0):
    """Statuses an actix error VALUE term may carry under valuation val (the error built on a desugared
    `map_err` / explicit `Err(..)` arm): constructor call, workspace mapping function (narrowed by the variant of its
    argument when the valuation knows it), or a local with several definitions (union over those that may reach)."""
    if depth > 4:
        return None
    if e[0] == "call" and e[1] == SERVER_ERROR_TO_ACTIX and e[3]:
        r = fn_statuses(W, SERVER_ERROR_TO_ACTIX, by_variant=True)
        if r is None:
            return None
        arg = e[3][0]
        vs = val.get(("VARIANT", arg))
        if not vs and arg[0] == "err":
            inner = P.strip_branch(arg[1])
            vs = val.get(("VARIANT", ("err", inner)))
            if not vs and inner[0] == "call" and inner[1] in W.prog.bodies:
                vs = server_error_variants(W, inner[1])
        if vs and r[1] and all(v in r[1] for v in vs):
            o = set()
            for v in vs:
                o |= r[1][v]
            return o
        return r[0]
    if e[0] == "call" and e[1] in ("core::convert::Into::into", "core::convert::From::from") and e[3] and e[3][0][0] == "err":
        # `Err(e.into())` in a match arm is what `?` does with the same error
        return error_statuses(W, body, e[3][0], val)
    if e[0] == "err":
        # `Err(e)` where e is the error of another Result (a `?` written out as match / Err(From::from(e)) with an identity
        # conversion): what `?` propagates
        return error_statuses(W, body, e, val)
    if e[0] == "phi":
        pv = W.prov(body)
        sel = val.get(("def", e[1]))
        out = set()
        for site, t in pv.phi_alternatives(e[1]):
            if sel is not None and site not in sel:
                continue
            st = value_statuses(W, body, t, val, depth + 1)
            if st is None:
                return None
            out |= st
        return out or None
    return ctor_status(W, e)


def error_statuses(W, body, eterm, val):
    """Statuses of the error that is propagated with `?` (term under from_residual): either the error value itself
    (desugared combinators) or the `err(..)` payload of a Result-valued term."""
    t = eterm
    while t[0] == "call" and t[1] == S.FROM_RESIDUAL and t[3]:
        t = t[3][0]          # a residual built by `?` in a spliced helper and propagated again by the caller's `?`
    if t[0] != "err":
        return value_statuses(W, body, t, val)
    x = t[1]
    if x[0] == "phi":
        # the error of a Result-valued local with several definitions (the result of a spliced helper with several
        # returns): union over the error-producing definitions that may be live
        pv = W.prov(body)
        sel = val.get(("def", x[1]))
        out = set()
        for site, d in pv.phi_alternatives(x[1]):
            if sel is not None and site not in sel:
                continue
            if d[0] == "agg" and isinstance(d[1], tuple) and d[1][0] == "adt" and d[1][2] == "Ok":
                continue
            if d[0] == "agg" and isinstance(d[1], tuple) and d[1][0] == "adt" and d[1][2] == "Err" and d[2]:
                st = value_statuses(W, body, d[2][0][1], val)
            elif d[0] == "call" and d[1] == S.FROM_RESIDUAL and d[3]:
                st = error_statuses(W, body, d[3][0], val)
            else:
                st = error_statuses(W, body, ("err", d), val)
            if st is None:
                return None
            out |= st
        return out or None
    if x[0] == "call" and x[1] == S.FROM_RESIDUAL and x[3]:
        # the error of a Result that was itself built by `?` (a spliced helper's early return): the residual's error
        return error_statuses(W, body, x[3][0], val)
    if x[0] == "call" and x[1] == MAP_ERR and len(x[3]) == 2:
        fk = fn_value_key(W, x[3][1])
        if fk is None:
            return None
        r = fn_statuses(W, fk, by_variant=True)
        if r is None:
            return None
        allst, per = r
        inner = x[3][0]
        # narrow by the variant of the inner error when the valuation knows it, else by the variants
        # the inner workspace function can produce at all
        vs = val.get(("VARIANT", ("err", P.strip_branch(inner))))
        if not vs and inner[0] == "call" and inner[1] in W.prog.bodies and per:
            pv_ = server_error_variants(W, inner[1])
            if pv_ is not None:
                vs = pv_
        if vs and per and all(v in per for v in vs):
            o = set()
            for v in vs:
                o |= per[v]
            return o
        return allst
    if x[0] == "call" and x[1] in W.prog.bodies:
        # error of a workspace function returning actix errors (client_id_header): its own error exits
        b2 = W.prog.bodies[x[1]]
        out = set()
        g2 = W.gea(b2)
        for site, term in S.exits(W, b2):
            if not S.is_error_exit(term):
                continue
            mm = m(pat.adt("Result", "Err", ("0", V("e"))), term)
            if mm is not None:
                st = ctor_status(W, mm["e"])
            else:
                mm2 = m(call(S.FROM_RESIDUAL, V("e")), term)
                st = None
                if mm2 is not None:
                    for v2 in g2.vals_at(site) or [{}]:
                        s2 = error_statuses(W, b2, mm2["e"], v2)
                        if s2 is None:
                            st = None
                            break
                        st = (st or set()) | s2
            if st is None:
                return None
            out |= st
        return out
    if "Future::poll" in P.show(x) and ("StreamExt::next" in P.show(x) or "TryStreamExt::try_next" in P.show(x)):
        return {"PayloadError(4xx, TB-actix)"}
    ac = awaited_call(x)
    if ac is not None and (ac[1] + "::{closure#0}") in W.prog.bodies:
        # error of an awaited workspace async fn: the error exits of its coroutine body
        b2 = W.prog.bodies[ac[1] + "::{closure#0}"]
        g2 = W.gea(b2)
        out = set()
        for site, term in S.exits(W, b2):
            if not S.is_error_exit(term):
                continue
            mm = m(pat.adt("Result", "Err", ("0", V("e"))), term)
            if mm is not None:
                st = ctor_status(W, mm["e"])
            else:
                st = None
                mr = m(call(S.FROM_RESIDUAL, V("e")), term)
                if mr is not None:
                    st = set()
                    for v2 in g2.vals_at(site) or [{}]:
                        s2 = error_statuses(W, b2, mr["e"], v2)
                        if s2 is None:
                            st = None
                            break
                        st |= s2
            if st is None:
                return None
            out |= st
        return out or None
    return None


def builder_chain(W, body, g, term, exit_site, val):
    """Decode an HttpResponse value: {'status', 'headers': [(name, value term)], 'ctype', 'body'} or None."""
    pv = W.prov(body)
    res = {"status": None, "headers": [], "ctype": None, "body": None, "unknown": []}
    t = term
    if t[0] == "call" and t[1] == RB + "body":
        res["body"] = t[3][1]
        t = t[3][0]
    elif t[0] == "call" and t[1] == RB + "finish":
        res["body"] = ("const", None, "", "&str")
        t = t[3][0]
    else:
        return None
    chained = set()      # call sites already applied as links of the chain (the first link's receiver is `&mut local`)
    while True:
        if t[0] == "mut":
            # builder held in a local and mutated through &mut: log the mutators that precede this exit
            for bb, callee, ai in pv.mutators(t[1]):
                if bb in chained:
                    continue
                if ai != 0:
                    res["unknown"].append("builder passed as non-receiver to %s" % callee)
                    continue
                if bb == exit_site[0]:
                    continue
                pre = _passes(g, bb, exit_site[0], val)
                if pre == "never":
                    continue
                if pre == "sometimes":
                    res["unknown"].append("mutator %s only on some paths to this outcome" % callee)
                    continue
                # helper-computed header values are bound in the valuation; other sub-terms stay as extracted
                args = [g.resolve_phis(a_, val) for a_ in pv.arg_terms(bb)]
                _apply_builder_call(res, callee, args)
            t = t[3]
            continue
        if t[0] == "call" and t[1].startswith(RB):
            _apply_builder_call(res, t[1], t[3])
            chained.add(t[2])
            t = t[3][0]
            continue
        if t[0] == "call" and t[1] in S.STATUS_CTORS:
            res["status"] = S.STATUS_CTORS[t[1]]
            break
        res["unknown"].append("unrecognised builder source %s" % P.show(t)[:80])
        break
    res["headers"].reverse()
    return res


def _apply_builder_call(res, callee, args):
    name = callee[len(RB):] if callee.startswith(RB) else callee
    if name in ("append_header", "insert_header"):
        h = args[1]
        mm = m(pat.tup(V("n"), V("v")), h)
        if mm is None:
            res["unknown"].append("header argument %s" % P.show(h)[:80])
        else:
            res["headers"].append((const_str(mm["n"]), mm["v"], name))
    elif name == "content_type":
        res["ctype"] = const_str(args[1])
    elif name in ("finish", "body"):
        pass
    else:
        res["unknown"].append("builder method %s" % name)


def header_name(t):
    """A header name given as a string literal or as one of the http crate's HeaderName constants."""
    if t[0] == "const" and t[2] is None and t[1] and t[1].startswith("http::header::name::") :
        return t[1].rsplit("::", 1)[-1].replace("_", "-").lower()
    return const_str(t)


def const_str(t):
    if t[0] == "const" and isinstance(t[2], str):
        return t[2]
    return None


def _passes(g, bb, exit_bb, val):
    """Whether block bb is passed on product paths from entry to exit_bb under valuation val:
    'always' / 'never' / 'sometimes'."""
    want = {a: next(iter(v)) for a, v in val.items() if len(v) == 1}
    cond = lambda v: S.compatible(v, want) and all(a in v for a in want)  # noqa: E731
    avoid = S.avoids_block_reaching(g, bb, exit_bb, cond)
    # does any path pass bb then reach the exit under val?
    starts = set()
    for s in g.states_at_block(bb):
        starts |= g.edges.get(s, set())
    through = any(x[0] == exit_bb and cond(dict(x[1])) for x in g.forward(starts))
    if through and not avoid:
        return "always"
    if through and avoid:
        return "sometimes"
    return "never"


def term_error_variants(W, body, t, depth=0):
    """ServerError variants the error `t` (written err(X)) can be, where X is a call in `body`, possibly behind layers of
    `?` (from_residual(err(..))) spliced in from helpers returning ServerError: an anyhow error converted by `?` is always
    Other (#[from]); a workspace function's own set is read off its exits.  None = unknown."""
    if depth > 6 or t[0] != "err":
        return None
    x = P.strip_branch(t[1])
    if x[0] != "call":
        return None
    if x[1] == S.FROM_RESIDUAL and x[3]:
        return term_error_variants(W, body, x[3][0], depth + 1)
    if isinstance(x[2], int) and 0 <= x[2] < len(body.blocks) and body.blocks[x[2]]["term"].get("k") == "call":
        dty = body.blocks[x[2]]["term"]["dest"]["ty"]
        if "anyhow::Error" in dty and "ServerError" not in dty:
            return {"Other"}
    if x[1] in W.prog.bodies:
        return server_error_variants(W, x[1])
    return None


def _feasible_error_variants(W, val, g=None):
    """A valuation that fixes the ServerError variant of a workspace call to one the callee cannot produce (all of the
    callee's error exits are inspected) describes no execution: e.g. the NoSuchClient arm of an inlined error mapping
    applied to Server::txn, which only ever fails with Other."""
    for a, vs in val.items():
        if a[0] != "VARIANT":
            continue
        t = a[1]
        if g is not None and P.phi_locals(t):
            # the error travelled inside a private error type built on another path (`NewClientError::Server(e)` made by a
            # spliced `From` impl, matched again at the boundary): read it under the definitions this valuation selects
            t = g.resolve_phis(t, val)
        if t[0] != "err":
            continue
        x = P.strip_branch(t[1])
        if x[0] == "call" and x[1] in W.prog.bodies:
            can = server_error_variants(W, x[1])
            if can is not None and not (set(vs) & can):
                return False
        elif x[0] == "call" and x[1] == S.FROM_RESIDUAL and g is not None:
            can = term_error_variants(W, g.body, t)
            if can is not None and not (set(vs) & can):
                return False
    return True


class Outcome:
    def __init__(self, site, term, val, phase):
        self.site, self.term, self.val, self.phase = site, term, val, phase
        self.status = None        # set of statuses
        self.resp = None          # decoded response for Ok(...) values
        self.kind = None


def handler_outcomes(W, module):
    """Every (exit, valuation) of a handler, decoded. phase = 'pre' (before the Op call) or 'post'."""
    body = W.handler(module)
    g = W.gea(body)
    pv = W.prov(body)
    ops = S.sites_of(body, WD.op(WD.HANDLER_OP[module]))
    if len(ops) != 1:
        raise WD.Anchor("handler %s: expected exactly one call of Server::%s, found %d" % (module, WD.HANDLER_OP[module], len(ops)))
    opbb = ops[0][0]
    opterm = pv.def_term((opbb, "T"))
    outs = []
    for site, term in S.exits(W, body):
        post = (site[0] == opbb) or g.may_follow(opbb, site[0])
        for val in g.vals_at(site):
            if not _feasible_error_variants(W, val, g):
                continue
            rt = g.resolve_phis(term, val)
            o = Outcome(site, rt, val, "post" if post else "pre")
            mm = m(pat.adt("Result", "Err", ("0", V("e"))), rt)
            mo = m(pat.adt("Result", "Ok", ("0", V("r"))), rt)
            mr = m(call(S.FROM_RESIDUAL, V("e")), rt)
            if mm is not None:
                o.kind = "err"
                e = mm["e"]
                # atoms are keyed by the unresolved term (phi resolution may have rewritten sub-terms)
                mraw = m(pat.adt("Result", "Err", ("0", V("e"))), term)
                eraw = mraw["e"] if mraw is not None and mraw["e"][0] == "call" and mraw["e"][1] == SERVER_ERROR_TO_ACTIX else None
                o.status = value_statuses(W, body, eraw, val) if eraw is not None else None
                if o.status is None or (eraw is not None and val.get(("VARIANT", eraw[3][0])) is None):
                    o.status = value_statuses(W, body, e, val)
            elif mr is not None:
                o.kind = "propagated"
                o.status = error_statuses(W, body, mr["e"], val)
            elif mo is not None:
                o.kind = "ok"
                o.resp = builder_chain(W, body, g, mo["r"], site, val)
                o.status = {o.resp["status"]} if o.resp and o.resp["status"] else None
            outs.append(o)
    return body, g, opbb, opterm, outs


# =========================================================================== A9 registries
HSF = "actix_web::service::HttpServiceFactory"


def routes(W):
    """[{factory (unit struct path), path, method, handler, body}] for every route-macro factory in the server lib."""
    out = []
    for imp in W.prog.impls:
        if imp.get("trait") != HSF or not imp["unit"].endswith("-lib"):
            continue
        key = "<%s as %s>::register" % (imp["self_ty"], HSF)
        b = W.prog.bodies.get(key)
        if b is None:
            continue
        pv = W.prov(b)
        r = {"factory": imp["self_ty"], "path": None, "method": None, "handler": None, "body": b, "extra": []}
        for bb, t in b.calls():
            d = t["callee"].get("def", "")
            args = pv.arg_terms(bb)
            if d == "actix_web::resource::Resource::new":
                r["path"] = const_str(args[0])
            elif d.startswith("actix_web::guard::"):
                r["method"] = (r["method"] + "+" if r["method"] else "") + d.split("::")[-1].upper()
            elif d == "actix_web::resource::Resource::<T>::to":
                r["handler"] = args[1][1] if args[1][0] == "fn" else None
            elif d in ("actix_web::resource::Resource::<T>::name", "actix_web::resource::Resource::<T>::guard",
                       HSF + "::register"):
                pass
            else:
                r["extra"].append(d)
        out.append(r)
    # routes registered from a table: `web::resource(path).guard(guard::Method(M) | guard::Get()..).to(handler)` written out
    # where the scope is built (what the route macros expand to, minus the unit-struct factory)
    have = set(r["factory"] for r in out)
    for b in W.prog.bodies.values():
        if not b.unit.endswith("-lib") or not b.unit.startswith(WD.SERVER):
            continue
        pv = None
        for bb, t in b.calls():
            if t["callee"].get("def", "") != "actix_web::resource::Resource::<T>::to":
                continue
            pv = pv or W.prov(b)
            args = pv.arg_terms(bb)
            if len(args) < 2 or args[1][0] != "fn":
                continue
            hfn = args[1][1]
            fac = hfn[1:].split(" as ")[0] if hfn.startswith("<") and " as " in hfn else hfn
            if fac in have:
                continue
            r = {"factory": fac, "path": None, "method": None, "handler": hfn, "body": b, "extra": [], "table": True}
            cur = args[0]
            while cur[0] == "mut":
                cur = cur[3]
            steps = 0
            while cur[0] == "call" and steps < 8:
                steps += 1
                d = cur[1]
                if d in ("actix_web::web::resource", "actix_web::resource::Resource::new"):
                    from tcss import sqlmodel as _SM
                    strs = _SM.resolve_strs(W, b, cur[3][0]) if cur[3] else None
                    if strs is None and cur[3] and cur[3][0][0] == "call" and cur[3][0][1] == "alloc::string::ToString::to_string":
                        strs = _SM.resolve_strs(W, b, cur[3][0][3][0])
                    r["path"] = strs[0] if strs and len(set(strs)) == 1 else None
                    break
                if d == "actix_web::resource::Resource::<T>::guard" and len(cur[3]) == 2:
                    gd = cur[3][1]
                    while gd[0] == "mut":
                        gd = gd[3]
                    if gd[0] == "call" and gd[1] == "actix_web::guard::Method" and gd[3] and gd[3][0][0] == "const" and isinstance(gd[3][0][1], str):
                        r["method"] = (r["method"] + "+" if r["method"] else "") + gd[3][0][1].rsplit("::", 1)[-1].upper()
                    elif gd[0] == "call" and gd[1].startswith("actix_web::guard::"):
                        r["method"] = (r["method"] + "+" if r["method"] else "") + gd[1].split("::")[-1].upper()
                    else:
                        r["extra"].append("guard %s" % P.show(gd)[:60])
                elif d in ("actix_web::resource::Resource::<T>::name",):
                    pass
                else:
                    r["extra"].append(d)
                cur = cur[3][0] if cur[3] else ("unknown",)
                while cur[0] == "mut":
                    cur = cur[3]
            out.append(r)
            have.add(fac)
    return out


def route_params_plain(rep, W, rule="H-ROUTE"):
    """Path parameters of the protocol routes are plain `{name}` segments: the id is parsed by the typed extractor
    (Uuid::parse_str, every textual form, every UUID version).  A pattern (`{id:[0-9a-f]..}`) makes the ROUTER answer 404 --
    which on these endpoints means "no such version" -- for ids the other endpoints accept."""
    import re
    n = 0
    for r in routes(W):
        if "::api::" not in r["factory"] or r["path"] is None:
            continue
        segs, depth, cur = [], 0, ""
        for ch in r["path"]:          # top-level {..} groups (a pattern may itself contain {n} quantifiers)
            if ch == "{":
                depth += 1
            if depth:
                cur += ch
            if ch == "}" and depth:
                depth -= 1
                if depth == 0:
                    segs.append(cur)
                    cur = ""
        for seg in segs:
            n += 1
            rep.ob(rule, (r["factory"].split("::")[-2], "plain-path-parameter", seg.split(":")[0].strip("{}")), re.fullmatch(r"\{[A-Za-z_][A-Za-z0-9_]*\}", seg) is not None,
                   "route %s: path parameter %s %s" % (r["path"][:60], seg[:40], "is a plain segment" if re.fullmatch(r"\{[A-Za-z_][A-Za-z0-9_]*\}", seg) else
                                                       "carries a pattern: ids outside it are answered 404 by the router although they are valid ids elsewhere"),
                   where(r["body"]), nontrivial=False)
    rep.floor(rule, "path parameters of protocol routes", n, 3)


def scope_chain(W, body):
    """Decode a `web::scope(prefix).x(..).y(..)` builder chain returned / passed by `body`:
    [(method, arg terms, bb)] innermost first, plus the prefix; None if not a scope chain."""
    pv = W.prov(body)
    chains = []
    for bb, t in body.calls():
        if t["callee"].get("def") == "actix_web::web::scope":
            chains.append(bb)
    return chains


def unit_struct_name(t):
    if t[0] == "agg" and isinstance(t[1], tuple) and t[1][0] == "adt" and not t[2]:
        return t[1][1]
    # a resource built in place and bound to its handler (`web::resource(..).guard(..).to(api::<m>::service)`): named after
    # the handler, like the unit-struct factory the route macro would have generated for it
    while t[0] == "mut":
        t = t[3]
    if t[0] == "call" and t[1] == "actix_web::resource::Resource::<T>::to" and len(t[3]) == 2 and t[3][1][0] == "fn":
        hfn = t[3][1][1]
        return hfn[1:].split(" as ")[0] if hfn.startswith("<") and " as " in hfn else hfn
    return None


# =========================================================================== C14
def _atoms_for(opterm):
    return {
        "res": ("VARIANT", opterm),
        "err": ("VARIANT", ("err", opterm)),
        "r0": ("VARIANT", ("field", ("ok", opterm), "0")),
        "r1": ("VARIANT", ("field", ("ok", opterm), "1")),
        "inner": ("VARIANT", ("ok", opterm)),
    }


def to_string_of(p):
    return call(TO_STRING, p)


def c14_tables(rep, W, rule="C14", modules=None):
    """modules: the handler modules whose outcome table (and route) is evaluated -- the check of a property that speaks of
    one operation's responses composes that operation's rows only (all four for C14 itself)."""
    modules = tuple(modules or WD.HANDLER_MODULES)
    consts = {
        "version": W.prog.const_value(WD.SERVER + "::api::VERSION_ID_HEADER"),
        "parent": W.prog.const_value(WD.SERVER + "::api::PARENT_VERSION_ID_HEADER"),
        "snapreq": W.prog.const_value(WD.SERVER + "::api::SNAPSHOT_REQUEST_HEADER"),
        "hs_ct": W.prog.const_value(WD.SERVER + "::api::HISTORY_SEGMENT_CONTENT_TYPE"),
        "sn_ct": W.prog.const_value(WD.SERVER + "::api::SNAPSHOT_CONTENT_TYPE"),
    }
    want_consts = {"version": "x-version-id", "parent": "x-parent-version-id", "snapreq": "x-snapshot-request",
                   "hs_ct": "application/vnd.taskchampion.history-segment", "sn_ct": "application/vnd.taskchampion.snapshot"}
    for k, v in want_consts.items():
        rep.ob(rule, ("const", k), isinstance(consts[k], str) and consts[k].lower() == v,
               "header / content-type constant %s evaluates to %r; the protocol says %r" % (k, consts[k], v), nontrivial=False)
    nrows = 0
    for module in modules:
        body, g, opbb, opterm, outs = handler_outcomes(W, module)
        fn = S.short_fn(body)
        A = _atoms_for(opterm)
        okp = ("ok", opterm)
        if module == "add_version":
            vid = ("field", ("variant", ("field", okp, "0"), "Ok"), "0")
            pid = ("field", ("variant", ("field", okp, "0"), "ExpectedParentVersion"), "0")
            rows = []
            for urg, extra in (("None", {}), ("Low", {"x-snapshot-request": pat.const(val="urgency=low")}), ("High", {"x-snapshot-request": pat.const(val="urgency=high")})):
                hd = {"x-version-id": to_string_of(vid)}
                hd.update(extra)
                rows.append(("accepted/urgency=%s" % urg, {A["res"]: "ok", A["r0"]: "Ok", A["r1"]: urg}, {200}, hd, None, None))
            rows.append(("conflict", {A["res"]: "ok", A["r0"]: "ExpectedParentVersion"}, {409}, {"x-parent-version-id": to_string_of(pid)}, None, None))
            rows.append(("error/Other", {A["res"]: "err", A["err"]: "Other"}, {500}, None, None, None))
            rows.append(("error/NoSuchClient->create-and-retry", {A["res"]: "err", A["err"]: "NoSuchClient"}, "no-response", None, None, None))
        elif module == "get_child_version":
            sv = ("variant", okp, "Success")
            rows = [
                ("found", {A["res"]: "ok", A["inner"]: "Success"}, {200},
                 {"x-version-id": to_string_of(("field", sv, "version_id")), "x-parent-version-id": to_string_of(("field", sv, "parent_version_id"))},
                 consts["hs_ct"], ("field", sv, "history_segment")),
                ("not-found", {A["res"]: "ok", A["inner"]: "NotFound"}, {404}, None, None, None),
                ("gone", {A["res"]: "ok", A["inner"]: "Gone"}, {410}, None, None, None),
                ("error/NoSuchClient", {A["res"]: "err", A["err"]: "NoSuchClient"}, {404}, None, None, None),
                ("error/Other", {A["res"]: "err", A["err"]: "Other"}, {500}, None, None, None),
            ]
        elif module == "add_snapshot":
            rows = [
                ("ok", {A["res"]: "ok"}, {200}, {}, None, None),
                ("error/NoSuchClient", {A["res"]: "err", A["err"]: "NoSuchClient"}, {404}, None, None, None),
                ("error/Other", {A["res"]: "err", A["err"]: "Other"}, {500}, None, None, None),
            ]
        else:
            pay = ("ok", okp)
            rows = [
                ("found", {A["res"]: "ok", A["inner"]: "ok"}, {200}, {"x-version-id": to_string_of(("field", pay, "0"))}, consts["sn_ct"], ("field", pay, "1")),
                ("none", {A["res"]: "ok", A["inner"]: "err"}, {404}, None, None, None),
                ("error/NoSuchClient", {A["res"]: "err", A["err"]: "NoSuchClient"}, {404}, None, None, None),
                ("error/Other", {A["res"]: "err", A["err"]: "Other"}, {500}, None, None, None),
            ]
        hit = {r[0]: 0 for r in rows}
        table = []
        for o in outs:
            if o.phase != "post":
                continue
            matched = [r for r in rows if S.compatible(o.val, r[1])]
            ln = S.exit_line(body, o.site)
            if not matched:
                rep.fail(rule, (fn, "unmatched-outcome"), "exit at line %d is reachable under an outcome the protocol table does not list: %s"
                         % (ln, G.show_val({k: v for k, v in o.val.items() if k in A.values()})), where(body, line=ln))
                continue
            for r in matched:
                name, cond, status, headers, ctype, bodyp = r
                hit[name] += 1
                # statuses for this row: narrow variant-mapped errors by the row's variant
                st = o.status
                if st is not None and A["err"] in cond and o.val.get(A["err"]) is None:
                    st = _status_for_variant(W, o, cond[A["err"]])
                if status == "no-response":
                    okr = o.kind in ("propagated", "err") and st is not None and all(isinstance(x, int) and x >= 500 for x in st)
                    det = "NoSuchClient on AddVersion produces no response of its own (client is created and the operation re-run); exits under it are error propagation from the creation block only: kind=%s status=%s" % (o.kind, st)
                else:
                    okr = st == status
                    det = "status %s (required %s)" % (st, status)
                    if okr and headers is not None:
                        got = {}
                        bad = list(o.resp["unknown"]) if o.resp else ["not a built response"]
                        for n, v, how in (o.resp["headers"] if o.resp else []):
                            if n is None:
                                bad.append("header with non-constant name")
                                continue
                            if n.lower() in got:
                                bad.append("header %s appended twice" % n)
                            if v[0] == "call" and v[1] == "alloc::string::ToString::to_string" and len(v[3]) == 1 and v[3][0][0] == "const" \
                                    and isinstance(v[3][0][2], str):
                                v = v[3][0]        # `"urgency=low".to_string()` is that text
                            got[n.lower()] = v
                        for hn, hp in headers.items():
                            if hn not in got:
                                bad.append("missing header %s" % hn)
                            elif m(hp, got[hn]) is None:
                                bad.append("header %s carries %s" % (hn, P.show(got[hn])[:100]))
                        for hn in got:
                            if hn not in headers:
                                bad.append("unexpected header %s" % hn)
                        if (o.resp["ctype"] if o.resp else None) != ctype:
                            bad.append("content type %r (required %r)" % (o.resp["ctype"] if o.resp else None, ctype))
                        if bodyp is not None and o.resp and m(bodyp, o.resp["body"]) is None:
                            bad.append("body is %s" % P.show(o.resp["body"])[:100])
                        if bodyp is None and o.resp and not (o.resp["body"][0] == "const" and o.resp["body"][2] == ""):
                            bad.append("unexpected body %s" % P.show(o.resp["body"])[:100])
                        okr = not bad
                        det += "; headers/content-type/body: %s" % (bad or "as required")
                    elif okr and o.kind == "ok" and headers is None:
                        okr = False
                        det += "; a success response where an error is required"
                rep.ob(rule, (fn, "row", name), okr, "%s: %s" % (name, det), where(body, line=ln),
                       sample={"row": name, "status": sorted(map(str, st)) if st else None,
                               "headers": [(n, P.show(v)[:80]) for n, v, _ in (o.resp["headers"] if o.resp else [])],
                               "content_type": o.resp["ctype"] if o.resp else None})
                table.append((name, sorted(map(str, st)) if st else None))
        for name, cnt in hit.items():
            nrows += 1 if cnt else 0
            rep.ob(rule, (fn, "row-present", name), cnt > 0, "protocol outcome %r is %s by the handler" % (name, "handled" if cnt else "NOT produced"), where(body), nontrivial=False)
        rep.extra.setdefault("tables", {})[module] = sorted(set((n, tuple(s) if s else None) for n, s in table), key=repr)
    rep.floor(rule, "protocol table rows realised", nrows, sum({"add_version": 6, "get_child_version": 5, "add_snapshot": 3, "get_snapshot": 4}[m_] for m_ in modules))
    rep.exhaustive = True
    # routes
    want = {"add_version": ("POST", "/v1/client/add-version/{parent_version_id}"),
            "get_child_version": ("GET", "/v1/client/get-child-version/{parent_version_id}"),
            "add_snapshot": ("POST", "/v1/client/add-snapshot/{version_id}"),
            "get_snapshot": ("GET", "/v1/client/snapshot")}
    rs = {r["factory"]: r for r in routes(W)}
    for module, (meth, path) in want.items():
        if module not in modules:
            continue
        r = rs.get("%s::api::%s::service" % (WD.SERVER, module))
        okr = r is not None and r["method"] == meth and r["path"] is not None and _same_route(r["path"], path) and r["handler"] == W.handler_fn(module).deff
        rep.ob(rule, ("route", module), okr, "route registered as %s %s -> %s; protocol: %s %s" % (
            r and r["method"], r and r["path"], r and r["handler"] and r["handler"][-40:], meth, path))


def _same_route(a, b):
    import re
    norm = lambda s: re.sub(r"\{[^}]*\}", "{}", s)  # noqa: E731
    return norm(a) == norm(b)


def _status_for_variant(W, o, variant):
    """Status of an error outcome that goes through server_error_to_actix, for one ServerError variant."""
    r = fn_statuses(W, SERVER_ERROR_TO_ACTIX, by_variant=True)
    txt = P.show(o.term)
    if r and "server_error_to_actix" in txt and variant in r[1]:
        return r[1][variant]
    return o.status


# =========================================================================== C15
PANIC_CALLEES = (
    "core::option::Option::<T>::unwrap", "core::option::Option::<T>::expect",
    "core::result::Result::<T, E>::unwrap", "core::result::Result::<T, E>::expect",
    "core::result::Result::<T, E>::unwrap_err", "core::result::Result::<T, E>::expect_err",
    "core::panicking::panic", "core::panicking::panic_fmt", "core::panicking::assert_failed",
    "core::panicking::panic_explicit", "core::panicking::unreachable_display", "core::panicking::panic_display",
    "chrono::offset::LocalResult::<T>::unwrap", "core::ops::index::Index::index", "core::ops::index::IndexMut::index_mut",
    "core::slice::<impl [T]>::split_at", "core::str::<impl str>::split_at",
    # std operations that panic on an index / length / char-boundary argument (the data here is the request's)
    "alloc::string::String::truncate", "alloc::string::String::remove", "alloc::string::String::insert", "alloc::string::String::insert_str",
    "alloc::string::String::split_off", "alloc::string::String::drain", "alloc::string::String::replace_range",
    "alloc::vec::Vec::<T, A>::remove", "alloc::vec::Vec::<T, A>::swap_remove", "alloc::vec::Vec::<T, A>::insert", "alloc::vec::Vec::<T, A>::split_off",
    "alloc::vec::Vec::<T, A>::drain", "alloc::vec::Vec::<T, A>::truncate_front",
    "core::slice::<impl [T]>::split_at_mut", "core::slice::<impl [T]>::copy_from_slice", "core::slice::<impl [T]>::clone_from_slice",
    "core::slice::<impl [T]>::swap", "core::slice::<impl [T]>::chunks", "core::slice::<impl [T]>::chunks_exact", "core::slice::<impl [T]>::windows",
    "core::slice::<impl [T]>::rotate_left", "core::slice::<impl [T]>::rotate_right",
    "core::str::<impl str>::split_at_mut", "bytes::bytes::Bytes::slice", "bytes::bytes::Bytes::split_to", "bytes::bytes::Bytes::split_off",
    "bytes::bytes_mut::BytesMut::split_to", "bytes::bytes_mut::BytesMut::split_off", "bytes::buf::buf_impl::Buf::advance",
    "core::char::methods::<impl char>::from_digit", "core::num::<impl u32>::pow", "core::time::Duration::from_secs_f64", "core::time::Duration::from_secs_f32",
    "std::time::Instant::duration_since", "core::iter::traits::iterator::Iterator::step_by",
)


ALLOC_SIZED = ("with_capacity", "reserve", "reserve_exact", "try_reserve", "resize", "with_capacity_in", "set_len")


def is_4xx(st):
    return st is not None and all((isinstance(x, int) and 400 <= x < 500) or (isinstance(x, str) and "4xx" in x) for x in st) and len(st) > 0


def storage_reaching_calls(W, body):
    """Call sites of `body` whose callee is, or (transitively) reaches, a transaction opener."""
    out = []
    for bb, t in body.calls():
        d = t["callee"].get("def", "")
        if d in (WD.T_TXN, WD.SERVER_TXN) or d.startswith(WD.SERVER_TY + "::") or d.startswith(WD.STORAGE_TXN + "::"):
            out.append(bb)
            continue
        for k in W.resolve_callee(body, t):
            for k2 in W.reachable_from(k):
                b2 = W.prog.bodies[k2]
                if S.sites_of(b2, WD.T_TXN) or S.sites_of(b2, WD.SERVER_TXN):
                    out.append(bb)
                    break
    return sorted(set(out))


LIMIT_BYTES = 100 * 1024 * 1024      # "body above the 100 MiB limit" (the number is in the property statement)


REQUIRED_CT = {"add_version": "application/vnd.taskchampion.history-segment", "add_snapshot": "application/vnd.taskchampion.snapshot"}


def refusal_reason(o, module=None):
    """Why a pre-operation exit refuses, read off its path condition: one of the reasons the statement lists (wrong
    content type, client-id helper said no, the body stream failed, body over the limit, empty body) -- or None."""
    if o.status and all(isinstance(x, str) and x.startswith("PayloadError") for x in o.status):
        return "payload-stream-error"
    for a, vs in o.val.items():
        if len(vs) != 1:
            continue
        v = next(iter(vs))
        if a[0] == "VARIANT" and v == "err" and a[1][0] == "ok" and a[1][1][0] == "ok" and a[1][1][1][0] == "call" and a[1][1][1][1] == POLL:
            return "payload-stream-error"          # the awaited stream item is Some(Err(_))
        if a[0] == "EQ" and v is False and any(x[0] == "call" and x[1].endswith("HttpMessage::content_type") for x in a[1:3]):
            return "content-type"
        if a[0] == "EQ" and v is True and any(x[0] == "call" and x[1].endswith("HttpMessage::content_type") for x in a[1:3]) \
                and any(x[0] == "const" and isinstance(x[2], str) and x[2].lower() != REQUIRED_CT.get(module, x[2]).lower() for x in a[1:3]):
            return "content-type"              # equal to ANOTHER type's constant, hence not the required one
        if a[0] == "VARIANT" and v == "err" and a[1][0] == "call" and a[1][1] == WD.CLIENT_ID_HEADER_FN:
            return "client-id"
        if a[0] == "PRED" and v is True and a[1].endswith("::is_empty"):
            return "empty-body"
        if a[0] == "EQ" and v is True and any(x[0] == "const" and x[2] == 0 for x in a[1:3]) and any(x[0] == "call" and x[1].endswith("::len") for x in a[1:3]):
            return "empty-body"
        if a[0] == "CMP":
            op, l, r = a[1], a[2], a[3]
            lim = lambda x: _const_int(x) in (LIMIT_BYTES, LIMIT_BYTES + 1)   # noqa: E731  (a constant, or constant arithmetic: 100 * 1024 * 1024)
            if lim(l) and ((op in ("Lt", "Le") and v is True) or (op in ("Gt", "Ge") and v is False)):
                return "over-the-limit"
            if lim(r) and ((op in ("Gt", "Ge") and v is True) or (op in ("Lt", "Le") and v is False)):
                return "over-the-limit"
    return None


def c03_noawait(rep, W, rule="C03.NOAWAIT"):
    """A handler never suspends once it has started talking to storage.  Storage calls are synchronous and an actix worker
    runs its handlers on one thread: a handler that awaits while it holds a storage transaction (the SQLite write lock, the
    in-memory mutex guard) parks with the lock taken, and the next request the same worker polls blocks the thread the
    parked handler needs in order to resume -- a 5 s stall and a 500 on SQLite, a dead worker in memory.  So: in every
    protocol handler no await point (a `Future::poll` of an awaited future) is reachable from a storage-reaching call."""
    n = 0
    for module in WD.HANDLER_MODULES:
        body = W.handler(module)
        g = W.gea(body)
        sr = storage_reaching_calls(W, body)
        polls = [bb for bb, t in body.calls() if t["callee"].get("def") == POLL]
        bad = sorted({(body.line_of_block(s_), body.line_of_block(p_)) for s_ in sr for p_ in polls if g.may_follow(s_, p_)})
        n += len(sr)
        rep.ob(rule, (S.short_fn(body), "no-await-after-storage-access"), not bad,
               "await points reachable after a storage-reaching call (storage call line, await line): %s" % (bad[:3] or "none"),
               where(body, line=bad[0][1]) if bad else where(body))
    rep.floor(rule, "storage-reaching calls in handlers", n, 4)


def c15_refuse(rep, W, rule="C15.REFUSE", modules=None):
    floors = {"add_version": 3, "add_snapshot": 3, "get_child_version": 1, "get_snapshot": 1}   # content type, client id, + body refusals (possibly inside a helper)
    for module in (modules or WD.HANDLER_MODULES):
        body, g, opbb, opterm, outs = handler_outcomes(W, module)
        fn = S.short_fn(body)
        pre_sites = {}
        for o in outs:
            if o.phase == "pre":
                pre_sites.setdefault(o.site, []).append(o)
        sr = storage_reaching_calls(W, body)
        n = 0
        for site, os_ in sorted(pre_sites.items(), key=lambda kv: repr(kv[0])):
            n += 1
            sts = set()
            unknown = False
            for o in os_:
                if o.status is None:
                    unknown = True
                else:
                    sts |= o.status
            ln = S.exit_line(body, site)
            rep.ob(rule, (fn, "refusal#%d" % n, "4xx"), (not unknown) and is_4xx(sts) and all(o.kind != "ok" for o in os_),
                   "pre-operation exit at line %d answers %s; every refusal decided before the operation must be a 4xx" % (ln, sorted(map(str, sts)) if not unknown else "an unrecognised value"),
                   where(body, line=ln))
            before = [body.line_of_block(b) for b in sr if b == site[0] or g.may_follow(b, site[0])]
            # "Bodies up to and including the limit are accepted" / AddVersion "is accepted exactly when ..": a request is
            # turned away before the operation only for a reason the statement lists
            why = [refusal_reason(o, module) for o in os_]
            rep.ob(rule, (fn, "refusal#%d" % n, "tabled-reason"), all(why),
                   "pre-operation exit at line %d refuses for: %s (content type / client id / body stream error / over the 100 MiB limit / empty body); "
                   "path conditions without such a reason: %s" % (ln, sorted(set(x for x in why if x)) or "-", [G.show_val(o.val)[:160] for o, y in zip(os_, why) if not y][:1] or "none"),
                   where(body, line=ln))
            rep.ob(rule, (fn, "refusal#%d" % n, "before-any-storage-access"), not before,
                   "no call that reaches storage precedes this refusal; such calls at lines %s" % (before or "none"), where(body, line=ln))
        rep.floor(rule, fn + " refusal exits", n, floors[module], where(body))
    # the shared helper
    hb = W.body(WD.CLIENT_ID_HEADER_FN)
    gh = W.gea(hb)
    n = 0
    all_st = set()
    for site, term in S.exits(W, hb):
        if not S.is_error_exit(term):
            continue
        n += 1
        mm = m(pat.adt("Result", "Err", ("0", V("e"))), term)
        st = None
        if mm is not None:
            st = ctor_status(W, mm["e"])
        else:
            mr = m(call(S.FROM_RESIDUAL, V("e")), term)
            if mr is not None:
                st = set()
                for val in gh.vals_at(site):
                    s2 = error_statuses(W, hb, mr["e"], val)
                    if s2 is None:
                        st = None
                        break
                    st |= s2
        all_st |= (st or set())
        rep.ob(rule, (S.short_fn(hb), "error-exit#%d" % n), is_4xx(st),
               "client_id_header error exit at line %d answers %s" % (S.exit_line(hb, site), st), where(hb, line=S.exit_line(hb, site)))
    # (a count of syntactic exits depends on how the parsing steps are grouped; what must exist is a 400 way out and a 403 one)
    rep.floor(rule, "client_id_header error exits", n, 2, where(hb))
    rep.ob(rule, (S.short_fn(hb), "refuses-with-400-and-403"), {400, 403} <= all_st, "statuses of the header helper's refusals: %s (malformed -> 400, unlisted -> 403)" % sorted(map(str, all_st)), where(hb))
    rep.ob(rule, (S.short_fn(hb), "no-storage-access"), not storage_reaching_calls(W, hb), "client_id_header reaches no storage call", where(hb))



ACC_TYPES = {
    "bytes::bytes_mut::BytesMut": ("bytes::bytes_mut::BytesMut::extend_from_slice", "bytes::bytes_mut::BytesMut::len", "bytes::bytes_mut::BytesMut::new"),
    "alloc::vec::Vec<u8>": ("alloc::vec::Vec::<T, A>::extend_from_slice", "alloc::vec::Vec::<T, A>::len", "alloc::vec::Vec::<T>::new"),
}
POLL = "core::future::future::Future::poll"


class Accum:
    """Where a write handler accumulates the request body: in the handler itself, or in a workspace-local async
    helper whose awaited Ok value is what the handler hands on (`let body = read_body(payload, MAX).await?`)."""

    def __init__(self):
        self.handler = None     # handler coroutine body
        self.body = None        # body containing the accumulation loop
        self.local = None       # accumulator local in self.body
        self.ty = None
        self.payload = None     # payload argument term of the Op call (in the handler)
        self.helper = None      # (fn key, call bb in handler, arg terms) when via helper
        self.value_in_handler = None   # term that denotes the accumulated bytes in the handler


def accumulators(W, body):
    pv = W.prov(body)
    return [l for l in pv.mutborrow if body.locals[l]["ty"] in ACC_TYPES]


def awaited_call(t):
    """ok(ok(poll(Mut(awaitee := CALL)))) / ok(poll(..CALL..)) -> CALL term of a workspace async fn, else None."""
    x = t
    n = 0
    while x[0] in ("ok", "mut") and n < 6:
        x = x[1] if x[0] == "ok" else x[3]
        n += 1
    if x[0] == "call" and x[1] == POLL and x[3]:
        y = x[3][0]
        while y[0] == "mut":
            y = y[3]
        if y[0] == "call":
            return y
    return None


def find_accumulation(W, module):
    h = W.handler(module)
    pv = W.prov(h)
    ops = S.sites_of(h, WD.op(WD.HANDLER_OP[module]))
    if len(ops) != 1:
        return None, "expected exactly one call of Server::%s" % WD.HANDLER_OP[module]
    a = Accum()
    a.handler = h
    a.payload = pv.arg_terms(ops[0][0])[-1]
    pt = a.payload
    if pt[0] == "mut" and h.locals[pt[1]]["ty"] in ACC_TYPES:
        a.body, a.local, a.ty, a.value_in_handler = h, pt[1], h.locals[pt[1]]["ty"], pt
        return a, None
    call_ = awaited_call(pt[3] if pt[0] == "mut" else pt)
    if call_ is None:
        return None, "payload passed to the operation is %s: neither a local accumulator nor the awaited result of a helper" % P.show(pt)[:100]
    key = call_[1]
    cb = W.prog.bodies.get(key + "::{closure#0}")
    if cb is None:
        return None, "payload comes from %s, which is not a workspace async fn" % key
    accs = accumulators(W, cb)
    if len(accs) != 1:
        return None, "helper %s has %d body accumulators (need exactly one)" % (key, len(accs))
    a.body, a.local, a.ty = cb, accs[0], cb.locals[accs[0]]["ty"]
    a.helper = (key, call_[2], call_[3])
    a.value_in_handler = pt
    # the helper returns its accumulator
    okret = False
    for site, term in S.exits(W, cb):
        mm = m(pat.adt("Result", "Ok", ("0", V("x"))), term)
        if mm is not None and mm["x"][0] == "mut" and mm["x"][1] == a.local:
            okret = True
    if not okret:
        return None, "helper %s does not return its accumulator unchanged" % key
    return a, None


def resolve_limit(W, acc, t):
    """Integer value of the limit term as seen from the accumulation body (constant, or a helper parameter
    that every caller binds to a constant)."""
    if t[0] == "const" and isinstance(t[2], int):
        return t[2]
    if P.const_only(t):
        v_ = _const_int(t)
        if v_ is not None:
            return v_
    if t[0] == "upvar" and acc.helper is not None:
        args = acc.helper[2]
        if t[1] < len(args) and args[t[1]][0] == "const" and isinstance(args[t[1]][2], int):
            return args[t[1]][2]
    return None


def body_local(W, body):
    """(local index, mutator list) of the request-body accumulator: the BytesMut handed out by &mut."""
    pv = W.prov(body)
    cands = [l for l in pv.mutborrow if body.locals[l]["ty"] == "bytes::bytes_mut::BytesMut"]
    return cands


def c15_bound(rep, W, rule="C15.BOUND"):
    maxes = {}
    for module in ("add_version", "add_snapshot"):
        hbody = W.handler(module)
        hfn = S.short_fn(hbody)
        acc, why = find_accumulation(W, module)
        if acc is None:
            rep.fail(rule, (hfn, "accumulator"), "cannot locate the request-body accumulation: %s" % why, where(hbody))
            continue
        body = acc.body
        fn = S.short_fn(body) if acc.helper is None else hfn + " via " + S.short_fn(body)
        g = W.gea(body)
        pv = W.prov(body)
        bl = acc.local
        ext_name, len_name, _ = ACC_TYPES[acc.ty]
        muts = pv.mutators(bl)
        ext = [(bb, c, ai) for bb, c, ai in muts if c == ext_name]
        other = [(c, body.line_of_block(bb)) for bb, c, ai in muts if c != ext_name]
        rep.ob(rule, (hfn, "only-append"), len(ext) >= 1 and not other,
               "the accumulator is mutated only by extend_from_slice (%d site(s)); other mutators: %s" % (len(ext), other or "none"), where(body))
        for bb, c, ai in ext:
            args = pv.arg_terms(bb)
            chunk = args[1]
            found = None
            for at in g.atoms:
                if at[0] != "CMP":
                    continue
                lo, hi = at[2], at[3]
                for (cst, summ, form) in ((lo, hi, "max<sum" if at[1] == "Lt" else "max<=sum"), (hi, lo, "sum<max" if at[1] == "Lt" else "sum<=max")):
                    lim = resolve_limit(W, acc, cst)
                    if lim is not None and _is_len_sum(summ, bl, chunk, len_name):
                        found = (at, lim, form)
            if found is None:
                rep.fail(rule, (hfn, "size-check", S.ordinal_key(body, c, bb)), "no comparison of len(body)+len(chunk) against a constant limit found for this append", where(body, bb))
                continue
            at, lim, form = found
            maxes[module] = lim
            if form == "max<sum":
                f, strict_ok = ("is", at, False), True
            elif form == "sum<=max":
                f, strict_ok = ("is", at, True), True
            else:
                f, strict_ok = (("is", at, False) if form == "max<=sum" else ("is", at, True)), False
            rep.ob(rule, (hfn, "append-guarded", S.ordinal_key(body, c, bb)), S.all_vals(g, (bb, "T"), f),
                   "every append is preceded (after the previous append) by the size test; offending valuations: %s" % S.failing_vals(g, (bb, "T"), f)[:1], where(body, bb))
            rep.ob(rule, (hfn, "limit-inclusive", S.ordinal_key(body, c, bb)), strict_ok,
                   "comparison form `%s`: a body of exactly the limit must be accepted (strict > required)" % form, where(body, bb))
            rep.ob(rule, (hfn, "limit-value", S.ordinal_key(body, c, bb)), lim == 100 * 1024 * 1024,
                   "limit evaluates to %s; the protocol limit is 104857600 (100 MiB)" % lim, where(body, bb))
        # op receives the accumulated bytes only when non-empty and of the right content type
        hg = W.gea(hbody)
        ops = S.sites_of(hbody, WD.op(WD.HANDLER_OP[module]))
        ct_const = WD.SERVER + ("::api::HISTORY_SEGMENT_CONTENT_TYPE" if module == "add_version" else "::api::SNAPSHOT_CONTENT_TYPE")
        emp = [at for at in hg.atoms if at[0] == "PRED" and at[1].endswith("::is_empty") and at[2][0] == acc.value_in_handler]
        cta = [at for at in hg.atoms if at[0] == "EQ" and any(x[0] == "const" and x[1] == ct_const for x in (at[1], at[2]))
               and any(x[0] == "call" and x[1] == "actix_http::http_message::HttpMessage::content_type" for x in (at[1], at[2]))]
        for opbb, _ in ops:
            rep.ob("C15.EMPTY", (hfn, "op-needs-nonempty-body"), len(emp) == 1 and S.all_vals(hg, (opbb, "T"), ("is", emp[0], False)),
                   "the operation is called only when body.is_empty() is false", where(hbody, opbb))
            rep.ob("C15.CTYPE", (hfn, "op-needs-content-type"), len(cta) == 1 and S.all_vals(hg, (opbb, "T"), ("is", cta[0], True)),
                   "the operation is called only when the request content type equals %s" % ct_const.split("::")[-1], where(hbody, opbb))
    rep.ob(rule, ("siblings", "same-limit"), len(maxes) == 2 and len(set(maxes.values())) == 1,
           "size limits of the two write handlers: %s (must agree)" % maxes)


def _is_len_sum(t, body_local_idx, chunk, len_name="bytes::bytes_mut::BytesMut::len"):
    """t is len(body) + len(chunk) (checked or unchecked add)."""
    if t[0] == "field" and t[2] == "0":
        t = t[1]
    if not (t[0] == "binop" and t[1] in ("Add", "AddWithOverflow", "AddUnchecked")):
        return False
    parts = [t[2], t[3]]
    has_body = any(p_[0] == "call" and p_[1] == len_name and p_[3][0][0] == "mut" and p_[3][0][1] == body_local_idx for p_ in parts)
    has_chunk = any(p_[0] == "call" and p_[1] in ("bytes::bytes::Bytes::len", "core::slice::<impl [T]>::len") and p_[3][0] == chunk for p_ in parts)
    return has_body and has_chunk


def c15_typed(rep, W, rule="C15.TYPED"):
    for module in ("add_version", "add_snapshot", "get_child_version"):
        f = W.handler_fn(module)
        tys = [f.locals[i]["ty"] for i in range(1, f.arg_count + 1)]
        rep.ob(rule, (S.short_fn(f), "path-is-typed-uuid"), "actix_web::types::path::Path<uuid::Uuid>" in tys,
               "handler parameters: %s; the path id must be extracted as web::Path<Uuid> (malformed ids are refused by actix with 4xx)" % tys, where(f))


def _const_int(t, depth=0):
    if depth > 8:
        return None
    if t[0] == "const" and isinstance(t[2], int) and not isinstance(t[2], bool):
        return t[2]
    if t[0] == "field" and t[2] == "0":
        return _const_int(t[1], depth + 1)
    if t[0] == "binop" and t[1].replace("WithOverflow", "").replace("Unchecked", "") in ("Add", "Sub", "Mul"):
        a, b = _const_int(t[2], depth + 1), _const_int(t[3], depth + 1)
        if a is None or b is None:
            return None
        op = t[1].replace("WithOverflow", "").replace("Unchecked", "")
        return a + b if op == "Add" else a - b if op == "Sub" else a * b
    return None


def _const_arith_ok(cond):
    """cond is the overflow flag of a checked +,-,* whose operands are non-negative constants with a result below 2^31 (fits
    every integer type the request path uses): the assertion cannot fire."""
    if cond[0] == "field" and cond[2] == "1" and cond[1][0] == "binop" and cond[1][1].endswith("WithOverflow"):
        v = _const_int(("field", cond[1], "0"))
        a, b = _const_int(cond[1][2]), _const_int(cond[1][3])
        return v is not None and a is not None and b is not None and a >= 0 and b >= 0 and 0 <= v < 2 ** 31
    return False


def c15_nopanic(rep, W, rule="C15.NOPANIC"):
    bodies = []
    for module in WD.HANDLER_MODULES:
        h = W.handler(module)
        bodies.append(h)
        bodies.append(W.handler_fn(module))
    hb = W.body(WD.CLIENT_ID_HEADER_FN)
    bodies.append(hb)
    bodies += W.prog.closures_of(hb)
    bodies += [b for b in W.prog.bodies.values() if b.deff.startswith(hb.deff + "::")]
    seen = set()
    for b in bodies:
        if b.key in seen:
            continue
        seen.add(b.key)
        bad = []
        gb_ = None
        for bb, t in b.calls():
            d = t["callee"].get("def", "")
            if d in PANIC_CALLEES and not G.is_log_span(t["span"]):
                gb_ = gb_ or W.gea(b)
                if not gb_.vals_at((bb, "T")):
                    continue      # no path of the product reaches it (`unreachable!()` in an arm the value's construction excludes)
                bad.append((d.split("::")[-1], b.line_of_block(bb)))
        asserts = []
        for blk in b.blocks:
            if blk["cleanup"]:
                continue
            t = blk["term"]
            if t["k"] == "assert" and not t["msg"].startswith("Resumed"):
                if t["msg"].startswith("Overflow:") and t["cond"]["k"] != "const" and _const_arith_ok(W.prov(b).operand_term(t["cond"])):
                    continue      # arithmetic on constants that does not overflow (`100 * 1024 * 1024` in a const fn called at run time)
                asserts.append((t["msg"], t["span"]["line"]))
        # the only arithmetic assert allowed: len(body) + len(chunk), two lengths each <= isize::MAX
        okas = all(msg == "Overflow:Add" for msg, _ in asserts) and len(asserts) <= 1
        rep.ob(rule, (S.short_fn(b), "no-panic-calls"), not bad, "panicking calls in request parsing: %s" % (bad or "none"), where(b))
        # allocation sized by a run-time value: `with_capacity(n)` / `reserve(n)` / `resize(n, ..)` / `vec![x; n]` panic
        # ("capacity overflow") or abort the process when n is huge; in request handling n can only come from the request
        pvb = W.prov(b)
        sized = []
        for bb, t in b.calls():
            d = t["callee"].get("def", "")
            nm = d.split("::")[-1]
            if nm in ALLOC_SIZED or d in ("alloc::vec::from_elem",):
                args = pvb.arg_terms(bb)
                szs = [a for a in args if not (a[0] == "const" and isinstance(a[2], int) and a[2] <= 128 * 1024 * 1024)]
                # the receiver (a collection) is not a size; a call whose every other argument is a small constant is fine
                nonconst = [a for a in (args[1:] if nm not in ("with_capacity", "from_elem") else args) if not (a[0] == "const" and isinstance(a[2], int) and a[2] <= 128 * 1024 * 1024)]
                if nm == "resize" and len(args) >= 2:
                    nonconst = [a for a in args[1:2] if not (a[0] == "const" and isinstance(a[2], int) and a[2] <= 128 * 1024 * 1024)]
                if nm == "from_elem" and len(args) >= 2:
                    nonconst = [a for a in args[1:2] if not (a[0] == "const" and isinstance(a[2], int) and a[2] <= 128 * 1024 * 1024)]
                if nonconst:
                    sized.append((nm, b.line_of_block(bb), P.show(nonconst[0])[:80]))
        rep.ob(rule, (S.short_fn(b), "no-request-sized-allocation"), not sized,
               "allocations sized by a run-time value in request handling (a client-chosen number can make them panic or abort the process before any limit is checked): %s" % (sized or "none"), where(b))
        rep.ob(rule, (S.short_fn(b), "no-runtime-asserts"), okas,
               "run-time assertion sites: %s (allowed: the one `body.len() + chunk.len()` overflow check, unreachable because both are lengths <= isize::MAX)" % (asserts or "none"), where(b))


# =========================================================================== C16
SCOPE_SERVICE = "actix_web::scope::Scope::<T>::service"
MAIN = "bin:" + WD.SERVER + "::main::{closure#0}"


def _fn_arg_body(W, body, t):
    """Body of a closure / function item passed as an argument (None if the value is not statically a function)."""
    k = None
    if t[0] == "mut":
        t = t[3]
    if t[0] == "agg" and isinstance(t[1], tuple) and t[1][0] == "closure":
        k = t[1][1]
    elif t[0] == "fn":
        k = t[1]
    if k is None:
        return None
    return W.prog.bodies.get(("bin:" + k) if body.unit.endswith("-bin") else k) or W.prog.bodies.get(k)


def app_factory(W):
    """The application factory: the closure handed to HttpServer::new in main (identified by role, not by its index)."""
    mb = W.prog.bodies.get(MAIN)
    if mb is None:
        return None
    for bb, t in mb.calls():
        if t["callee"].get("def", "").endswith("HttpServer::<F, I, S, B>::new"):
            return _fn_arg_body(W, mb, W.prov(mb).arg_terms(bb)[0])
    return None


def app_configure(W, fac0):
    """The closure / function handed to App::configure inside the application factory."""
    if fac0 is None:
        return None
    for bb, t in fac0.calls():
        if t["callee"].get("def") == "actix_web::app::App::<T>::configure":
            return _fn_arg_body(W, fac0, W.prov(fac0).arg_terms(bb)[1])
    return None


def registration_tree(W):
    """(WebServer::config body, term of the one service handed to cfg.service(..)): the whole registration tree -- nested
    scopes are sub-terms (receiver chains and `.service(..)` arguments)."""
    cfg = W.body(WD.SERVER + "::WebServer::config")
    svc = S.sites_of(cfg, "actix_web::config::ServiceConfig::service")
    if len(svc) != 1:
        return cfg, None
    return cfg, W.prov(cfg).arg_terms(svc[0][0])[1]


def c16(rep, W, rule="C16"):
    # ROUTES
    rs = routes(W)
    api, root = registration_tree(W)
    # route factories registered anywhere in the registration tree of WebServer::config (the nested api scope of the
    # pinned tree is spliced into it, see load.SPLICE_BASELINE)
    registered = [unit_struct_name(x[3][1]) for x in P.walk(root) if x[0] == "call" and x[1] == SCOPE_SERVICE and len(x[3]) > 1] if root else []
    registered = [x for x in registered if x and "::api::" in x]
    facts_api = sorted(r["factory"] for r in rs if "::api::" in r["factory"])
    rep.ob(rule + ".ROUTES", ("api_scope", "registered==factories"), sorted(registered) == facts_api and len(registered) == len(facts_api),
           "protocol services registered under WebServer::config: %s; route factories defined in server::api: %s" % (registered, facts_api), where(api))
    rep.floor(rule + ".ROUTES", "protocol routes", len(facts_api), 4)
    known = set("%s::api::%s::service" % (WD.SERVER, mth) for mth in WD.HANDLER_MODULES)
    rep.ob(rule + ".ROUTES", ("api", "every-factory-has-rules"), set(facts_api) == known,
           "route factories %s; the per-handler rules cover %s (a new endpoint needs its own allow-list rule instance)" % (facts_api, sorted(known)))
    for r in rs:
        if r["factory"] in known:
            module = r["factory"].split("::")[-2]
            rep.ob(rule + ".ROUTES", (module, "handler-bound"), r["handler"] == W.handler_fn(module).deff and not r["extra"],
                   "factory %s routes to %s" % (r["factory"], r["handler"]), where(r["body"]), nontrivial=False)
    # DOM
    for module in WD.HANDLER_MODULES:
        body = W.handler(module)
        fn = S.short_fn(body)
        g = W.gea(body)
        pvb = W.prov(body)
        hs = S.sites_of(body, WD.CLIENT_ID_HEADER_FN)
        if len(hs) != 1:
            rep.fail(rule + ".DOM", (fn, "helper-call"), "expected exactly one client_id_header call, found %d" % len(hs), where(body))
            continue
        hargs = pvb.arg_terms(hs[0][0])
        atom = ("VARIANT", pvb.def_term((hs[0][0], "T")))
        n = 0
        for bb in storage_reaching_calls(W, body):
            n += 1
            d = body.blocks[bb]["term"]["callee"].get("def", "?")
            rep.ob(rule + ".DOM", (fn, S.ordinal_key(body, d, bb)), S.all_vals(g, (bb, "T"), ("is", atom, "ok")),
                   "%s is reached only after client_id_header returned Ok (allow-list passed); offending: %s" % (d.split("::")[-1], S.failing_vals(g, (bb, "T"), ("is", atom, "ok"))[:1]),
                   where(body, bb))
        rep.floor(rule + ".DOM", fn + " storage-reaching calls", n, 1, where(body))
        def _root(t_):
            while t_[0] in ("field", "ok", "mut") or (t_[0] == "call" and t_[3]):
                t_ = t_[1] if t_[0] in ("field", "ok") else (t_[3] if t_[0] == "mut" else t_[3][0])
            return t_
        rep.ob(rule + ".DOM", (fn, "helper-on-shared-state"), len(hargs) >= 2 and all(_root(a)[0] == "upvar" for a in hargs[:2]),
               "client_id_header(%s, %s) is applied to the handler's own state and request" % (P.show(hargs[0]), P.show(hargs[1])), where(body, hs[0][0]), nontrivial=False)
    # HELPER
    hb = W.body(WD.CLIENT_ID_HEADER_FN)
    fn = S.short_fn(hb)
    gh = W.gea(hb)
    la = [a for a in gh.atoms if a[0] == "VARIANT" and m(S.self_field("client_id_allowlist"), a[1]) is not None]
    ca = [a for a in gh.atoms if a[0] == "PRED" and a[1] == "std::collections::hash::set::HashSet::<T, S, A>::contains"]
    ha = [a for a in gh.atoms if a[0] == "VARIANT" and a[1][0] == "call" and a[1][1] == "actix_http::header::map::HeaderMap::get"]
    if len(la) != 1 or len(ca) != 1 or len(ha) != 1:
        rep.fail(rule + ".HELPER", (fn, "atoms"), "client_id_header must test the header's presence, the allow-list's presence and membership exactly once each (found %d/%d/%d)"
                 % (len(ha), len(la), len(ca)), where(hb))
        return
    l, c, h = la[0], ca[0], ha[0]
    parsed = None
    FORB = "actix_web::error::internal::ErrorForbidden"
    is403 = lambda t_: any(x[0] == "call" and x[1] == FORB for x in P.walk(t_))   # noqa: E731  (returned directly, or propagated by `?` out of a spliced helper)
    tsa = [a for a in gh.atoms if a[0] == "VARIANT" and a[1][0] == "call" and a[1][1].endswith("HeaderValue::to_str")]
    psa = [a for a in gh.atoms if a[0] == "VARIANT" and a[1][0] == "call" and a[1][1].endswith("parse_str")]
    n403 = nref = 0
    for site, rt, val, kind in S.exit_kinds(W, hb, lambda t_: "err" if S.is_error_exit(t_) else "ok"):
        if kind != "err":
            continue
        one = lambda a_, v_: val.get(a_) == frozenset([v_])     # noqa: E731
        if is403(rt):
            n403 += 1
            rep.ob(rule + ".HELPER", (fn, "forbidden-iff-unlisted"), one(l, "ok") and one(c, False),
                   "403 is returned exactly under allow-list present and id not contained; path condition: %s" % G.show_val(val)[:200], where(hb, line=S.exit_line(hb, site)))
        else:
            # "with no list every well-formed client id is served / listed clients are served": the only refusals other than
            # the 403 are for a header that is absent, not text, or not a UUID -- no further condition on a well-formed id
            nref += 1
            rep.ob(rule + ".HELPER", (fn, "refused-only-if-malformed"), bool(psa) and (one(h, "err") or any(one(a_, "err") for a_ in tsa + psa)),
                   "a refusal other than the 403 is returned only for an absent / non-text / unparsable header; path condition: %s" % G.show_val(val)[:200],
                   where(hb, line=S.exit_line(hb, site)))
    rep.floor(rule + ".HELPER", "malformed-header refusals", nref, 1, where(hb))
    for site, term in S.exits(W, hb):
        if S.is_error_exit(term):
            continue
        mo = m(pat.adt("Result", "Ok", ("0", V("id"))), term)
        parsed = mo["id"] if mo else None
        f = ("and", ("is", h, "ok"), ("or", ("is", l, "err"), ("is", c, True)))
        rep.ob(rule + ".HELPER", (fn, "ok-only-if-listed"), S.all_vals(gh, site, f),
               "Ok is returned only when no allow-list is configured or the id is in it; offending: %s" % S.failing_vals(gh, site, f)[:1], where(hb, line=S.exit_line(hb, site)))
    # membership is tested for the parsed id itself, on the configured list
    okm = parsed is not None and c[2][0] == ("ok", l[1]) and c[2][1] == parsed
    rep.ob(rule + ".HELPER", (fn, "membership-of-parsed-id"), okm, "contains(%s, %s); must be (the configured list, the id that is returned)" % (P.show(c[2][0]), P.show(c[2][1])), where(hb))
    # every allow-list-present path decides membership: no path from `list present` to Ok without the contains test (covered by ok-only-if-listed)
    rep.floor(rule + ".HELPER", "403 exits", n403, 1, where(hb))
    # WIRE
    ctors = []
    for b in W.prog.bodies.values():
        for blk in b.blocks:
            if blk["cleanup"]:
                continue
            for s_ in blk["stmts"]:
                if s_["k"] == "assign" and s_["rv"]["k"] == "aggregate" and s_["rv"].get("adt", "").endswith("::api::ServerState"):
                    ctors.append((b, blk["i"], s_))
    wn = W.body(WD.SERVER + "::WebServer::new")
    rep.ob(rule + ".WIRE", ("ServerState", "constructed-only-in-WebServer::new"), [b.key for b, _, _ in ctors] == [wn.key],
           "ServerState is constructed in %s" % [b.deff for b, _, _ in ctors])
    for b, bb, s_ in ctors:
        t = W.prov(b).rvalue_term(s_["rv"])
        fl = dict(t[2])
        rep.ob(rule + ".WIRE", (S.short_fn(b), "allowlist-from-parameter"), m(("param", 2, ANY), fl.get("client_id_allowlist", ("unknown",))) is not None,
               "ServerState.client_id_allowlist := %s; must be the constructor's allow-list parameter" % P.show(fl.get("client_id_allowlist", ("unknown",))), where(b, bb))
    ss = W.prog.adt("api::ServerState")
    fty = [f["ty"] for f in ss["variants"][0]["fields"] if f["name"] == "client_id_allowlist"] if ss else []
    rep.ob(rule + ".WIRE", ("ServerState.client_id_allowlist", "immutable-type"),
           bool(fty) and not any(x in fty[0] for x in S.INTERIOR_MUT), "field type %s (no interior mutability: the list cannot change after start-up)" % (fty and fty[0]))
    writers = []
    for b in W.prog.bodies.values():
        pvb = W.prov(b)
        for site, place, node in pvb.stores:
            if place["proj"] and place["proj"][-1].get("name") == "client_id_allowlist":
                writers.append(b.deff)
    rep.ob(rule + ".WIRE", ("ServerState.client_id_allowlist", "never-assigned"), not writers, "assignments to the field after construction: %s" % (writers or "none"))


# =========================================================================== C20
def c20(rep, W, rule="C20"):
    cfg = W.body(WD.SERVER + "::WebServer::config")
    pv = W.prov(cfg)
    svc = S.sites_of(cfg, "actix_web::config::ServiceConfig::service")
    rep.ob(rule + ".WRAP", (S.short_fn(cfg), "single-registration"), len(svc) == 1, "%d cfg.service(..) call(s) in WebServer::config" % len(svc), where(cfg))
    nserv = 0
    root_wrap_bbs = set()      # `.wrap(..)` calls on the ROOT scope's own builder chain (not on a nested scope)
    if len(svc) == 1:
        t = pv.arg_terms(svc[0][0])[1]
        chain = []
        wrapped = None
        while t[0] == "call" and t[1].startswith("actix_web::scope::Scope::<T>::"):
            chain.append((t[1].split("::")[-1], t[3][1:]))
            if t[1].endswith("::wrap"):
                root_wrap_bbs.add(t[2])
            t = t[3][0]
        root_ok = t[0] == "call" and t[1] == "actix_web::web::scope" and const_str(t[3][0]) == ""
        rep.ob(rule + ".WRAP", (S.short_fn(cfg), "root-scope"), root_ok, "the registered service is a web::scope(\"\") chain (root: %s)" % P.show(t)[:80], where(cfg))
        unknown = [n for n, _ in chain if n not in ("service", "wrap", "app_data")]
        rep.ob(rule + ".WRAP", (S.short_fn(cfg), "chain-methods"), not unknown, "scope builder methods used: %s" % [n for n, _ in chain], where(cfg))
        wraps = [a for n, a in chain if n == "wrap"]
        nserv = sum(1 for n, _ in chain if n == "service")
        okw = False
        det = "no .wrap(..) on the scope"
        for a in wraps:
            w = a[0]
            mm = m(call("actix_web::middleware::default_headers::DefaultHeaders::add", call("actix_web::middleware::default_headers::DefaultHeaders::new"), pat.tup(V("n"), V("v"))), w)
            if mm is not None:
                n_, v_ = header_name(mm["n"]), const_str(mm["v"])
                directives = [d.strip().lower() for d in (v_ or "").split(",")]
                okw = n_ is not None and n_.lower() == "cache-control" and "no-store" in directives
                det = "DefaultHeaders adds (%r, %r)" % (n_, v_)
        rep.ob(rule + ".WRAP", (S.short_fn(cfg), "no-store-default-header"), okw,
               "%s; the scope must be wrapped with a default Cache-Control header containing the no-store directive" % det, where(cfg))
        rep.floor(rule + ".WRAP", "services inside the wrapped scope", nserv, 2, where(cfg))
    fac0 = app_factory(W)
    FAC0_KEY = fac0.key if fac0 is not None else "?"
    # ONLY: registrations anywhere in the workspace are the enumerated ones
    REG = ("actix_web::app::App::<T>::service", "actix_web::app::App::<T>::route", "actix_web::app::App::<T>::default_service",
           "actix_web::app::App::<T>::configure", "actix_web::app::App::<T>::external_resource",
           "actix_web::config::ServiceConfig::service", "actix_web::config::ServiceConfig::route", "actix_web::config::ServiceConfig::default_service",
           "actix_web::config::ServiceConfig::configure", "actix_web::config::ServiceConfig::external_resource",
           "actix_web::scope::Scope::<T>::service", "actix_web::scope::Scope::<T>::route", "actix_web::scope::Scope::<T>::default_service",
           "actix_web::scope::Scope::<T>::configure")
    allowed = {
        (WD.SERVER + "::WebServer::config", "actix_web::config::ServiceConfig::service"): 1,
        (WD.SERVER + "::WebServer::config", "actix_web::scope::Scope::<T>::service"): 6,
        (FAC0_KEY, "actix_web::app::App::<T>::configure"): 1,
    }
    found = {}
    for b in W.prog.bodies.values():
        for bb, t in b.calls():
            d = t["callee"].get("def", "")
            if d in REG:
                found[(b.key, d)] = found.get((b.key, d), 0) + 1
    for k, n in sorted(found.items()):
        rep.ob(rule + ".ONLY", (k[0].split("::")[-1] if "closure" not in k[0] else "main-app-factory", k[1].split("::")[-1], k[0][-50:]), k in allowed and n <= allowed[k] or (k in allowed and k[1].endswith("Scope::<T>::service")),
               "%d %s registration(s) in %s%s" % (n, k[1], k[0], "" if k in allowed else " -- not in the enumerated set: a service outside the no-store scope"))
    # every Scope::service / Scope::route registration site is part of the registration tree rooted at the wrapped scope
    _cfg, root = registration_tree(W)
    inside = P.call_sites(root) if root else set()
    for b in W.prog.bodies.values():
        for bb, t in b.calls():
            d = t["callee"].get("def", "")
            if d.startswith("actix_web::scope::Scope::<T>::") and d in REG:
                rep.ob(rule + ".ONLY", (S.short_fn(b), "inside-wrapped-scope", S.ordinal_key(b, d, bb)), b.key == cfg.key and bb in inside,
                       "%s at line %d is %s the registration tree of the no-store scope" % (d.split("::")[-1], b.line_of_block(bb), "part of" if b.key == cfg.key and bb in inside else "NOT part of"),
                       where(b, bb), nontrivial=False)
    # MIDDLEWARE: DefaultHeaders decorates only `Ok` responses that come back through it; an Err returned by a middleware
    # registered *inside* the scope, or a response built by one registered anywhere, is not covered by the argument.
    # Every middleware registration in the workspace must therefore be one of the enumerated, individually justified ones.
    MW = ("wrap", "wrap_fn")
    allowed_mw = {
        (WD.SERVER + "::WebServer::config", "actix_web::scope::Scope::<T>::wrap"): "the DefaultHeaders(no-store) wrapper itself (checked by C20.WRAP)",
        (FAC0_KEY, "actix_web::app::App::<T>::wrap"):
            "ErrorHandlers(500 -> print_error, which returns the same response) and Logger (does not build responses); both outside the scope, "
            "so they only ever see responses that already carry the header",
    }
    nmw = 0
    for b in W.prog.bodies.values():
        for bb, t in b.calls():
            d = t["callee"].get("def", "")
            if d.startswith("actix_web::") and d.split("::")[-1] in MW:
                nmw += 1
                okm = (b.key, d) in allowed_mw
                if okm and d.endswith("Scope::<T>::wrap"):
                    # only the root scope's own DefaultHeaders wrapper: a wrap on a nested scope sits INSIDE the header scope
                    w = W.prov(b).arg_terms(bb)[1]
                    okm = bb in root_wrap_bbs and m(call("actix_web::middleware::default_headers::DefaultHeaders::add",
                                                         call("actix_web::middleware::default_headers::DefaultHeaders::new"), ANY), w) is not None
                rep.ob(rule + ".MIDDLEWARE", (S.short_fn(b), d.split("::")[-2] + "::" + d.split("::")[-1], S.ordinal_key(b, d, bb)), okm,
                       "middleware registered via %s in %s: %s" % (d, b.deff, allowed_mw.get((b.key, d), "NOT an enumerated middleware -- a middleware inside the no-store scope can "
                                                                   "return an Err (or build a response) that bypasses DefaultHeaders, which only decorates Ok responses passing through it")),
                       where(b, bb))
    rep.floor(rule + ".MIDDLEWARE", "middleware registrations scanned", nmw, 1)
    # the two App::wrap arguments are the expected middlewares
    eh_body = None
    kinds_seen = []
    if fac0 is not None:
        pvf = W.prov(fac0)
        kinds = kinds_seen
        for bb, t in fac0.calls():
            if t["callee"].get("def") == "actix_web::app::App::<T>::wrap":
                a = pvf.arg_terms(bb)[1]
                if a[0] == "call" and a[1] == "actix_web::middleware::err_handlers::ErrorHandlers::<B>::handler":
                    kinds.append("ErrorHandlers")
                    eh_body = _fn_arg_body(W, fac0, a[3][2])
                elif a[0] == "call" and a[1] == "core::default::Default::default" and fac0.blocks[a[2]]["term"]["callee"].get("resolved", "").startswith("<actix_web::middleware::logger::Logger"):
                    kinds.append("Logger")
                else:
                    kinds.append("?" + P.show(a)[:60])
        rep.ob(rule + ".MIDDLEWARE", ("main-app-factory", "outer-middlewares"), sorted(kinds) == ["ErrorHandlers", "Logger"],
               "middlewares around the application: %s (expected ErrorHandlers and Logger)" % kinds, where(fac0))
    # the app factory's configure closure calls exactly WebServer::config
    fac = app_configure(W, fac0)
    okf = fac is not None and [t["callee"].get("def") for _, t in fac.calls()] == [WD.SERVER + "::WebServer::config"]
    rep.ob(rule + ".ONLY", ("main", "configure-calls-WebServer::config"), okf, "App::configure closure calls %s" % ([t["callee"].get("def") for _, t in fac.calls()] if fac else None))
    # print_error returns the same response
    # the error handler (a function item or a closure) returns the response it was given
    pe = eh_body
    if pe is not None:
        resp_param = ("param", 2 if pe.kind == "Closure" else 1, ANY)
        okp = True
        nex = 0
        for site, rt, val, kind in S.exit_kinds(W, pe, lambda t_: "x"):
            nex += 1
            mm = m(pat.adt("Result", "Ok", ("0", pat.adt("ErrorHandlerResponse", "Response", ("0", call("actix_web::service::ServiceResponse::<B>::map_into_left_body", resp_param))))), rt)
            okp = okp and mm is not None          # EVERY exit: an `Err(..)` from the handler is rendered anew, outside the no-store scope
        okp = okp and nex > 0
        rep.ob(rule + ".ONLY", ("print_error", "passes-response-through"), okp, "the 500 error handler returns the very response it was given (headers intact)", where(pe))
    elif "ErrorHandlers" in kinds_seen:
        rep.fail(rule + ".ONLY", ("print_error", "passes-response-through"), "the 500 error handler is not a statically known function or closure")
    # NOOVERRIDE: no other header insertion names cache-control
    bad = []
    n_hdr = 0
    for b in W.prog.bodies.values():
        if not b.unit in (WD.SERVER + "-lib", WD.SERVER + "-bin"):
            continue
        pvb = W.prov(b)
        for bb, t in b.calls():
            d = t["callee"].get("def", "")
            if d.split("::")[-1] in ("append_header", "insert_header", "add", "insert", "append") and ("Header" in d or "header" in d):
                n_hdr += 1
                for a in pvb.arg_terms(bb):
                    for x in P.walk(a):
                        if x[0] == "const" and (header_name(x) or "").lower() == "cache-control" and b.key != cfg.key:
                            bad.append((b.deff, b.line_of_block(bb)))
                # a *typed* header (`CacheControl(vec![..])`) names the header through its type, not through a constant:
                # DefaultHeaders leaves a header that is already present alone, so a response that sets its own
                # Cache-Control replaces the no-store default whatever directive it carries
                tys = " ".join([t["callee"].get("def_args") or ""] + [str((a_.get("p") or {}).get("ty", "")) for a_ in t.get("args", []) if isinstance(a_, dict)])
                if ("::CacheControl" in tys or "::CacheDirective" in tys) and b.key != cfg.key:
                    bad.append((b.deff, b.line_of_block(bb), "typed CacheControl header"))
    rep.ob(rule + ".NOOVERRIDE", ("server", "no-other-cache-control"), not bad, "header insertions naming Cache-Control outside the scope wrapper: %s" % (bad or "none"))
    rep.floor(rule + ".NOOVERRIDE", "header-insertion sites scanned", n_hdr, 3)


# =========================================================================== C18.HANDLERS
def c18_handlers(rep, W, rule="C18.HANDLERS"):
    c15_refuse(rep, W, rule="C15.REFUSE")
    # the creation block is the only write outside the operations and runs only under Err(NoSuchClient) (C03.LOOP)
    for module in ("get_child_version", "get_snapshot", "add_snapshot"):
        body = W.handler(module)
        w = [t["callee"]["def"].split("::")[-1] for bb, t in body.calls() if t["callee"].get("def", "").startswith(WD.STORAGE_TXN + "::")]
        rep.ob(rule, (S.short_fn(body), "no-direct-storage-calls"), not w, "storage methods called directly by the %s handler: %s" % (module, w or "none"), where(body))


S.c18_handlers = c18_handlers


# =========================================================================== handler -> operation argument wiring
def handler_args(rep, W, rule="H-ARGS"):
    """Each protocol handler hands the operation exactly: the validated client id, the id from the URL path (typed
    extractor), and -- for writes -- the accumulated request body.  All ids are `Uuid`, so the type checker cannot
    tell a swapped argument; provenance can."""
    n = 0
    for module in WD.HANDLER_MODULES:
        body = W.handler(module)
        fn = S.short_fn(body)
        pv = W.prov(body)
        ops = S.sites_of(body, WD.op(WD.HANDLER_OP[module]))
        if len(ops) != 1:
            rep.fail(rule, (fn, "op-call"), "expected exactly one call of Server::%s" % WD.HANDLER_OP[module], where(body))
            continue
        # the handler's answer is derived from ONE protocol operation, its own: a second operation (a "fast path" asking
        # get_child_version before an add_version, say) is a second transaction whose result can be stale or mean something else
        others = sorted({body.blocks[bb]["term"]["callee"].get("def", "?").split("::")[-1] for bb, t_ in body.calls()
                         if t_["callee"].get("def", "").startswith(WD.SERVER_TY + "::")} - {WD.HANDLER_OP[module], "txn"})
        rep.ob(rule, (fn, "only-its-own-operation"), not others, "other Server operations called by the %s handler: %s" % (module, others or "none"), where(body), nontrivial=False)
        args = pv.arg_terms(ops[0][0])
        hf = W.handler_fn(module)
        ptypes = [hf.locals[i]["ty"] for i in range(1, hf.arg_count + 1)]
        # receiver: the shared server
        rep.ob(rule, (fn, "receiver"), args[0][0] == "field" and args[0][2] == "server" and args[0][1][0] == "upvar",
               "operation is invoked on %s (the shared ServerState.server)" % P.show(args[0]), where(body, ops[0][0]), nontrivial=False)
        if module != "get_snapshot":
            n += 1
            t = args[2]
            # `path.into_inner()` or `*path` (Deref is an identity transport): the typed URL extractor parameter itself
            src = t[3][0] if (t[0] == "call" and t[1] == "actix_web::types::path::Path::<T>::into_inner" and t[3]) else t
            okp = src[0] == "upvar" and src[1] < len(ptypes) and ptypes[src[1]] == "actix_web::types::path::Path<uuid::Uuid>"
            rep.ob(rule, (fn, "path-id"), okp,
                   "version id passed to Server::%s is %s; must be the id extracted from the URL path (web::Path<Uuid>::into_inner)" % (WD.HANDLER_OP[module], P.show(t)[:100]),
                   where(body, ops[0][0]))
        if module in ("add_version", "add_snapshot"):
            acc, why = find_accumulation(W, module)
            rep.ob(rule, (fn, "payload"), acc is not None,
                   "payload passed to Server::%s is %s" % (WD.HANDLER_OP[module], "the accumulated request body" if acc is not None else why), where(body, ops[0][0]))
        rep.ob(rule, (fn, "arity"), len(args) == {"add_version": 4, "add_snapshot": 4, "get_child_version": 3, "get_snapshot": 2}[module],
               "operation receives %d arguments" % len(args), where(body, ops[0][0]), nontrivial=False)
    rep.floor(rule, "path-id arguments", n, 3)
