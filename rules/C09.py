"""C09 - clients are isolated from one another."""
from rules import http as H
from rules import shared as S
LEVEL = "proof"
TRUSTED = ["TB-rustc", "TB-sqlite", "TB-mutex", "TB-actix", "TB-uuid"]
EXPLANATION = "every stored-record access is keyed by the transaction's client id, which comes only from the validated header"


def run(rep, W, ctx):
    S.s_sql_closed(rep, W)
    S.s_clientid(rep, W)
    for opn in ("get_child_version", "add_version", "add_snapshot", "get_snapshot"):
        S.s_txn1(rep, W, W.op(opn))
    S.s_txn2(rep, W)
    S.s_scope(rep, W)
    S.c03_nostate(rep, W)      # (c) no shared mutable state outside the storage (caches, memos, statics)
    H.handler_args(rep, W)     # (d) ids quoted in the request are passed in the version-id positions only
