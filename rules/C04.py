"""C04 - crashes lose no acknowledged data and leave no half-applied write."""
from rules import shared as S
from rules import wiring as WR
LEVEL = "other"
TRUSTED = ["TB-rustc", "TB-sqlite: a BEGIN IMMEDIATE ... COMMIT is atomic and, in WAL mode with the default synchronous=FULL, durable; recovery replays/discards the WAL correctly"]
EXPLANATION = ("durability skeleton (the repository's side of the contract): WAL and no weakening pragma, all writes of one operation inside one BEGIN IMMEDIATE..COMMIT on one "
               "connection, acknowledgement dominated by a successful COMMIT, non-destructive open. Recovery itself (crash points, torn writes) is NOT decided.")
ASSUMPTIONS = ["every crash point / power-loss image is run-time behaviour of SQLite and the file system, not visible in this repository's source"]


def run(rep, W, ctx):
    S.s_sql_closed(rep, W)
    WR.c04(rep, W)
    S.s_failstop_all(rep, W)          # a failed storage step is never retried / patched up inside the transaction
    S.s_txn2(rep, W)
    for opn in ("add_version", "add_snapshot"):
        S.s_txn1(rep, W, W.op(opn))
        S.s_txn3(rep, W, W.op(opn))
    S.s_txn3(rep, W, W.handler("add_version"))
    S.s_ack_handler(rep, W, "add_version", "add_version")
    S.s_ack_handler(rep, W, "add_snapshot", "add_snapshot")
    S.c01_key(rep, W)
    S.c11(rep, W)
    # AddVersion from an unknown client commits twice (create the client, then the operation proper): a crash between the two
    # is harmless only because the first commit leaves exactly "a client with no versions" (NIL latest), i.e. the request absent
    S.s_newclient(rep, W)
