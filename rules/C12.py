"""C12 - snapshot requests track snapshot age and versions since, for every config."""
from rules import http as H
from rules import shared as S
LEVEL = "other"
TRUSTED = ["TB-rustc", "TB-sqlite", "Scale: fewer than 2^32 versions between two snapshots (u32 counter)"]
EXPLANATION = ("threshold arithmetic decided exactly by an interval x linear-bound abstract interpretation over the whole non-negative range of each "
               "target type (no overflow, high >= low) + comparison-chain shape (monotone) + counter bookkeeping obligations (necessary only)")
ASSUMPTIONS = ["negative targets are outside the property's quantifier", "wall-clock behaviour is not analysed"]


def run(rep, W, ctx):
    S.c12_arith(rep, W, "dev")
    if ctx.get("W_rel") is not None:
        S.c12_arith(rep, ctx["W_rel"], "rel")
    S.c12_max(rep, W)
    S.s_sql_closed(rep, W)
    S.c02_cnt(rep, W)
    S.c10(rep, W)
    S.c11(rep, W)            # "how old the stored snapshot is": the time set_snapshot is given is the time get_client returns (seconds both ways)
    H.c14_tables(rep, W, modules=("add_version",))   # the urgency reaches the client: X-Snapshot-Request rows of the AddVersion handler
